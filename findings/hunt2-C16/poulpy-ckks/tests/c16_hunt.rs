//! C16 second-pass audit: random straight-line CKKS programs against a complex-number model,
//! plus targeted probes of secondary entry points.
#![allow(dead_code, unused_imports, unused_variables, unused_mut, clippy::all)]

mod c16_common;

use std::{
    collections::HashMap,
    panic::{AssertUnwindSafe, catch_unwind},
};

use c16_common::*;
use poulpy_ckks::{
    CKKSCompositionError, CKKSInfos, CKKSMeta,
    encoding::Encoder,
    layouts::{
        CKKSCiphertext, CKKSConstPlaintextConversion, CKKSMaintainOps, CKKSPlaintextConversion, CKKSPlaintextCstRnx,
        CKKSPlaintextCstZnx, CKKSPlaintextVecRnx, CKKSPlaintextVecZnx,
    },
    leveled::api::*,
};
use poulpy_core::{
    EncryptionLayout, GLWEAutomorphismKeyEncryptSk, GLWENormalize, GLWETensorKeyEncryptSk,
    layouts::{
        GLWEAutomorphismKey, GLWEAutomorphismKeyLayout, GLWEAutomorphismKeyPrepared, GLWEAutomorphismKeyPreparedFactory,
        GLWEInfos, GLWELayout, GLWESecret, GLWESecretPreparedFactory, GLWETensorKey, GLWETensorKeyLayout,
        GLWETensorKeyPrepared, GLWETensorKeyPreparedFactory, LWEInfos, Rank, prepared::GLWESecretPrepared,
    },
};
use poulpy_hal::{
    api::{ModuleN, ModuleNew, ScratchOwnedAlloc, ScratchOwnedBorrow},
    layouts::{DeviceBuf, GaloisElement, Module, NoiseInfos, ScratchOwned, ZnxView, ZnxViewMut},
    source::Source,
};
use rand_distr::num_traits::{Float, FromPrimitive, ToPrimitive};

macro_rules! c16_suite {
    (mod $m:ident, be = $be:ty, f = $f:ty, p = $p:expr, seeds = $seeds:expr, steps = $steps:expr) => {
        mod $m {
            use super::*;
            type BE = $be;
            type F = $f;
            const PP: P = $p;

            pub type Ct = CKKSCiphertext<Vec<u8>>;
            pub type Atk = GLWEAutomorphismKeyPrepared<DeviceBuf<BE>, BE>;

            pub struct Ctx {
                pub module: Module<BE>,
                pub enc: Encoder<F>,
                pub sk: GLWESecretPrepared<DeviceBuf<BE>, BE>,
                pub tsk: GLWETensorKeyPrepared<DeviceBuf<BE>, BE>,
                pub tsk_infos: EncryptionLayout<GLWETensorKeyLayout>,
                pub atk_infos: EncryptionLayout<GLWEAutomorphismKeyLayout>,
                pub rot: HashMap<i64, Atk>,
                pub conj: Atk,
                pub p: P,
            }

            pub fn ff(x: f64) -> F {
                F::from_f64(x).unwrap()
            }
            pub fn t64(x: F) -> f64 {
                x.to_f64().unwrap()
            }
            pub fn maxprec() -> usize {
                <CKKSPlaintextVecRnx<F> as CKKSPlaintextConversion>::max_log_delta_prec()
            }
            pub fn meta(m: M) -> CKKSMeta {
                CKKSMeta {
                    log_delta: m.d,
                    log_budget: m.b,
                }
            }
            pub fn mof<T: CKKSInfos>(x: &T) -> M {
                M {
                    d: x.log_delta(),
                    b: x.log_budget(),
                }
            }
            pub fn mk(ct: &Ct) -> usize {
                ct.max_k().as_usize()
            }

            pub struct Reg {
                pub ct: Ct,
                pub val: Vec<C>,
                pub err: f64,
            }

            impl Ctx {
                pub fn new(p: P, rots: &[i64]) -> Self {
                    let module = Module::<BE>::new(p.n as u64);
                    let glwe = GLWELayout {
                        n: p.n.into(),
                        base2k: p.base2k.into(),
                        k: p.kmax.into(),
                        rank: Rank(p.rank as u32),
                    };
                    let kk = p.kmax + p.dsize * p.base2k;
                    let dnum = kk.div_ceil(p.dsize * p.base2k);
                    let tsk_infos = EncryptionLayout::new_from_default_sigma(GLWETensorKeyLayout {
                        n: p.n.into(),
                        base2k: p.base2k.into(),
                        k: kk.into(),
                        rank: Rank(p.rank as u32),
                        dsize: p.dsize.into(),
                        dnum: dnum.into(),
                    })
                    .unwrap();
                    let atk_infos = EncryptionLayout::new_from_default_sigma(GLWEAutomorphismKeyLayout {
                        n: p.n.into(),
                        base2k: p.base2k.into(),
                        k: kk.into(),
                        rank: Rank(p.rank as u32),
                        dsize: p.dsize.into(),
                        dnum: dnum.into(),
                    })
                    .unwrap();

                    let mut xa = Source::new([11u8; 32]);
                    let mut xe = Source::new([12u8; 32]);
                    let mut xs = Source::new([13u8; 32]);
                    let mut sk_raw = GLWESecret::alloc_from_infos(&glwe);
                    sk_raw.fill_ternary_hw(p.hw, &mut xs);
                    let mut sk = module.glwe_secret_prepared_alloc_from_infos(&glwe);
                    module.glwe_secret_prepare(&mut sk, &sk_raw);

                    let mut scratch = ScratchOwned::<BE>::alloc(1 << 24);

                    let mut tsk = GLWETensorKey::alloc_from_infos(&tsk_infos);
                    module.glwe_tensor_key_encrypt_sk(&mut tsk, &sk_raw, &tsk_infos, &mut xa, &mut xe, scratch.borrow());
                    let mut tsk_prepared = module.alloc_tensor_key_prepared_from_infos(&tsk_infos);
                    module.prepare_tensor_key(&mut tsk_prepared, &tsk, scratch.borrow());

                    let mut mkkey = |gal: i64| -> Atk {
                        let mut atk = GLWEAutomorphismKey::alloc_from_infos(&atk_infos);
                        module.glwe_automorphism_key_encrypt_sk(&mut atk, gal, &sk_raw, &atk_infos, &mut xa, &mut xe, scratch.borrow());
                        let mut prep = module.glwe_automorphism_key_prepared_alloc_from_infos(&atk_infos);
                        module.glwe_automorphism_key_prepare(&mut prep, &atk, scratch.borrow());
                        prep
                    };
                    let mut rot = HashMap::new();
                    for &r in rots {
                        rot.insert(r, mkkey(module.galois_element(r)));
                    }
                    let conj = mkkey(-1);

                    Self {
                        enc: Encoder::<F>::new(p.n / 2).unwrap(),
                        module,
                        sk,
                        tsk: tsk_prepared,
                        tsk_infos,
                        atk_infos,
                        rot,
                        conj,
                        p,
                    }
                }

                pub fn m(&self) -> usize {
                    self.p.n / 2
                }

                pub fn encode_rnx(&self, slots: &[C]) -> CKKSPlaintextVecRnx<F> {
                    let re: Vec<F> = slots.iter().map(|c| ff(c.0)).collect();
                    let im: Vec<F> = slots.iter().map(|c| ff(c.1)).collect();
                    let mut pt = CKKSPlaintextVecRnx::<F>::alloc(self.p.n).unwrap();
                    self.enc.encode_reim(&mut pt, &re, &im).unwrap();
                    pt
                }

                pub fn encode_znx(&self, slots: &[C], m: M) -> CKKSPlaintextVecZnx<Vec<u8>> {
                    let rnx = self.encode_rnx(slots);
                    let mut znx = CKKSPlaintextVecZnx::alloc(self.p.n.into(), self.p.base2k.into(), meta(m));
                    rnx.to_znx(&mut znx).unwrap();
                    znx
                }

                pub fn decode_znx(&self, pt: &CKKSPlaintextVecZnx<Vec<u8>>) -> Result<Vec<C>, String> {
                    let mut rnx = CKKSPlaintextVecRnx::<F>::alloc(self.p.n).unwrap();
                    rnx.decode_from_znx(pt).map_err(|e| format!("decode_from_znx: {e}"))?;
                    let mm = self.m();
                    let mut re = vec![ff(0.0); mm];
                    let mut im = vec![ff(0.0); mm];
                    self.enc.decode_reim(&rnx, &mut re, &mut im).unwrap();
                    Ok(re.iter().zip(im.iter()).map(|(a, b)| (t64(*a), t64(*b))).collect())
                }

                /// Slot values after rounding the coefficients to 2^-d.
                pub fn quantize(&self, slots: &[C], d: usize) -> Vec<C> {
                    let b = (v_max(slots).max(1.0).log2().ceil() as usize) + 4;
                    let pt = self.encode_znx(slots, M { d, b });
                    self.decode_znx(&pt).unwrap()
                }

                pub fn qconst(c: f64, d: usize) -> f64 {
                    // exact for d <= 52 in f64; beyond that f64 cannot hold it anyway
                    if d > 52 {
                        return c;
                    }
                    (c * p2(d as i64)).round() / p2(d as i64)
                }

                pub fn rand_slots(&self, rng: &mut Rng, scale: f64) -> Vec<C> {
                    (0..self.m())
                        .map(|_| (rng.sym() * scale * 0.7, rng.sym() * scale * 0.7))
                        .collect()
                }

                pub fn alloc_ct(&self, k: usize) -> Ct {
                    let p = self.p;
                    CKKSCiphertext::alloc_from_infos(&GLWELayout {
                        n: p.n.into(),
                        base2k: p.base2k.into(),
                        k: k.into(),
                        rank: Rank(p.rank as u32),
                    })
                    .unwrap()
                }

                /// Destination buffer with garbage digits and garbage (but storable) metadata.
                pub fn alloc_dirty(&self, k: usize, rng: &mut Rng) -> Ct {
                    let mut ct = self.alloc_ct(k);
                    for x in ct.data_mut().raw_mut().iter_mut() {
                        *x = (rng.next() as i64) >> 3;
                    }
                    let mkk = mk(&ct);
                    let d = rng.range(0, mkk);
                    let b = rng.range(0, mkk - d);
                    ct.set_meta_checked(CKKSMeta {
                        log_delta: d,
                        log_budget: b,
                    })
                    .unwrap();
                    ct
                }

                pub fn clone_ct(&self, ct: &Ct) -> Ct {
                    let mut c = self.alloc_ct(mk(ct));
                    assert_eq!(c.size(), ct.size());
                    c.data_mut().raw_mut().copy_from_slice(ct.data().raw());
                    c.set_meta_checked(ct.meta()).unwrap();
                    c
                }

                pub fn encrypt(&self, slots: &[C], d: usize, pt_b: usize, ct_b: usize, ct_k: usize, sc: &mut ScratchOwned<BE>) -> Ct {
                    let p = self.p;
                    let pt = self.encode_znx(slots, M { d, b: pt_b });
                    let mut ct = self.alloc_ct(ct_k);
                    let mut xa = Source::new([3u8; 32]);
                    let mut xe = Source::new([4u8; 32]);
                    let enc = EncryptionLayout::new_from_default_sigma(GLWELayout {
                        n: self.p.n.into(),
                        base2k: self.p.base2k.into(),
                        k: (ct_b + d).into(),
                        rank: Rank(p.rank as u32),
                    })
                    .unwrap();
                    self.module
                        .ckks_encrypt_sk(&mut ct, &pt, &self.sk, &enc, &mut xa, &mut xe, sc.borrow())
                        .unwrap();
                    ct
                }


                /// Ciphertext with exactly the metadata (d, b) in a buffer of ct_k bits, whatever the alignment
                /// constraints of `ckks_encrypt_sk`: encrypt with more budget, then rescale into the target buffer.
                pub fn encrypt_at(&self, slots: &[C], d: usize, b: usize, ct_k: usize, sc: &mut ScratchOwned<BE>) -> Ct {
                    let p = self.p;
                    let pt_b = b + 1;
                    let b0 = (roundup(d + pt_b, p.base2k) - d).max(b) + 3;
                    let tmp = self.encrypt(slots, d, pt_b, b0, d + b0, sc);
                    let mut ct = self.alloc_ct(ct_k);
                    self.module.ckks_rescale_into(&mut ct, b0 - b, &tmp, sc.borrow()).unwrap();
                    assert_eq!(mof(&ct), M { d, b }, "encrypt_at");
                    ct
                }

                pub fn fresh(&self, rng: &mut Rng, sc: &mut ScratchOwned<BE>) -> Reg {
                    let p = self.p;
                    loop {
                        let d = rng.range(p.dmin, p.dmax);
                        let pt_b = rng.range(2, 6);
                        let pt_k = roundup(d + pt_b, p.base2k);
                        if pt_k > p.kmax {
                            continue;
                        }
                        let bmin = (pt_k - d).max(3);
                        let bmax = p.kmax - d;
                        if bmin > bmax {
                            continue;
                        }
                        let ct_b = if rng.coin(0.6) { rng.range(bmax.saturating_sub(p.base2k).max(bmin), bmax) } else { rng.range(bmin, bmax) };
                        let eff = ct_b + d;
                        let ct_k = if rng.coin(0.5) { eff } else { rng.range(eff, p.kmax) };
                        let scale = [1.0, 0.5, 0.125][rng.below(3)];
                        let raw = self.rand_slots(rng, scale);
                        let val = self.quantize(&raw, d);
                        let ct = self.encrypt(&raw, d, pt_b, ct_b, ct_k, sc);
                        assert_eq!(mof(&ct), M { d, b: ct_b }, "fresh metadata");
                        return Reg {
                            ct,
                            val,
                            err: p2(-(d as i64)) * 512.0,
                        };
                    }
                }

                pub fn decrypt_slots(&self, ct: &Ct, want_mag: f64, sc: &mut ScratchOwned<BE>) -> Result<Option<Vec<C>>, String> {
                    let m = mof(ct);
                    let d_out = m.d.min(maxprec());
                    let b_out = m.b.min(122usize.saturating_sub(d_out));
                    if want_mag * 1.02 >= p2(b_out as i64 - 1) {
                        return Ok(None);
                    }
                    let mut pt = CKKSPlaintextVecZnx::alloc(self.p.n.into(), self.p.base2k.into(), meta(M { d: d_out, b: b_out }));
                    // dirty output
                    for x in pt.data_mut().raw_mut().iter_mut() {
                        *x = 0x1234_5678_9abc;
                    }
                    self.module
                        .ckks_decrypt(&mut pt, ct, &self.sk, sc.borrow())
                        .map_err(|e| format!("ckks_decrypt failed: {e}"))?;
                    Ok(Some(self.decode_znx(&pt)?))
                }

                pub fn check_value(&self, label: &str, ct: &Ct, want: &[C], err: f64, sc: &mut ScratchOwned<BE>) -> Result<f64, String> {
                    let m = mof(ct);
                    if m.eff() > mk(ct) {
                        return Err(format!("{label}: metadata {m:?} exceeds storage max_k={}", mk(ct)));
                    }
                    let mag = v_max(want);
                    match self.decrypt_slots(ct, mag + err, sc)? {
                        None => Ok(-1.0),
                        Some(got) => {
                            let diff = v_maxdiff(&got, want);
                            let tol = 4.0 * err + p2(-40) * (1.0 + mag) + p2(-(m.d.min(maxprec()) as i64)) * self.p.n as f64;
                            if !(diff <= tol) {
                                return Err(format!(
                                    "{label}: value mismatch: max|got-want|={diff:e} > tol={tol:e} (err_est={err:e}, mag={mag}, meta={m:?}, max_k={}) got[0]={:?} want[0]={:?}",
                                    mk(ct),
                                    got[0],
                                    want[0]
                                ));
                            }
                            Ok(diff / err)
                        }
                    }
                }

                pub fn ks(&self, m: M) -> f64 {
                    p2(-(m.d as i64)) * p2(13)
                }

                pub fn fits(val: &[C], err: f64, m: M) -> bool {
                    v_max(val) * 1.05 + err < p2(m.b as i64 - 1)
                }

                /// Checks the outcome of one operation against the model.
                pub fn settle(
                    &self,
                    label: &str,
                    got: anyhow::Result<()>,
                    exp: Option<M>,
                    dst: Ct,
                    val: Vec<C>,
                    err: f64,
                    sc: &mut ScratchOwned<BE>,
                    stats: &mut Stats,
                ) -> Result<Option<Reg>, String> {
                    match (got, exp) {
                        (Ok(()), Some(m)) => {
                            if mof(&dst) != m {
                                return Err(format!("{label}: metadata {:?} != model {m:?} (max_k={})", mof(&dst), mk(&dst)));
                            }
                            let r = self.check_value(label, &dst, &val, err, sc)?;
                            stats.ok += 1;
                            if r > stats.worst_rel {
                                stats.worst_rel = r;
                                stats.worst_label = label.to_string();
                            }
                            Ok(Some(Reg { ct: dst, val, err }))
                        }
                        (Err(e), None) => {
                            stats.err += 1;
                            if e.downcast_ref::<CKKSCompositionError>().is_none() {
                                stats.untyped.push(format!("{label}: {e}"));
                            }
                            Ok(None)
                        }
                        (Ok(()), None) => Err(format!(
                            "{label}: returned Ok with metadata {:?} (max_k={}) where the model expects an error",
                            mof(&dst),
                            mk(&dst)
                        )),
                        (Err(e), Some(m)) => Err(format!("{label}: returned Err({e}) where the model expects Ok({m:?})")),
                    }
                }

                pub fn pick_k(&self, natural: usize, rng: &mut Rng) -> usize {
                    let p = self.p;
                    let k = match rng.below(8) {
                        0 | 1 => natural,
                        2 => natural.saturating_sub(rng.range(1, p.base2k + 3)),
                        3 => natural.saturating_sub(rng.range(1, 8)),
                        4 => natural + rng.range(1, 2 * p.base2k),
                        5 => p.kmax,
                        6 => natural.saturating_sub(rng.range(p.base2k, 3 * p.base2k)),
                        _ => roundup(natural, p.base2k) + p.base2k,
                    };
                    k.clamp(1, p.kmax)
                }

                pub fn rand_const(&self, rng: &mut Rng, d: usize) -> (Option<f64>, Option<f64>, C) {
                    let re = if rng.coin(0.8) { Some(Self::qconst(rng.sym() * 0.9, d)) } else { None };
                    let im = if rng.coin(0.6) { Some(Self::qconst(rng.sym() * 0.9, d)) } else { None };
                    let c = (re.unwrap_or(0.0), im.unwrap_or(0.0));
                    (re, im, c)
                }

                pub fn cst_rnx(re: Option<f64>, im: Option<f64>) -> CKKSPlaintextCstRnx<F> {
                    CKKSPlaintextCstRnx::new(re.map(ff), im.map(ff))
                }

                pub fn rand_pt_delta(&self, rng: &mut Rng) -> usize {
                    let p = self.p;
                    match rng.below(4) {
                        0 => rng.range(3, p.dmin),
                        _ => rng.range(p.dmin, p.dmax),
                    }
                }
            }

            #[derive(Default)]
            pub struct Stats {
                pub ok: usize,
                pub err: usize,
                pub skipped: usize,
                pub worst_rel: f64,
                pub worst_label: String,
                pub untyped: Vec<String>,
                pub per_op: HashMap<&'static str, (usize, usize)>,
            }

            pub const NOPS: usize = 68;

            /// One random step. Returns Err(description) on a violated expectation.
            pub fn step(ctx: &Ctx, pool: &mut Vec<Reg>, rng: &mut Rng, sc: &mut ScratchOwned<BE>, stats: &mut Stats, avoid_known: bool) -> Result<(), String> {
                let p = ctx.p;
                let md = &ctx.module;
                let ia = rng.below(pool.len());
                let ib = rng.below(pool.len());
                let ic = rng.below(pool.len());
                let op = rng.below(NOPS);
                let a = &pool[ia];
                let b = &pool[ib];
                let c = &pool[ic];
                let (ma, mb, mc) = (mof(&a.ct), mof(&b.ct), mof(&c.ct));
                let rots: Vec<i64> = ctx.rot.keys().copied().collect();

                // (opname, label, result, expectation, dst, model value, model error)
                let mut opname: &'static str = "";
                let out: Option<(String, anyhow::Result<()>, Option<M>, Ct, Vec<C>, f64)> = match op {
                    // ---------------- unary ----------------
                    0 => {
                        opname = "neg_into";
                        let k = ctx.pick_k(ma.eff(), rng);
                        let mut dst = ctx.alloc_dirty(k, rng);
                        let exp = e_unary(ma, mk(&dst));
                        let r = md.ckks_neg_into(&mut dst, &a.ct, sc.borrow());
                        Some((format!("neg_into a={ma:?}/k{} dstk={}", mk(&a.ct), mk(&dst)), r, exp, dst, v_neg(&a.val), a.err))
                    }
                    1 => {
                        opname = "neg_assign";
                        let mut dst = ctx.clone_ct(&a.ct);
                        let r = md.ckks_neg_assign(&mut dst);
                        Some((format!("neg_assign a={ma:?}"), r, Some(ma), dst, v_neg(&a.val), a.err))
                    }
                    2 | 3 => {
                        // rotation, with or without key
                        let have = rng.coin(0.85);
                        let r_idx = if have { rots[rng.below(rots.len())] } else { 1000 + rng.below(5) as i64 };
                        if op == 2 {
                            opname = "rotate_into";
                            let k = ctx.pick_k(ma.eff(), rng);
                            let mut dst = ctx.alloc_dirty(k, rng);
                            let exp = if have { e_unary(ma, mk(&dst)) } else { None };
                            let r = md.ckks_rotate_into(&mut dst, &a.ct, r_idx, &ctx.rot, sc.borrow());
                            let e = a.err + exp.map(|m| ctx.ks(m)).unwrap_or(0.0);
                            Some((format!("rotate_into r={r_idx} a={ma:?}/k{} dstk={}", mk(&a.ct), mk(&dst)), r, exp, dst, v_rot(&a.val, r_idx), e))
                        } else {
                            opname = "rotate_assign";
                            let mut dst = ctx.clone_ct(&a.ct);
                            let exp = if have { Some(ma) } else { None };
                            let r = md.ckks_rotate_assign(&mut dst, r_idx, &ctx.rot, sc.borrow());
                            Some((format!("rotate_assign r={r_idx} a={ma:?}/k{}", mk(&a.ct)), r, exp, dst, v_rot(&a.val, r_idx), a.err + ctx.ks(ma)))
                        }
                    }
                    4 => {
                        opname = "conjugate_into";
                        let k = ctx.pick_k(ma.eff(), rng);
                        let mut dst = ctx.alloc_dirty(k, rng);
                        let exp = e_unary(ma, mk(&dst));
                        let r = md.ckks_conjugate_into(&mut dst, &a.ct, &ctx.conj, sc.borrow());
                        let e = a.err + exp.map(|m| ctx.ks(m)).unwrap_or(0.0);
                        Some((format!("conjugate_into a={ma:?}/k{} dstk={}", mk(&a.ct), mk(&dst)), r, exp, dst, v_conj(&a.val), e))
                    }
                    5 => {
                        opname = "conjugate_assign";
                        let mut dst = ctx.clone_ct(&a.ct);
                        let r = md.ckks_conjugate_assign(&mut dst, &ctx.conj, sc.borrow());
                        Some((format!("conjugate_assign a={ma:?}/k{}", mk(&a.ct)), r, Some(ma), dst, v_conj(&a.val), a.err + ctx.ks(ma)))
                    }
                    6 => {
                        opname = "mul_pow2_into";
                        let bits = rng.range(0, 6);
                        let k = ctx.pick_k(ma.eff(), rng);
                        let mut dst = ctx.alloc_dirty(k, rng);
                        let exp = e_unary(ma, mk(&dst));
                        let val = v_scale(&a.val, p2(bits as i64));
                        let e = a.err * p2(bits as i64);
                        if let Some(m) = exp {
                            if !Ctx::fits(&val, e, m) {
                                stats.skipped += 1;
                                return Ok(());
                            }
                        }
                        let r = md.ckks_mul_pow2_into(&mut dst, &a.ct, bits, sc.borrow());
                        Some((format!("mul_pow2_into bits={bits} a={ma:?}/k{} dstk={}", mk(&a.ct), mk(&dst)), r, exp, dst, val, e))
                    }
                    7 => {
                        opname = "mul_pow2_assign";
                        let bits = rng.range(0, 6);
                        let val = v_scale(&a.val, p2(bits as i64));
                        let e = a.err * p2(bits as i64);
                        if !Ctx::fits(&val, e, ma) {
                            stats.skipped += 1;
                            return Ok(());
                        }
                        let mut dst = ctx.clone_ct(&a.ct);
                        let r = md.ckks_mul_pow2_assign(&mut dst, bits, sc.borrow());
                        Some((format!("mul_pow2_assign bits={bits} a={ma:?}"), r, Some(ma), dst, val, e))
                    }
                    8 => {
                        opname = "div_pow2_into";
                        let bits = rng.range(0, 12);
                        let k = ctx.pick_k(ma.eff(), rng);
                        let mut dst = ctx.alloc_dirty(k, rng);
                        let exp = e_div_pow2_into(ma, bits, mk(&dst));
                        let r = md.ckks_div_pow2_into(&mut dst, &a.ct, bits, sc.borrow());
                        Some((
                            format!("div_pow2_into bits={bits} a={ma:?}/k{} dstk={}", mk(&a.ct), mk(&dst)),
                            r,
                            exp,
                            dst,
                            v_scale(&a.val, p2(-(bits as i64))),
                            a.err * p2(-(bits as i64)),
                        ))
                    }
                    9 => {
                        opname = "div_pow2_assign";
                        let bits = rng.range(0, 12);
                        let mut dst = ctx.clone_ct(&a.ct);
                        let exp = ma.b.checked_sub(bits).map(|bb| M { d: ma.d, b: bb });
                        let r = md.ckks_div_pow2_assign(&mut dst, bits);
                        Some((
                            format!("div_pow2_assign bits={bits} a={ma:?}"),
                            r,
                            exp,
                            dst,
                            v_scale(&a.val, p2(-(bits as i64))),
                            a.err * p2(-(bits as i64)),
                        ))
                    }
                    10 => {
                        opname = "rescale_into";
                        let by = if rng.coin(0.1) { ma.b + rng.range(0, 3) } else { rng.range(0, ma.b.min(p.base2k + 5)) };
                        let k = ctx.pick_k(ma.eff().saturating_sub(by), rng);
                        let mut dst = ctx.alloc_dirty(k, rng);
                        let exp = e_rescale_into(ma, by, mk(&dst));
                        if let Some(m) = exp {
                            if !Ctx::fits(&a.val, a.err, m) {
                                stats.skipped += 1;
                                return Ok(());
                            }
                        }
                        let r = md.ckks_rescale_into(&mut dst, by, &a.ct, sc.borrow());
                        Some((format!("rescale_into by={by} a={ma:?}/k{} dstk={}", mk(&a.ct), mk(&dst)), r, exp, dst, a.val.clone(), a.err))
                    }
                    11 => {
                        opname = "rescale_assign";
                        let by = if rng.coin(0.1) { ma.b + rng.range(1, 3) } else { rng.range(0, ma.b.min(p.base2k + 5)) };
                        let exp = ma.b.checked_sub(by).map(|bb| M { d: ma.d, b: bb });
                        if let Some(m) = exp {
                            if !Ctx::fits(&a.val, a.err, m) {
                                stats.skipped += 1;
                                return Ok(());
                            }
                        }
                        let mut dst = ctx.clone_ct(&a.ct);
                        let r = md.ckks_rescale_assign(&mut dst, by, sc.borrow());
                        Some((format!("rescale_assign by={by} a={ma:?}"), r, exp, dst, a.val.clone(), a.err))
                    }
                    12 => {
                        opname = "compact_limbs";
                        let mut dst = ctx.clone_ct(&a.ct);
                        let r = md.ckks_compact_limbs(&mut dst);
                        if r.is_ok() && dst.size() != ma.eff().div_ceil(p.base2k) {
                            return Err(format!("compact_limbs a={ma:?}: size {} != {}", dst.size(), ma.eff().div_ceil(p.base2k)));
                        }
                        Some((format!("compact_limbs a={ma:?}/k{}", mk(&a.ct)), r, Some(ma), dst, a.val.clone(), a.err))
                    }
                    13 => {
                        opname = "compact_limbs_copy";
                        if p.rank != 1 && avoid_known {
                            // known: the copy is always allocated with rank 1 (see t10)
                            return Ok(());
                        }
                        match md.ckks_compact_limbs_copy(&a.ct) {
                            Ok(dst) => {
                                if dst.size() != ma.eff().div_ceil(p.base2k) {
                                    return Err(format!("compact_limbs_copy a={ma:?}: size {} != {}", dst.size(), ma.eff().div_ceil(p.base2k)));
                                }
                                Some((format!("compact_limbs_copy a={ma:?}/k{}", mk(&a.ct)), Ok(()), Some(ma), dst, a.val.clone(), a.err))
                            }
                            Err(e) => return Err(format!("compact_limbs_copy a={ma:?} failed: {e}")),
                        }
                    }
                    14 => {
                        opname = "reallocate_limbs";
                        let need = ma.eff().div_ceil(p.base2k);
                        let size = rng.range(need.saturating_sub(1).max(1), need + 2);
                        let mut dst = ctx.clone_ct(&a.ct);
                        let exp = if size >= need { Some(ma) } else { None };
                        let r = md.ckks_reallocate_limbs_checked(&mut dst, size);
                        if r.is_ok() && dst.size() != size {
                            return Err(format!("reallocate_limbs a={ma:?}: size {} != {size}", dst.size()));
                        }
                        Some((format!("reallocate_limbs size={size} a={ma:?}/k{}", mk(&a.ct)), r, exp, dst, a.val.clone(), a.err))
                    }
                    // ---------------- ct (+/-/*) ct ----------------
                    15 | 16 | 17 | 18 => {
                        let sub = op == 16 || op == 18;
                        let unsafe_form = op >= 17;
                        opname = match op {
                            15 => "add_into",
                            16 => "sub_into",
                            17 => "add_into_unsafe",
                            _ => "sub_into_unsafe",
                        };
                        let nat = ma.d.min(mb.d) + ma.b.min(mb.b);
                        let k = ctx.pick_k(if rng.coin(0.5) { nat } else { ma.eff().min(mb.eff()) }, rng);
                        let mut dst = ctx.alloc_dirty(k, rng);
                        let exp = e_addsub_into(ma, mb, mk(&dst));
                        let val = if sub { v_sub(&a.val, &b.val) } else { v_add(&a.val, &b.val) };
                        let e = a.err + b.err;
                        if let Some(m) = exp {
                            if !Ctx::fits(&val, e, m) {
                                stats.skipped += 1;
                                return Ok(());
                            }
                        }
                        let r = match (sub, unsafe_form) {
                            (false, false) => md.ckks_add_into(&mut dst, &a.ct, &b.ct, sc.borrow()),
                            (true, false) => md.ckks_sub_into(&mut dst, &a.ct, &b.ct, sc.borrow()),
                            (false, true) => {
                                let r = unsafe { md.ckks_add_into_unsafe(&mut dst, &a.ct, &b.ct, sc.borrow()) };
                                md.glwe_normalize_assign(&mut dst, sc.borrow());
                                r
                            }
                            (true, true) => {
                                let r = unsafe { md.ckks_sub_into_unsafe(&mut dst, &a.ct, &b.ct, sc.borrow()) };
                                md.glwe_normalize_assign(&mut dst, sc.borrow());
                                r
                            }
                        };
                        Some((
                            format!("{opname} a={ma:?}/k{} b={mb:?}/k{} dstk={}", mk(&a.ct), mk(&b.ct), mk(&dst)),
                            r,
                            exp,
                            dst,
                            val,
                            e,
                        ))
                    }
                    19 | 20 => {
                        let sub = op == 20;
                        opname = if sub { "sub_assign" } else { "add_assign" };
                        let exp = e_addsub_assign(ma, mb);
                        let val = if sub { v_sub(&a.val, &b.val) } else { v_add(&a.val, &b.val) };
                        let e = a.err + b.err;
                        if !Ctx::fits(&val, e, exp) {
                            stats.skipped += 1;
                            return Ok(());
                        }
                        let mut dst = ctx.clone_ct(&a.ct);
                        let r = if sub { md.ckks_sub_assign(&mut dst, &b.ct, sc.borrow()) } else { md.ckks_add_assign(&mut dst, &b.ct, sc.borrow()) };
                        Some((format!("{opname} dst={ma:?}/k{} b={mb:?}/k{}", mk(&a.ct), mk(&b.ct)), r, Some(exp), dst, val, e))
                    }
                    21 | 22 | 23 | 24 => {
                        // mul_into, mul_assign, square_into, square_assign
                        let square = op >= 23;
                        let assign = op == 22 || op == 24;
                        opname = match op {
                            21 => "mul_into",
                            22 => "mul_assign",
                            23 => "square_into",
                            _ => "square_assign",
                        };
                        let (x, mx) = if square { (a, ma) } else { (b, mb) };
                        let nat = e_mul_ct(ma, mx, usize::MAX).map(|m| m.eff()).unwrap_or(ma.eff().min(mx.eff()));
                        let mut dst = if assign { ctx.clone_ct(&a.ct) } else { let k = ctx.pick_k(nat, rng); ctx.alloc_dirty(k, rng) };
                        let exp = e_mul_ct(ma, mx, mk(&dst));
                        let val = v_mul(&a.val, &x.val);
                        let e = v_max(&a.val) * x.err + v_max(&x.val) * a.err + a.err * x.err + exp.map(|m| ctx.ks(m)).unwrap_or(0.0);
                        if let Some(m) = exp {
                            if !Ctx::fits(&val, e, m) {
                                stats.skipped += 1;
                                return Ok(());
                            }
                        }
                        let r = match op {
                            21 => md.ckks_mul_into(&mut dst, &a.ct, &b.ct, &ctx.tsk, sc.borrow()),
                            22 => md.ckks_mul_assign(&mut dst, &b.ct, &ctx.tsk, sc.borrow()),
                            23 => md.ckks_square_into(&mut dst, &a.ct, &ctx.tsk, sc.borrow()),
                            _ => md.ckks_square_assign(&mut dst, &ctx.tsk, sc.borrow()),
                        };
                        Some((
                            format!("{opname} a={ma:?}/k{} b={mx:?}/k{} dstk={}", mk(&a.ct), mk(&x.ct), mk(&dst)),
                            r,
                            exp,
                            dst,
                            val,
                            e,
                        ))
                    }
                    25 => {
                        opname = "align_assign";
                        let mut x = ctx.clone_ct(&a.ct);
                        let mut y = ctx.clone_ct(&b.ct);
                        let bb = ma.b.min(mb.b);
                        let (ex, ey) = (M { d: ma.d, b: bb }, M { d: mb.d, b: bb });
                        if !Ctx::fits(&a.val, a.err, ex) || !Ctx::fits(&b.val, b.err, ey) {
                            stats.skipped += 1;
                            return Ok(());
                        }
                        let r = md.ckks_align_assign(&mut x, &mut y, sc.borrow());
                        if let Err(e) = &r {
                            return Err(format!("align_assign a={ma:?} b={mb:?} failed: {e}"));
                        }
                        // check the second one here, the first one through settle
                        if mof(&y) != ey {
                            return Err(format!("align_assign a={ma:?} b={mb:?}: second operand metadata {:?} != {ey:?}", mof(&y)));
                        }
                        ctx.check_value(&format!("align_assign(second) a={ma:?} b={mb:?}"), &y, &b.val, b.err, sc)?;
                        Some((format!("align_assign(first) a={ma:?} b={mb:?}"), r, Some(ex), x, a.val.clone(), a.err))
                    }
                    // ---------------- ct (+/-) plaintext ----------------
                    26..=33 => {
                        // add/sub x vec znx/rnx x into/assign
                        let sub = (op - 26) & 1 == 1;
                        let rnx = (op - 26) & 2 == 2;
                        let assign = (op - 26) & 4 == 4;
                        opname = match (sub, rnx, assign) {
                            (false, false, false) => "add_pt_vec_znx_into",
                            (true, false, false) => "sub_pt_vec_znx_into",
                            (false, true, false) => "add_pt_vec_rnx_into",
                            (true, true, false) => "sub_pt_vec_rnx_into",
                            (false, false, true) => "add_pt_vec_znx_assign",
                            (true, false, true) => "sub_pt_vec_znx_assign",
                            (false, true, true) => "add_pt_vec_rnx_assign",
                            (true, true, true) => "sub_pt_vec_rnx_assign",
                        };
                        let d_pt = ctx.rand_pt_delta(rng).min(maxprec());
                        let pt_b = if rng.coin(0.3) { rng.range(2, ma.b.max(2).min(3 * p.base2k)) } else { rng.range(2, 5) };
                        let mpt = M { d: d_pt, b: pt_b };
                        let pt_k = roundup(mpt.eff(), p.base2k);
                        let raw = ctx.rand_slots(rng, 1.0);
                        let ptv = ctx.quantize(&raw, d_pt);
                        let mut dst = if assign { ctx.clone_ct(&a.ct) } else { let k = ctx.pick_k(ma.eff(), rng); ctx.alloc_dirty(k, rng) };
                        let after = if assign { Some(ma) } else { e_unary(ma, mk(&dst)) };
                        let exp = after.and_then(|m| e_add_pt_vec(m, d_pt, pt_k));
                        let val = if sub { v_sub(&a.val, &ptv) } else { v_add(&a.val, &ptv) };
                        let e = a.err + p2(-(d_pt as i64)) * 64.0;
                        if let Some(m) = exp {
                            if !Ctx::fits(&val, e, m) {
                                stats.skipped += 1;
                                return Ok(());
                            }
                        }
                        let pt_rnx = ctx.encode_rnx(&raw);
                        let pt_znx = ctx.encode_znx(&raw, mpt);
                        let s = sc.borrow();
                        let r = match (sub, rnx, assign) {
                            (false, false, false) => md.ckks_add_pt_vec_znx_into(&mut dst, &a.ct, &pt_znx, s),
                            (true, false, false) => md.ckks_sub_pt_vec_znx_into(&mut dst, &a.ct, &pt_znx, s),
                            (false, true, false) => md.ckks_add_pt_vec_rnx_into(&mut dst, &a.ct, &pt_rnx, meta(mpt), s),
                            (true, true, false) => md.ckks_sub_pt_vec_rnx_into(&mut dst, &a.ct, &pt_rnx, meta(mpt), s),
                            (false, false, true) => md.ckks_add_pt_vec_znx_assign(&mut dst, &pt_znx, s),
                            (true, false, true) => md.ckks_sub_pt_vec_znx_assign(&mut dst, &pt_znx, s),
                            (false, true, true) => md.ckks_add_pt_vec_rnx_assign(&mut dst, &pt_rnx, meta(mpt), s),
                            (true, true, true) => md.ckks_sub_pt_vec_rnx_assign(&mut dst, &pt_rnx, meta(mpt), s),
                        };
                        Some((format!("{opname} a={ma:?}/k{} pt={mpt:?} dstk={}", mk(&a.ct), mk(&dst)), r, exp, dst, val, e))
                    }
                    34..=41 => {
                        // add/sub x const znx/rnx x into/assign
                        let sub = (op - 34) & 1 == 1;
                        let rnx = (op - 34) & 2 == 2;
                        let assign = (op - 34) & 4 == 4;
                        opname = match (sub, rnx, assign) {
                            (false, false, false) => "add_pt_const_znx_into",
                            (true, false, false) => "sub_pt_const_znx_into",
                            (false, true, false) => "add_pt_const_rnx_into",
                            (true, true, false) => "sub_pt_const_rnx_into",
                            (false, false, true) => "add_pt_const_znx_assign",
                            (true, false, true) => "sub_pt_const_znx_assign",
                            (false, true, true) => "add_pt_const_rnx_assign",
                            (true, true, true) => "sub_pt_const_rnx_assign",
                        };
                        let d_c = ctx.rand_pt_delta(rng).min(maxprec());
                        let (re, im, cc) = ctx.rand_const(rng, d_c);
                        let none = re.is_none() && im.is_none();
                        let mut dst = if assign { ctx.clone_ct(&a.ct) } else { let k = ctx.pick_k(ma.eff(), rng); ctx.alloc_dirty(k, rng) };
                        let after = if assign { Some(ma) } else { e_unary(ma, mk(&dst)) };
                        let mut exp = after;
                        let val = if sub { v_subc(&a.val, cc) } else { v_addc(&a.val, cc) };
                        let e = a.err + p2(-(d_c.min(52) as i64)) * 4.0;
                        if let Some(m) = exp {
                            if !Ctx::fits(&val, e, m) {
                                stats.skipped += 1;
                                return Ok(());
                            }
                            if avoid_known && !none && m.b + d_c > mk(&dst) {
                                // known: constant digits beyond the destination limbs
                                stats.skipped += 1;
                                return Ok(());
                            }
                        }
                        let crnx = Ctx::cst_rnx(re, im);
                        // the ZNX constant has to be encoded at the destination's budget
                        let mut mis = 0i64;
                        let cznx = match after {
                            Some(m) => {
                                if !rnx && !none && rng.coin(0.15) {
                                    mis = if rng.coin(0.5) || m.b == 0 { 1 } else { -1 };
                                    exp = None;
                                }
                                crnx.to_znx_at_k(p.base2k.into(), ((m.b + d_c) as i64 + mis) as usize, d_c).unwrap()
                            }
                            None => crnx.to_znx_at_k(p.base2k.into(), ma.b + d_c, d_c).unwrap(),
                        };
                        let prec = meta(M { d: d_c, b: rng.range(0, 4) });
                        let s = sc.borrow();
                        let r = match (sub, rnx, assign) {
                            (false, false, false) => md.ckks_add_pt_const_znx_into(&mut dst, &a.ct, &cznx, s),
                            (true, false, false) => md.ckks_sub_pt_const_znx_into(&mut dst, &a.ct, &cznx, s),
                            (false, true, false) => md.ckks_add_pt_const_rnx_into(&mut dst, &a.ct, &crnx, prec, s),
                            (true, true, false) => md.ckks_sub_pt_const_rnx_into(&mut dst, &a.ct, &crnx, prec, s),
                            (false, false, true) => md.ckks_add_pt_const_znx_assign(&mut dst, &cznx, s),
                            (true, false, true) => md.ckks_sub_pt_const_znx_assign(&mut dst, &cznx, s),
                            (false, true, true) => md.ckks_add_pt_const_rnx_assign(&mut dst, &crnx, prec, s),
                            (true, true, true) => md.ckks_sub_pt_const_rnx_assign(&mut dst, &crnx, prec, s),
                        };
                        Some((
                            format!("{opname} a={ma:?}/k{} c=({re:?},{im:?}) d_c={d_c} mis={mis} dstk={}", mk(&a.ct), mk(&dst)),
                            r,
                            exp,
                            dst,
                            val,
                            e,
                        ))
                    }
                    // ---------------- ct * plaintext ----------------
                    42..=45 => {
                        let rnx = (op - 42) & 1 == 1;
                        let assign = (op - 42) & 2 == 2;
                        opname = match (rnx, assign) {
                            (false, false) => "mul_pt_vec_znx_into",
                            (true, false) => "mul_pt_vec_rnx_into",
                            (false, true) => "mul_pt_vec_znx_assign",
                            (true, true) => "mul_pt_vec_rnx_assign",
                        };
                        let d_pt = ctx.rand_pt_delta(rng).min(maxprec());
                        let pt_b = if rng.coin(0.3) { rng.range(2, 3 * p.base2k) } else { rng.range(2, 5) };
                        let mpt = M { d: d_pt, b: pt_b };
                        let raw = ctx.rand_slots(rng, 1.0);
                        let ptv = ctx.quantize(&raw, d_pt);
                        let nat = e_mul_pt(ma, d_pt, usize::MAX).map(|m| m.eff()).unwrap_or(ma.eff());
                        let mut dst = if assign { ctx.clone_ct(&a.ct) } else { let k = ctx.pick_k(nat, rng); ctx.alloc_dirty(k, rng) };
                        let exp = e_mul_pt(ma, d_pt, mk(&dst));
                        let val = v_mul(&a.val, &ptv);
                        let e = a.err * v_max(&ptv) + exp.map(|m| ctx.ks(m)).unwrap_or(0.0);
                        if let Some(m) = exp {
                            if !Ctx::fits(&val, e, m) {
                                stats.skipped += 1;
                                return Ok(());
                            }
                        }
                        let pt_rnx = ctx.encode_rnx(&raw);
                        let pt_znx = ctx.encode_znx(&raw, mpt);
                        let s = sc.borrow();
                        let r = match (rnx, assign) {
                            (false, false) => md.ckks_mul_pt_vec_znx_into(&mut dst, &a.ct, &pt_znx, s),
                            (true, false) => md.ckks_mul_pt_vec_rnx_into(&mut dst, &a.ct, &pt_rnx, meta(mpt), s),
                            (false, true) => md.ckks_mul_pt_vec_znx_assign(&mut dst, &pt_znx, s),
                            (true, true) => md.ckks_mul_pt_vec_rnx_assign(&mut dst, &pt_rnx, meta(mpt), s),
                        };
                        Some((format!("{opname} a={ma:?}/k{} pt={mpt:?} dstk={}", mk(&a.ct), mk(&dst)), r, exp, dst, val, e))
                    }
                    46..=49 => {
                        let rnx = (op - 46) & 1 == 1;
                        let assign = (op - 46) & 2 == 2;
                        opname = match (rnx, assign) {
                            (false, false) => "mul_pt_const_znx_into",
                            (true, false) => "mul_pt_const_rnx_into",
                            (false, true) => "mul_pt_const_znx_assign",
                            (true, true) => "mul_pt_const_rnx_assign",
                        };
                        let d_c = ctx.rand_pt_delta(rng).min(maxprec());
                        let (re, im, cc) = ctx.rand_const(rng, d_c);
                        let prec = M { d: d_c, b: rng.range(2, 5) };
                        let nat = e_mul_pt(ma, d_c, usize::MAX).map(|m| m.eff()).unwrap_or(ma.eff());
                        let mut dst = if assign { ctx.clone_ct(&a.ct) } else { let k = ctx.pick_k(nat, rng); ctx.alloc_dirty(k, rng) };
                        let exp = e_mul_pt(ma, d_c, mk(&dst));
                        let val = v_mulc(&a.val, cc);
                        let e = a.err * 2.0 + exp.map(|m| ctx.ks(m)).unwrap_or(0.0);
                        if let Some(m) = exp {
                            if !Ctx::fits(&val, e, m) {
                                stats.skipped += 1;
                                return Ok(());
                            }
                        }
                        let crnx = Ctx::cst_rnx(re, im);
                        // natural encoding, or an encoding at a precision that is not a multiple of base2k
                        let odd = rng.coin(0.3);
                        let cznx = if odd {
                            crnx.to_znx_at_k(p.base2k.into(), d_c + rng.range(2, p.base2k + 3), d_c).unwrap()
                        } else {
                            crnx.to_znx(p.base2k.into(), meta(prec)).unwrap()
                        };
                        let s = sc.borrow();
                        let r = match (rnx, assign) {
                            (false, false) => md.ckks_mul_pt_const_znx_into(&mut dst, &a.ct, &cznx, s),
                            (true, false) => md.ckks_mul_pt_const_rnx_into(&mut dst, &a.ct, &crnx, meta(prec), s),
                            (false, true) => md.ckks_mul_pt_const_znx_assign(&mut dst, &cznx, s),
                            (true, true) => md.ckks_mul_pt_const_rnx_assign(&mut dst, &crnx, meta(prec), s),
                        };
                        Some((
                            format!("{opname} a={ma:?}/k{} c=({re:?},{im:?}) prec={prec:?} cznx={:?} dstk={}", mk(&a.ct), mof(&cznx), mk(&dst)),
                            r,
                            exp,
                            dst,
                            val,
                            e,
                        ))
                    }
                    // ---------------- fused multiply-add / multiply-sub ----------------
                    50 | 51 => {
                        let sub = op == 51;
                        opname = if sub { "mul_sub_ct_into" } else { "mul_add_ct_into" };
                        // dst = c (+/-) a*b
                        let mut dst = ctx.clone_ct(&c.ct);
                        let prod = e_mul_ct(ma, mb, mk(&dst));
                        let exp = prod.map(|pm| e_addsub_assign(mc, pm));
                        let pv = v_mul(&a.val, &b.val);
                        let val = if sub { v_sub(&c.val, &pv) } else { v_add(&c.val, &pv) };
                        let e = c.err + v_max(&a.val) * b.err + v_max(&b.val) * a.err + a.err * b.err + prod.map(|m| ctx.ks(m)).unwrap_or(0.0);
                        if let Some(m) = exp {
                            if !Ctx::fits(&val, e, m) {
                                stats.skipped += 1;
                                return Ok(());
                            }
                        }
                        let r = if sub {
                            md.ckks_mul_sub_ct_into(&mut dst, &a.ct, &b.ct, &ctx.tsk, sc.borrow())
                        } else {
                            md.ckks_mul_add_ct_into(&mut dst, &a.ct, &b.ct, &ctx.tsk, sc.borrow())
                        };
                        Some((
                            format!("{opname} dst={mc:?}/k{} a={ma:?}/k{} b={mb:?}/k{}", mk(&c.ct), mk(&a.ct), mk(&b.ct)),
                            r,
                            exp,
                            dst,
                            val,
                            e,
                        ))
                    }
                    52..=55 => {
                        // mul_add / mul_sub with vec pt znx / rnx
                        let sub = (op - 52) & 1 == 1;
                        let rnx = (op - 52) & 2 == 2;
                        opname = match (sub, rnx) {
                            (false, false) => "mul_add_pt_vec_znx_into",
                            (true, false) => "mul_sub_pt_vec_znx_into",
                            (false, true) => "mul_add_pt_vec_rnx_into",
                            (true, true) => "mul_sub_pt_vec_rnx_into",
                        };
                        let d_pt = ctx.rand_pt_delta(rng).min(maxprec());
                        let mpt = M { d: d_pt, b: rng.range(2, 5) };
                        let raw = ctx.rand_slots(rng, 1.0);
                        let ptv = ctx.quantize(&raw, d_pt);
                        let mut dst = ctx.clone_ct(&c.ct);
                        let prod = e_mul_pt(ma, d_pt, mk(&dst));
                        let exp = prod.map(|pm| e_addsub_assign(mc, pm));
                        let pv = v_mul(&a.val, &ptv);
                        let val = if sub { v_sub(&c.val, &pv) } else { v_add(&c.val, &pv) };
                        let e = c.err + a.err * v_max(&ptv) + prod.map(|m| ctx.ks(m)).unwrap_or(0.0);
                        if let Some(m) = exp {
                            if !Ctx::fits(&val, e, m) {
                                stats.skipped += 1;
                                return Ok(());
                            }
                        }
                        let pt_rnx = ctx.encode_rnx(&raw);
                        let pt_znx = ctx.encode_znx(&raw, mpt);
                        let s = sc.borrow();
                        let r = match (sub, rnx) {
                            (false, false) => md.ckks_mul_add_pt_vec_znx_into(&mut dst, &a.ct, &pt_znx, s),
                            (true, false) => md.ckks_mul_sub_pt_vec_znx_into(&mut dst, &a.ct, &pt_znx, s),
                            (false, true) => md.ckks_mul_add_pt_vec_rnx_into(&mut dst, &a.ct, &pt_rnx, meta(mpt), s),
                            (true, true) => md.ckks_mul_sub_pt_vec_rnx_into(&mut dst, &a.ct, &pt_rnx, meta(mpt), s),
                        };
                        Some((format!("{opname} dst={mc:?}/k{} a={ma:?}/k{} pt={mpt:?}", mk(&c.ct), mk(&a.ct)), r, exp, dst, val, e))
                    }
                    56..=59 => {
                        let sub = (op - 56) & 1 == 1;
                        let rnx = (op - 56) & 2 == 2;
                        opname = match (sub, rnx) {
                            (false, false) => "mul_add_pt_const_znx_into",
                            (true, false) => "mul_sub_pt_const_znx_into",
                            (false, true) => "mul_add_pt_const_rnx_into",
                            (true, true) => "mul_sub_pt_const_rnx_into",
                        };
                        let d_c = ctx.rand_pt_delta(rng).min(maxprec());
                        let (re, im, cc) = ctx.rand_const(rng, d_c);
                        let none = re.is_none() && im.is_none();
                        let prec = M { d: d_c, b: rng.range(2, 5) };
                        let mut dst = ctx.clone_ct(&c.ct);
                        let prod = e_mul_pt(ma, d_c, mk(&dst));
                        // an absent constant leaves dst untouched
                        let exp = if none { Some(mc) } else { prod.map(|pm| e_addsub_assign(mc, pm)) };
                        let pv = v_mulc(&a.val, cc);
                        let val = if sub { v_sub(&c.val, &pv) } else { v_add(&c.val, &pv) };
                        let e = c.err + a.err * 2.0 + prod.map(|m| ctx.ks(m)).unwrap_or(0.0);
                        if let Some(m) = exp {
                            if !Ctx::fits(&val, e, m) {
                                stats.skipped += 1;
                                return Ok(());
                            }
                        }
                        let crnx = Ctx::cst_rnx(re, im);
                        let cznx = crnx.to_znx(p.base2k.into(), meta(prec)).unwrap();
                        let s = sc.borrow();
                        let r = match (sub, rnx) {
                            (false, false) => md.ckks_mul_add_pt_const_znx_into(&mut dst, &a.ct, &cznx, s),
                            (true, false) => md.ckks_mul_sub_pt_const_znx_into(&mut dst, &a.ct, &cznx, s),
                            (false, true) => md.ckks_mul_add_pt_const_rnx_into(&mut dst, &a.ct, &crnx, meta(prec), s),
                            (true, true) => md.ckks_mul_sub_pt_const_rnx_into(&mut dst, &a.ct, &crnx, meta(prec), s),
                        };
                        Some((
                            format!("{opname} dst={mc:?}/k{} a={ma:?}/k{} c=({re:?},{im:?}) prec={prec:?}", mk(&c.ct), mk(&a.ct)),
                            r,
                            exp,
                            dst,
                            val,
                            e,
                        ))
                    }
                    60 => {
                        opname = "add_many";
                        let cnt = rng.range(1, 5);
                        let idx: Vec<usize> = (0..cnt).map(|_| rng.below(pool.len())).collect();
                        let ins: Vec<&Ct> = idx.iter().map(|&i| &pool[i].ct).collect();
                        let ms: Vec<M> = idx.iter().map(|&i| mof(&pool[i].ct)).collect();
                        let nat = ms.iter().map(|m| m.d).min().unwrap() + ms.iter().map(|m| m.b).min().unwrap();
                        let k = ctx.pick_k(nat, rng);
                        let mut dst = ctx.alloc_dirty(k, rng);
                        let exp = if cnt == 1 {
                            e_unary(ms[0], mk(&dst))
                        } else {
                            let mut acc = e_addsub_into(ms[0], ms[1], mk(&dst));
                            for m in &ms[2..] {
                                acc = acc.map(|x| e_addsub_assign(x, *m));
                            }
                            acc
                        };
                        let mut val = pool[idx[0]].val.clone();
                        let mut e = pool[idx[0]].err;
                        for &i in &idx[1..] {
                            val = v_add(&val, &pool[i].val);
                            e += pool[i].err;
                        }
                        if let Some(m) = exp {
                            if !Ctx::fits(&val, e, m) {
                                stats.skipped += 1;
                                return Ok(());
                            }
                        }
                        let r = md.ckks_add_many(&mut dst, &ins, sc.borrow());
                        Some((format!("add_many ins={ms:?} dstk={}", mk(&dst)), r, exp, dst, val, e))
                    }
                    61 => {
                        opname = "mul_many";
                        // same log_delta is required: build the inputs from one register at different budgets
                        let cnt = rng.range(1, 5);
                        let mut owned: Vec<Ct> = Vec::new();
                        let mut ms: Vec<M> = Vec::new();
                        for _ in 0..cnt {
                            let mut x = ctx.clone_ct(&a.ct);
                            if rng.coin(0.5) {
                                let by = rng.range(0, 7).min(ma.b);
                                if Ctx::fits(&a.val, a.err, M { d: ma.d, b: ma.b - by }) {
                                    md.ckks_rescale_assign(&mut x, by, sc.borrow()).unwrap();
                                }
                            }
                            ms.push(mof(&x));
                            owned.push(x);
                        }
                        let ins: Vec<&Ct> = owned.iter().collect();
                        let nat = e_mul_many(&ms, usize::MAX, p.base2k).map(|m| m.eff()).unwrap_or(ma.eff());
                        let k = ctx.pick_k(nat, rng);
                        let mut dst = ctx.alloc_dirty(k, rng);
                        let exp = e_mul_many(&ms, mk(&dst), p.base2k);
                        let mut val = a.val.clone();
                        let mut e = a.err;
                        let mag = v_max(&a.val).max(1.0);
                        for _ in 1..cnt {
                            val = v_mul(&val, &a.val);
                            e = e * mag + a.err * mag.powi(cnt as i32) + ctx.ks(M { d: ma.d, b: 0 }) * mag;
                        }
                        if let Some(m) = exp {
                            if !Ctx::fits(&val, e, m) {
                                stats.skipped += 1;
                                return Ok(());
                            }
                        }
                        let r = md.ckks_mul_many(&mut dst, &ins, &ctx.tsk, sc.borrow());
                        Some((format!("mul_many ins={ms:?} dstk={}", mk(&dst)), r, exp, dst, val, e * 2.0))
                    }

                    62 => {
                        opname = "dot_product_ct";
                        let cnt = rng.range(1, 4);
                        let derived = rng.coin(0.6);
                        let mut av: Vec<Ct> = Vec::new();
                        let mut bv: Vec<Ct> = Vec::new();
                        let mut val: Vec<C> = vec![(0.0, 0.0); ctx.m()];
                        let mut e = 0.0;
                        for t in 0..cnt {
                            let (ra, rb) = if derived { (ia, ib) } else { (rng.below(pool.len()), rng.below(pool.len())) };
                            let mut x = ctx.clone_ct(&pool[ra].ct);
                            let mut y = ctx.clone_ct(&pool[rb].ct);
                            if derived {
                                for (z, r) in [(&mut x, ra), (&mut y, rb)] {
                                    if rng.coin(0.6) {
                                        let mz = mof(&*z);
                                        let by = rng.range(0, 9).min(mz.b);
                                        if Ctx::fits(&pool[r].val, pool[r].err, M { d: mz.d, b: mz.b - by }) {
                                            md.ckks_rescale_assign(z, by, sc.borrow()).unwrap();
                                        }
                                    }
                                    if rng.coin(0.3) {
                                        md.ckks_compact_limbs(z).unwrap();
                                    }
                                }
                            }
                            val = v_add(&val, &v_mul(&pool[ra].val, &pool[rb].val));
                            e += v_max(&pool[ra].val) * pool[rb].err + v_max(&pool[rb].val) * pool[ra].err + pool[ra].err * pool[rb].err;
                            av.push(x);
                            bv.push(y);
                        }
                        let ams: Vec<M> = av.iter().map(mof).collect();
                        let bms: Vec<M> = bv.iter().map(mof).collect();
                        let model = |k: usize| -> Option<M> {
                            if cnt == 1 {
                                return e_mul_ct(ams[0], bms[0], k);
                            }
                            let uni = ams.iter().all(|m| m.d == ams[0].d) && bms.iter().all(|m| m.d == bms[0].d);
                            if !uni {
                                let mut acc = e_mul_ct(ams[0], bms[0], k)?;
                                for i in 1..cnt {
                                    let pm = e_mul_ct(ams[i], bms[i], k)?;
                                    acc = e_addsub_assign(acc, pm);
                                }
                                Some(acc)
                            } else {
                                let amin = ams.iter().map(|m| m.b).min().unwrap();
                                let bmin = bms.iter().map(|m| m.b).min().unwrap();
                                e_mul_ct(M { d: ams[0].d, b: amin }, M { d: bms[0].d, b: bmin }, k)
                            }
                        };
                        let nat = model(usize::MAX).map(|m| m.eff()).unwrap_or(ams[0].eff());
                        let k = ctx.pick_k(nat, rng);
                        let mut dst = ctx.alloc_dirty(k, rng);
                        let exp = model(mk(&dst));
                        e += exp.map(|m| ctx.ks(m)).unwrap_or(0.0) * cnt as f64;
                        if let Some(m) = exp {
                            if !Ctx::fits(&val, e, m) {
                                stats.skipped += 1;
                                return Ok(());
                            }
                        }
                        let ar: Vec<&Ct> = av.iter().collect();
                        let br: Vec<&Ct> = bv.iter().collect();
                        let r = md.ckks_dot_product_ct(&mut dst, &ar, &br, &ctx.tsk, sc.borrow());
                        Some((format!("dot_product_ct a={ams:?} b={bms:?} ak={:?} bk={:?} dstk={}", av.iter().map(mk).collect::<Vec<_>>(), bv.iter().map(mk).collect::<Vec<_>>(), mk(&dst)), r, exp, dst, val, e))
                    }
                    63 | 64 => {
                        let rnx = op == 64;
                        opname = if rnx { "dot_product_pt_vec_rnx" } else { "dot_product_pt_vec_znx" };
                        let cnt = rng.range(1, 4);
                        let d0 = ctx.rand_pt_delta(rng).min(maxprec());
                        let mut idx = Vec::new();
                        let mut pts_z = Vec::new();
                        let mut pts_r = Vec::new();
                        let mut pms = Vec::new();
                        let mut val: Vec<C> = vec![(0.0, 0.0); ctx.m()];
                        let mut e = 0.0;
                        for _ in 0..cnt {
                            let i = rng.below(pool.len());
                            let d_pt = if rnx { d0 } else { ctx.rand_pt_delta(rng).min(maxprec()) };
                            let mpt = M { d: d_pt, b: if rnx { 3 } else { rng.range(2, 5) } };
                            let raw = ctx.rand_slots(rng, 1.0);
                            let ptv = ctx.quantize(&raw, d_pt);
                            val = v_add(&val, &v_mul(&pool[i].val, &ptv));
                            e += pool[i].err * v_max(&ptv);
                            pts_z.push(ctx.encode_znx(&raw, mpt));
                            pts_r.push(ctx.encode_rnx(&raw));
                            pms.push(mpt);
                            idx.push(i);
                        }
                        let ams: Vec<M> = idx.iter().map(|&i| mof(&pool[i].ct)).collect();
                        let model = |k: usize| -> Option<M> {
                            let mut acc = e_mul_pt(ams[0], pms[0].d, k)?;
                            for i in 1..cnt {
                                let pm = e_mul_pt(ams[i], pms[i].d, k)?;
                                acc = e_addsub_assign(acc, pm);
                            }
                            Some(acc)
                        };
                        let nat = model(usize::MAX).map(|m| m.eff()).unwrap_or(ams[0].eff());
                        let k = ctx.pick_k(nat, rng);
                        let mut dst = ctx.alloc_dirty(k, rng);
                        let exp = model(mk(&dst));
                        e += exp.map(|m| ctx.ks(m)).unwrap_or(0.0) * cnt as f64;
                        if let Some(m) = exp {
                            if !Ctx::fits(&val, e, m) {
                                stats.skipped += 1;
                                return Ok(());
                            }
                        }
                        let ar: Vec<&Ct> = idx.iter().map(|&i| &pool[i].ct).collect();
                        let r = if rnx {
                            let pr: Vec<&CKKSPlaintextVecRnx<F>> = pts_r.iter().collect();
                            md.ckks_dot_product_pt_vec_rnx(&mut dst, &ar, &pr, meta(pms[0]), sc.borrow())
                        } else {
                            let pz: Vec<&CKKSPlaintextVecZnx<Vec<u8>>> = pts_z.iter().collect();
                            md.ckks_dot_product_pt_vec_znx(&mut dst, &ar, &pz, sc.borrow())
                        };
                        Some((format!("{opname} a={ams:?} pt={pms:?} dstk={}", mk(&dst)), r, exp, dst, val, e))
                    }
                    65 | 66 => {
                        let rnx = op == 66;
                        opname = if rnx { "dot_product_pt_const_rnx" } else { "dot_product_pt_const_znx" };
                        let cnt = rng.range(1, 4);
                        let d0 = ctx.rand_pt_delta(rng).min(maxprec());
                        let prec0 = M { d: d0, b: rng.range(2, 5) };
                        let mut idx = Vec::new();
                        let mut cz = Vec::new();
                        let mut cr = Vec::new();
                        let mut pms = Vec::new();
                        let mut val: Vec<C> = vec![(0.0, 0.0); ctx.m()];
                        let mut e = 0.0;
                        for _ in 0..cnt {
                            let i = rng.below(pool.len());
                            let prec = if rnx { prec0 } else { M { d: ctx.rand_pt_delta(rng).min(maxprec()), b: rng.range(2, 5) } };
                            let (re, im, cc) = ctx.rand_const(rng, prec.d);
                            let crnx = Ctx::cst_rnx(re, im);
                            val = v_add(&val, &v_mulc(&pool[i].val, cc));
                            e += pool[i].err * 2.0;
                            cz.push(crnx.to_znx(p.base2k.into(), meta(prec)).unwrap());
                            cr.push(crnx);
                            pms.push(prec);
                            idx.push(i);
                        }
                        let ams: Vec<M> = idx.iter().map(|&i| mof(&pool[i].ct)).collect();
                        let model = |k: usize| -> Option<M> {
                            let mut acc = e_mul_pt(ams[0], pms[0].d, k)?;
                            for i in 1..cnt {
                                let pm = e_mul_pt(ams[i], pms[i].d, k)?;
                                acc = e_addsub_assign(acc, pm);
                            }
                            Some(acc)
                        };
                        let nat = model(usize::MAX).map(|m| m.eff()).unwrap_or(ams[0].eff());
                        let k = ctx.pick_k(nat, rng);
                        let mut dst = ctx.alloc_dirty(k, rng);
                        let exp = model(mk(&dst));
                        e += exp.map(|m| ctx.ks(m)).unwrap_or(0.0) * cnt as f64;
                        if let Some(m) = exp {
                            if !Ctx::fits(&val, e, m) {
                                stats.skipped += 1;
                                return Ok(());
                            }
                        }
                        let ar: Vec<&Ct> = idx.iter().map(|&i| &pool[i].ct).collect();
                        let r = if rnx {
                            let pr: Vec<&CKKSPlaintextCstRnx<F>> = cr.iter().collect();
                            md.ckks_dot_product_pt_const_rnx(&mut dst, &ar, &pr, meta(pms[0]), sc.borrow())
                        } else {
                            let pz: Vec<&CKKSPlaintextCstZnx> = cz.iter().collect();
                            md.ckks_dot_product_pt_const_znx(&mut dst, &ar, &pz, sc.borrow())
                        };
                        Some((format!("{opname} a={ams:?} prec={pms:?} dstk={}", mk(&dst)), r, exp, dst, val, e))
                    }
                    67 => {
                        opname = "unsafe_chain";
                        // dst = a + b - c + pt + cst, normalised once at the end
                        let nat = ma.d.min(mb.d) + ma.b.min(mb.b);
                        let k = ctx.pick_k(nat, rng);
                        let mut dst = ctx.alloc_dirty(k, rng);
                        let d_pt = ctx.rand_pt_delta(rng).min(maxprec());
                        let mpt = M { d: d_pt, b: rng.range(2, 5) };
                        let raw = ctx.rand_slots(rng, 1.0);
                        let ptv = ctx.quantize(&raw, d_pt);
                        let d_c = ctx.rand_pt_delta(rng).min(maxprec());
                        let (re, im, cc) = ctx.rand_const(rng, d_c);
                        let none = re.is_none() && im.is_none();
                        let m1 = e_addsub_into(ma, mb, mk(&dst));
                        let m2 = m1.map(|m| e_addsub_assign(m, mc));
                        let m3 = m2.and_then(|m| e_add_pt_vec(m, d_pt, roundup(mpt.eff(), p.base2k)));
                        let exp = m3;
                        let val = v_addc(&v_add(&v_sub(&v_add(&a.val, &b.val), &c.val), &ptv), cc);
                        let e = a.err + b.err + c.err + p2(-(d_pt as i64)) * 64.0 + p2(-(d_c.min(52) as i64)) * 4.0;
                        if let Some(m) = exp {
                            if !Ctx::fits(&val, e, m) {
                                stats.skipped += 1;
                                return Ok(());
                            }
                            if !none && m.b + d_c > mk(&dst) {
                                stats.skipped += 1;
                                return Ok(());
                            }
                        }
                        let pt_znx = ctx.encode_znx(&raw, mpt);
                        let crnx = Ctx::cst_rnx(re, im);
                        let r = (|| -> anyhow::Result<()> {
                            unsafe {
                                md.ckks_add_into_unsafe(&mut dst, &a.ct, &b.ct, sc.borrow())?;
                                md.ckks_sub_assign_unsafe(&mut dst, &c.ct, sc.borrow())?;
                                md.ckks_add_pt_vec_znx_assign_unsafe(&mut dst, &pt_znx, sc.borrow())?;
                                md.ckks_add_pt_const_rnx_assign_unsafe(&mut dst, &crnx, meta(M { d: d_c, b: 2 }), sc.borrow())?;
                            }
                            md.glwe_normalize_assign(&mut dst, sc.borrow());
                            Ok(())
                        })();
                        Some((
                            format!("unsafe_chain a={ma:?}/k{} b={mb:?}/k{} c={mc:?}/k{} pt={mpt:?} d_c={d_c} dstk={}", mk(&a.ct), mk(&b.ct), mk(&c.ct), mk(&dst)),
                            r,
                            exp,
                            dst,
                            val,
                            e,
                        ))
                    }
                    _ => None,
                };

                let Some((label, r, exp, dst, val, e)) = out else { return Ok(()) };
                // every operation rounds at the last bit of the result
                let e = e + exp.map(|m| p2(-(m.d as i64)) * p.n as f64).unwrap_or(0.0);
                let ent = stats.per_op.entry(opname).or_insert((0, 0));
                if exp.is_some() {
                    ent.0 += 1
                } else {
                    ent.1 += 1
                }
                let reg = ctx.settle(&label, r, exp, dst, val, e, sc, stats)?;
                if let Some(reg) = reg {
                    let slot = rng.below(pool.len());
                    let mag = v_max(&reg.val);
                    if mag >= 0.02 && reg.err < p2(-12) * mag {
                        pool[slot] = reg;
                    }
                }
                Ok(())
            }

            pub fn all_rots(p: P) -> Vec<i64> {
                let m = (p.n / 2) as i64;
                let mut v: Vec<i64> = (0..m).collect();
                v.push(m);
                v.push(m + 1);
                v
            }

            pub fn run_programs(p: P, seeds: std::ops::Range<u64>, steps: usize, avoid_known: bool) {
                let ctx = Ctx::new(p, &all_rots(p));
                let mut failures: Vec<String> = Vec::new();
                let mut stats = Stats::default();
                for seed in seeds {
                    let mut rng = Rng(seed.wrapping_mul(0x1234_5678_9abc_def1) ^ 0xdead_beef);
                    let mut sc = ScratchOwned::<BE>::alloc(1 << 23);
                    let mut pool: Vec<Reg> = (0..5).map(|_| ctx.fresh(&mut rng, &mut sc)).collect();
                    for st in 0..steps {
                        if rng.coin(0.08) {
                            let i = rng.below(pool.len());
                            pool[i] = ctx.fresh(&mut rng, &mut sc);
                        }
                        let res = catch_unwind(AssertUnwindSafe(|| step(&ctx, &mut pool, &mut rng, &mut sc, &mut stats, avoid_known)));
                        match res {
                            Ok(Ok(())) => {}
                            Ok(Err(msg)) => {
                                failures.push(format!("[seed {seed} step {st}] {msg}"));
                                break;
                            }
                            Err(pan) => {
                                let msg = pan
                                    .downcast_ref::<String>()
                                    .cloned()
                                    .or_else(|| pan.downcast_ref::<&str>().map(|s| s.to_string()))
                                    .unwrap_or_else(|| "<non-string panic>".into());
                                failures.push(format!("[seed {seed} step {st}] PANIC: {msg}"));
                                break;
                            }
                        }
                    }
                }
                println!(
                    "programs: ok={} err={} skipped={} worst diff/err_est={:.3} at {}",
                    stats.ok, stats.err, stats.skipped, stats.worst_rel, stats.worst_label
                );
                let mut per: Vec<_> = stats.per_op.iter().collect();
                per.sort();
                for (k, v) in per {
                    println!("  {k:32} ok-expected={:5} err-expected={:5}", v.0, v.1);
                }
                for u in stats.untyped.iter().take(20) {
                    println!("  untyped error: {u}");
                }
                if !failures.is_empty() {
                    for f in &failures {
                        println!("FAIL {f}");
                    }
                    panic!("{} failing programs", failures.len());
                }
            }


            // =====================================================================
            // Targeted probes
            // =====================================================================

            pub fn guard<T>(f: impl FnOnce() -> T) -> Result<T, String> {
                catch_unwind(AssertUnwindSafe(f)).map_err(|pan| {
                    pan.downcast_ref::<String>()
                        .cloned()
                        .or_else(|| pan.downcast_ref::<&str>().map(|s| s.to_string()))
                        .unwrap_or_else(|| "<non-string panic>".into())
                })
            }

            /// A full-precision ciphertext (eff_k == max_k) receives a constant whose log_delta is larger than the
            /// ciphertext's: the constant has more digits than the ciphertext has limbs.
            #[test]
            fn t01_add_const_finer_than_ct() {
                let p = PP;
                let ctx = Ctx::new(p, &[1]);
                let mut sc = ScratchOwned::<BE>::alloc(1 << 22);
                let d = p.dmin;
                // eff_k = exactly two limbs
                let b = 2 * p.base2k - d;
                let raw: Vec<C> = (0..ctx.m()).map(|i| (0.1 * i as f64 - 0.3, 0.05 * i as f64)).collect();
                let val = ctx.quantize(&raw, d);
                let mut fails = Vec::new();
                for (name, d_c) in [("equal", d), ("one bit finer", d + 1), ("a limb finer", d + p.base2k)] {
                    for form in 0..6 {
                        let ct = ctx.encrypt(&raw, d, 2, b, 2 * p.base2k, &mut sc);
                        assert_eq!(mk(&ct), 2 * p.base2k);
                        let mut dst = ctx.clone_ct(&ct);
                        let mut out = ctx.alloc_ct(2 * p.base2k);
                        let c = Ctx::cst_rnx(Some(0.25), Some(-0.125));
                        let prec = meta(M { d: d_c.min(maxprec()), b: 2 });
                        let pt_raw: Vec<C> = vec![(0.25, -0.125); ctx.m()];
                        let pt_rnx = ctx.encode_rnx(&pt_raw);
                        let label = format!("{} ({name}, ct d={d} b={b} max_k={}, const log_delta={})", ["add_pt_const_rnx_assign", "sub_pt_const_rnx_assign", "add_pt_const_rnx_into", "add_pt_const_znx_assign", "add_pt_vec_rnx_assign (sibling)", "add_pt_vec_rnx_into (sibling)"][form], mk(&ct), prec.log_delta);
                        let r = guard(|| match form {
                            0 => ctx.module.ckks_add_pt_const_rnx_assign(&mut dst, &c, prec, sc.borrow()),
                            1 => ctx.module.ckks_sub_pt_const_rnx_assign(&mut dst, &c, prec, sc.borrow()),
                            2 => {
                                let r = ctx.module.ckks_add_pt_const_rnx_into(&mut out, &ct, &c, prec, sc.borrow());
                                std::mem::swap(&mut out, &mut dst);
                                r
                            }
                            3 => {
                                let z = c.to_znx_at_k(p.base2k.into(), b + prec.log_delta, prec.log_delta).unwrap();
                                ctx.module.ckks_add_pt_const_znx_assign(&mut dst, &z, sc.borrow())
                            }
                            4 => ctx.module.ckks_add_pt_vec_rnx_assign(&mut dst, &pt_rnx, prec, sc.borrow()),
                            _ => {
                                let r = ctx.module.ckks_add_pt_vec_rnx_into(&mut out, &ct, &pt_rnx, prec, sc.borrow());
                                std::mem::swap(&mut out, &mut dst);
                                r
                            }
                        });
                        match r {
                            Err(pan) => fails.push(format!("{label}: PANIC {pan}")),
                            Ok(Err(e)) => println!("note {label}: Err({e})"),
                            Ok(Ok(())) => {
                                let want = if form == 1 { v_subc(&val, (0.25, -0.125)) } else { v_addc(&val, (0.25, -0.125)) };
                                if let Err(e) = ctx.check_value(&label, &dst, &want, p2(-(d as i64)) * 1024.0, &mut sc) {
                                    fails.push(e);
                                }
                            }
                        }
                    }
                }
                for f in &fails {
                    println!("FAIL {f}");
                }
                assert!(fails.is_empty(), "{} failures", fails.len());
            }

            /// ckks_encrypt_sk derives log_budget from the noise descriptor only.
            #[test]
            fn t02_encrypt_budget_vs_storage() {
                let p = PP;
                let ctx = Ctx::new(p, &[1]);
                let mut sc = ScratchOwned::<BE>::alloc(1 << 22);
                let d = p.dmin;
                let raw: Vec<C> = (0..ctx.m()).map(|i| (0.1 * i as f64 - 0.3, 0.05 * i as f64)).collect();
                let val = ctx.quantize(&raw, d);
                let pt = ctx.encode_znx(&raw, M { d, b: 2 });
                let mut fails = Vec::new();
                for limbs in [2usize, 3] {
                    for noise_k in [limbs * p.base2k, limbs * p.base2k + 1, (limbs + 1) * p.base2k, (limbs + 2) * p.base2k + 5] {
                        let mut ct = ctx.alloc_ct(limbs * p.base2k);
                        let noise = NoiseInfos::new(noise_k, 3.2, 19.2).unwrap();
                        let mut xa = Source::new([3u8; 32]);
                        let mut xe = Source::new([4u8; 32]);
                        let label = format!("ckks_encrypt_sk ct.max_k={} noise.k={noise_k} pt.log_delta={d}", mk(&ct));
                        let r = guard(|| ctx.module.ckks_encrypt_sk(&mut ct, &pt, &ctx.sk, &noise, &mut xa, &mut xe, sc.borrow()));
                        match r {
                            Err(pan) => fails.push(format!("{label}: PANIC {pan}")),
                            Ok(Err(e)) => println!("note {label}: Err({e})"),
                            Ok(Ok(())) => {
                                let m = mof(&ct);
                                if m.eff() > mk(&ct) {
                                    fails.push(format!("{label}: Ok with metadata {m:?}: log_delta+log_budget={} > max_k={}", m.eff(), mk(&ct)));
                                } else if let Err(e) = ctx.check_value(&label, &ct, &val, p2(-(d as i64)) * 1024.0, &mut sc) {
                                    fails.push(e);
                                }
                            }
                        }
                    }
                }
                for f in &fails {
                    println!("FAIL {f}");
                }
                assert!(fails.is_empty(), "{} failures", fails.len());
            }

            /// ct + ct into a destination that is large enough for the result but smaller than both operands,
            /// with unequal log_delta.
            #[test]
            fn t03_add_into_unequal_delta_small_dst() {
                let p = PP;
                let ctx = Ctx::new(p, &[1]);
                let mut sc = ScratchOwned::<BE>::alloc(1 << 22);
                let mut fails = Vec::new();
                let ra: Vec<C> = (0..ctx.m()).map(|i| (0.1 * i as f64 - 0.3, 0.05 * i as f64)).collect();
                let rb: Vec<C> = (0..ctx.m()).map(|i| (0.2 - 0.03 * i as f64, 0.4 - 0.1 * i as f64)).collect();
                // a: fine scale / small budget, b: coarse scale / large budget, same effective precision
                let (da, db) = (p.dmax.min(2 * p.base2k - 6), p.dmin);
                let eff = 3 * p.base2k;
                let (ba, bb) = (eff - da, eff - db);
                let a = ctx.encrypt(&ra, da, 2, ba, eff, &mut sc);
                let b = ctx.encrypt(&rb, db, 2, bb, eff, &mut sc);
                let (va, vb) = (ctx.quantize(&ra, da), ctx.quantize(&rb, db));
                let (ma, mb) = (mof(&a), mof(&b));
                // the sum has log_delta=min, log_budget=min
                let ideal_eff = da.min(db) + ba.min(bb);
                for k in [eff, 2 * p.base2k, p.base2k] {
                    for form in 0..3 {
                        let mut dst = ctx.alloc_ct(k);
                        let name = ["add_into", "sub_into", "add_many"][form];
                        let label = format!("{name} a={ma:?} b={mb:?} dst.max_k={} (sum needs {ideal_eff} bits)", mk(&dst));
                        let r = guard(|| match form {
                            0 => ctx.module.ckks_add_into(&mut dst, &a, &b, sc.borrow()),
                            1 => ctx.module.ckks_sub_into(&mut dst, &a, &b, sc.borrow()),
                            _ => ctx.module.ckks_add_many(&mut dst, &[&a, &b], sc.borrow()),
                        });
                        let want = if form == 1 { v_sub(&va, &vb) } else { v_add(&va, &vb) };
                        let ideal = e_addsub_ideal(ma, mb, mk(&dst));
                        match r {
                            Err(pan) => fails.push(format!("{label}: PANIC {pan}")),
                            Ok(Err(e)) => {
                                if ideal.is_some() {
                                    fails.push(format!("{label}: Err({e}) although the result {ideal:?} fits the destination"));
                                }
                            }
                            Ok(Ok(())) => {
                                println!("note {label}: Ok {:?} (ideal {ideal:?})", mof(&dst));
                                if Some(mof(&dst)) != ideal {
                                    fails.push(format!("{label}: metadata {:?}, the budget algebra gives {ideal:?}", mof(&dst)));
                                }
                                if let Err(e) = ctx.check_value(&label, &dst, &want, p2(-(da.min(db) as i64)) * 1024.0, &mut sc) {
                                    fails.push(e);
                                }
                            }
                        }
                    }
                }
                for f in &fails {
                    println!("FAIL {f}");
                }
                assert!(fails.is_empty(), "{} failures", fails.len());
            }

            /// Rotation by a negative index with the key generated for `galois_element(-r)`.
            #[test]
            fn t04_negative_rotation() {
                let p = PP;
                let m = (p.n / 2) as i64;
                let ctx = Ctx::new(p, &[-1, -3, 1, 3, m - 1, m - 3]);
                let mut sc = ScratchOwned::<BE>::alloc(1 << 22);
                let d = p.dmin;
                let raw: Vec<C> = (0..ctx.m()).map(|i| (0.1 * i as f64 - 0.3, 0.05 * i as f64 + 0.01)).collect();
                let val = ctx.quantize(&raw, d);
                let ct = ctx.encrypt(&raw, d, 2, 2 * p.base2k - d + 5, 3 * p.base2k, &mut sc);
                let mut fails = Vec::new();
                for r in [1i64, 3, m - 1, m - 3, -1, -3] {
                    let mut dst = ctx.alloc_ct(3 * p.base2k);
                    ctx.module.ckks_rotate_into(&mut dst, &ct, r, &ctx.rot, sc.borrow()).unwrap();
                    let label = format!("rotate_into r={r}");
                    if let Err(e) = ctx.check_value(&label, &dst, &v_rot(&val, r), p2(-(d as i64)) * 8192.0, &mut sc) {
                        // which map is it then?
                        let alt = v_conj(&v_rot(&val, -r));
                        let is_conj = ctx.check_value(&label, &dst, &alt, p2(-(d as i64)) * 8192.0, &mut sc).is_ok();
                        fails.push(format!("{e} [equals conj(rot(+{})): {is_conj}]", -r));
                    }
                }
                for f in &fails {
                    println!("FAIL {f}");
                }
                assert!(fails.is_empty(), "{} failures", fails.len());
            }

            /// Encoding followed by decoding, over a grid of (log_delta, log_budget).
            #[test]
            fn t05_encode_decode_identity() {
                let p = PP;
                let ctx = Ctx::new(p, &[1]);
                let mut fails = Vec::new();
                let mp = maxprec();
                let mut rng = Rng(77);
                for d in [1usize, 5, p.base2k - 1, p.base2k, p.base2k + 1, 40, 52, 53, 54, 62, 63, 64, 80, 100, 112, 113, 114] {
                    for b in [0usize, 1, 2, 7, p.base2k, 63usize.saturating_sub(d), 64usize.saturating_sub(d), 120usize.saturating_sub(d), 127usize.saturating_sub(d)] {
                        if d + b > 127 {
                            continue;
                        }
                        // magnitude limit of the plaintext: |coefficient| < 2^(b-1)
                        let lim = p2(b as i64 - 1);
                        for scale in [0.999 * lim, 0.3 * lim] {
                            let raw: Vec<C> = (0..ctx.m()).map(|_| (rng.sym() * scale * 0.7, rng.sym() * scale * 0.7)).collect();
                            let label = format!("encode/decode log_delta={d} log_budget={b} scale={scale:e}");
                            let r = guard(|| -> Result<Vec<C>, String> {
                                let rnx = ctx.encode_rnx(&raw);
                                let mut znx = CKKSPlaintextVecZnx::alloc(p.n.into(), p.base2k.into(), meta(M { d, b }));
                                rnx.to_znx(&mut znx).map_err(|e| format!("to_znx: {e}"))?;
                                ctx.decode_znx(&znx)
                            });
                            match r {
                                Err(pan) => fails.push(format!("{label}: PANIC {pan}")),
                                Ok(Err(e)) => {
                                    if d <= mp {
                                        fails.push(format!("{label}: {e}"));
                                    }
                                }
                                Ok(Ok(got)) => {
                                    if d > mp {
                                        fails.push(format!("{label}: accepted log_delta above max_log_delta_prec={mp}"));
                                    }
                                    let diff = v_maxdiff(&got, &raw);
                                    let tol = p2(-(d as i64)) * p.n as f64 + p2(-50) * scale.max(1e-30) * p.n as f64;
                                    if !(diff <= tol) {
                                        fails.push(format!("{label}: max error {diff:e} > {tol:e}"));
                                    }
                                }
                            }
                        }
                    }
                }
                for f in &fails {
                    println!("FAIL {f}");
                }
                assert!(fails.is_empty(), "{} failures", fails.len());
            }


            /// A vector plaintext with another limb radix: add/sub report PlaintextBase2KMismatch.
            #[test]
            fn t06_pt_base2k_mismatch() {
                let p = PP;
                let ctx = Ctx::new(p, &[1]);
                let mut sc = ScratchOwned::<BE>::alloc(1 << 22);
                let d = p.dmin;
                let raw: Vec<C> = (0..ctx.m()).map(|i| (0.1 * i as f64 - 0.3, 0.05 * i as f64)).collect();
                let ct = ctx.encrypt(&raw, d, 2, 3 * p.base2k - d, 3 * p.base2k, &mut sc);
                let other = p.base2k - 1;
                let rnx = ctx.encode_rnx(&raw);
                let mut pt = CKKSPlaintextVecZnx::alloc(p.n.into(), other.into(), meta(M { d, b: 2 }));
                rnx.to_znx(&mut pt).unwrap();
                let mut fails = Vec::new();
                for form in 0..7 {
                    let mut dst = ctx.clone_ct(&ct);
                    let mut out = ctx.alloc_ct(3 * p.base2k);
                    let name = [
                        "add_pt_vec_znx_assign",
                        "sub_pt_vec_znx_into",
                        "mul_pt_vec_znx_into",
                        "mul_pt_vec_znx_assign",
                        "mul_add_pt_vec_znx_into",
                        "dot_product_pt_vec_znx",
                        "ckks_decrypt",
                    ][form];
                    let r = guard(|| match form {
                        0 => ctx.module.ckks_add_pt_vec_znx_assign(&mut dst, &pt, sc.borrow()),
                        1 => ctx.module.ckks_sub_pt_vec_znx_into(&mut out, &ct, &pt, sc.borrow()),
                        2 => ctx.module.ckks_mul_pt_vec_znx_into(&mut out, &ct, &pt, sc.borrow()),
                        3 => ctx.module.ckks_mul_pt_vec_znx_assign(&mut dst, &pt, sc.borrow()),
                        4 => ctx.module.ckks_mul_add_pt_vec_znx_into(&mut dst, &ct, &pt, sc.borrow()),
                        5 => ctx.module.ckks_dot_product_pt_vec_znx(&mut out, &[&ct, &ct], &[&pt, &pt], sc.borrow()),
                        _ => {
                            let mut o = CKKSPlaintextVecZnx::alloc(p.n.into(), other.into(), meta(M { d, b: 2 }));
                            ctx.module.ckks_decrypt(&mut o, &ct, &ctx.sk, sc.borrow())
                        }
                    });
                    match r {
                        Err(pan) => fails.push(format!("{name} with pt.base2k={other} ct.base2k={}: PANIC {pan}", p.base2k)),
                        Ok(Ok(())) => fails.push(format!("{name} with pt.base2k={other}: returned Ok")),
                        Ok(Err(e)) => match e.downcast_ref::<CKKSCompositionError>() {
                            Some(CKKSCompositionError::PlaintextBase2KMismatch { .. }) => {}
                            _ => fails.push(format!("{name}: unexpected error {e}")),
                        },
                    }
                }
                for f in &fails {
                    println!("FAIL {f}");
                }
                assert!(fails.is_empty(), "{} failures", fails.len());
            }

            /// ckks_decrypt into plaintexts of every admissible shape.
            #[test]
            fn t07_decrypt_grid() {
                let p = PP;
                let ctx = Ctx::new(p, &[1]);
                let mut sc = ScratchOwned::<BE>::alloc(1 << 22);
                let mut fails = Vec::new();
                let raw: Vec<C> = (0..ctx.m()).map(|i| (0.1 * i as f64 - 0.3, 0.05 * i as f64)).collect();
                for (d, b, ct_k) in [(p.dmin, 9usize, p.dmin + 9), (p.dmin, 9, p.kmax), (p.dmax, 3 * p.base2k - p.dmax + 1, 3 * p.base2k + 1), (p.dmin + 3, p.base2k, p.kmax)] {
                    let val = ctx.quantize(&raw, d);
                    let ct = ctx.encrypt_at(&raw, d, b, ct_k, &mut sc);
                    for d_out in [d.saturating_sub(p.base2k + 1).max(1), d - 5, d - 1, d, d + 1, d + 7, d + p.base2k] {
                        for b_out in [1usize, 2, b.saturating_sub(1), b, b + 1, b + p.base2k] {
                            if d_out > maxprec() || d_out + b_out > 120 {
                                continue;
                            }
                            let mut pt = CKKSPlaintextVecZnx::alloc(p.n.into(), p.base2k.into(), meta(M { d: d_out, b: b_out }));
                            for x in pt.data_mut().raw_mut().iter_mut() {
                                *x = -0x7777_7777_7777;
                            }
                            let label = format!("ckks_decrypt ct=(d={d},b={b},max_k={}) pt=(d={d_out},b={b_out})", mk(&ct));
                            let r = guard(|| ctx.module.ckks_decrypt(&mut pt, &ct, &ctx.sk, sc.borrow()));
                            let expect_ok = b_out <= b;
                            match r {
                                Err(pan) => fails.push(format!("{label}: PANIC {pan}")),
                                Ok(Err(e)) => {
                                    if expect_ok {
                                        fails.push(format!("{label}: Err({e})"));
                                    }
                                }
                                Ok(Ok(())) => {
                                    if !expect_ok {
                                        fails.push(format!("{label}: Ok although pt.log_budget > ct.log_budget"));
                                        continue;
                                    }
                                    if mof(&pt) != (M { d: d_out, b: b_out }) {
                                        fails.push(format!("{label}: plaintext metadata changed to {:?}", mof(&pt)));
                                    }
                                    if v_max(&val) * 1.1 >= p2(b_out as i64 - 1) {
                                        continue;
                                    }
                                    match ctx.decode_znx(&pt) {
                                        Err(e) => fails.push(format!("{label}: {e}")),
                                        Ok(got) => {
                                            let diff = v_maxdiff(&got, &val);
                                            let tol = p2(-(d.min(d_out) as i64)) * 1024.0;
                                            if !(diff <= tol) {
                                                fails.push(format!("{label}: max error {diff:e} > {tol:e}"));
                                            }
                                        }
                                    }
                                }
                            }
                        }
                    }
                }
                for f in &fails {
                    println!("FAIL {f}");
                }
                assert!(fails.is_empty(), "{} failures", fails.len());
            }

            /// Slot values close to the magnitude limit 2^(log_budget-1) through the operations that keep the magnitude.
            #[test]
            fn t08_near_magnitude_limit() {
                let p = PP;
                let ctx = Ctx::new(p, &all_rots(p));
                let mut sc = ScratchOwned::<BE>::alloc(1 << 22);
                let mut fails = Vec::new();
                let mut rng = Rng(4242);
                let d = p.dmin;
                for b in [3usize, 8, p.base2k - d % p.base2k, 2 * p.base2k - d] {
                    // one slot carries nearly the whole magnitude, the others are small: |coefficients| <= max|slot|
                    let lim = p2(b as i64 - 1);
                    let mut raw: Vec<C> = (0..ctx.m()).map(|_| (rng.sym() * 0.001 * lim, rng.sym() * 0.001 * lim)).collect();
                    raw[1] = (0.67 * lim, -0.66 * lim);
                    let val = ctx.quantize(&raw, d);
                    let ct = ctx.encrypt_at(&raw, d, b, d + b, &mut sc);
                    let e0 = p2(-(d as i64)) * 8192.0;
                    let small = (0.009 * lim, 0.009 * lim);
                    for form in 0..12 {
                        let mut dst = ctx.clone_ct(&ct);
                        let mut out = ctx.alloc_dirty(d + b, &mut rng);
                        let (name, r, want, use_out): (&str, _, Vec<C>, bool) = match form {
                            0 => ("neg_into", guard(|| ctx.module.ckks_neg_into(&mut out, &ct, sc.borrow())), v_neg(&val), true),
                            1 => ("neg_assign", guard(|| ctx.module.ckks_neg_assign(&mut dst)), v_neg(&val), false),
                            2 => ("rotate_into", guard(|| ctx.module.ckks_rotate_into(&mut out, &ct, 3, &ctx.rot, sc.borrow())), v_rot(&val, 3), true),
                            3 => ("rotate_assign", guard(|| ctx.module.ckks_rotate_assign(&mut dst, 2, &ctx.rot, sc.borrow())), v_rot(&val, 2), false),
                            4 => ("conjugate_into", guard(|| ctx.module.ckks_conjugate_into(&mut out, &ct, &ctx.conj, sc.borrow())), v_conj(&val), true),
                            5 => ("conjugate_assign", guard(|| ctx.module.ckks_conjugate_assign(&mut dst, &ctx.conj, sc.borrow())), v_conj(&val), false),
                            6 => (
                                "add_pt_const_rnx_assign",
                                guard(|| ctx.module.ckks_add_pt_const_rnx_assign(&mut dst, &Ctx::cst_rnx(Some(small.0), Some(small.1)), meta(M { d, b: 0 }), sc.borrow())),
                                v_addc(&val, (Ctx::qconst(small.0, d), Ctx::qconst(small.1, d))),
                                false,
                            ),
                            7 => (
                                "sub_pt_const_rnx_into",
                                guard(|| ctx.module.ckks_sub_pt_const_rnx_into(&mut out, &ct, &Ctx::cst_rnx(Some(small.0), None), meta(M { d, b: 0 }), sc.borrow())),
                                v_subc(&val, (Ctx::qconst(small.0, d), 0.0)),
                                true,
                            ),
                            8 => ("add_into(ct, -ct/…)", guard(|| ctx.module.ckks_sub_into(&mut out, &ct, &ct, sc.borrow())), v_sub(&val, &val), true),
                            9 => ("mul_pow2_into(0)", guard(|| ctx.module.ckks_mul_pow2_into(&mut out, &ct, 0, sc.borrow())), val.clone(), true),
                            10 => ("rescale_into(0)", guard(|| ctx.module.ckks_rescale_into(&mut out, 0, &ct, sc.borrow())), val.clone(), true),
                            _ => ("compact_limbs_copy", guard(|| ctx.module.ckks_compact_limbs_copy(&ct).map(|c| { dst = c; })), val.clone(), false),
                        };
                        let label = format!("{name} near the limit (d={d}, b={b}, max|slot|={:.4}*2^(b-1))", v_max(&val) / lim);
                        match r {
                            Err(pan) => fails.push(format!("{label}: PANIC {pan}")),
                            Ok(Err(e)) => fails.push(format!("{label}: Err({e})")),
                            Ok(Ok(())) => {
                                let res = if use_out { &out } else { &dst };
                                match ctx.check_value(&label, res, &want, e0 * lim.max(1.0), &mut sc) {
                                    Err(e) => fails.push(e),
                                    Ok(x) if x < 0.0 => fails.push(format!("{label}: value not checked")),
                                    Ok(_) => {}
                                }
                            }
                        }
                    }
                }
                for f in &fails {
                    println!("FAIL {f}");
                }
                assert!(fails.is_empty(), "{} failures", fails.len());
            }


            /// Every operation with a scratch buffer of exactly the size its `*_tmp_bytes` companion reports.
            #[test]
            fn t09_exact_scratch() {
                let p = PP;
                let ctx = Ctx::new(p, &[1]);
                let md = &ctx.module;
                let mut big = ScratchOwned::<BE>::alloc(1 << 23);
                let mut fails: Vec<String> = Vec::new();
                let d = p.dmin;
                let raw: Vec<C> = (0..ctx.m()).map(|i| (0.1 * i as f64 - 0.3, 0.05 * i as f64)).collect();
                let limbs_max = p.kmax / p.base2k;
                let prec = meta(M { d, b: 3 });
                let pt_znx = ctx.encode_znx(&raw, M { d, b: 3 });
                let pt_rnx = ctx.encode_rnx(&raw);
                let crnx = Ctx::cst_rnx(Some(0.25), Some(-0.5));
                let cznx_mul = crnx.to_znx(p.base2k.into(), prec).unwrap();
                for a_limbs in [3usize, limbs_max] {
                    for b_limbs in [3usize, limbs_max] {
                        for dst_limbs in [1usize, 2, 3, limbs_max] {
                            let a = ctx.encrypt(&raw, d, 3, a_limbs * p.base2k - d, a_limbs * p.base2k, &mut big);
                            let b = ctx.encrypt(&raw, d, 3, b_limbs * p.base2k - d, b_limbs * p.base2k, &mut big);
                            let shape = format!("a.limbs={a_limbs} b.limbs={b_limbs} dst.limbs={dst_limbs}");
                            let dk = dst_limbs * p.base2k;
                            let mut run = |name: &str, bytes: usize, f: &mut dyn FnMut(&mut Ct, &mut ScratchOwned<BE>) -> anyhow::Result<()>| {
                                let mut dst = ctx.alloc_ct(dk);
                                let mut sc = ScratchOwned::<BE>::alloc(bytes);
                                match guard(|| f(&mut dst, &mut sc)) {
                                    Err(pan) => {
                                        // with plenty of scratch?
                                        let mut dst2 = ctx.alloc_ct(dk);
                                        let mut big2 = ScratchOwned::<BE>::alloc(1 << 23);
                                        let ok_big = guard(|| f(&mut dst2, &mut big2)).is_ok();
                                        fails.push(format!("{name} [{shape}] with {bytes} scratch bytes: PANIC {pan} (with a large scratch: {})", if ok_big { "no panic" } else { "panics too" }));
                                    }
                                    Ok(_) => {}
                                }
                            };
                            run("add_into", md.ckks_add_tmp_bytes(), &mut |dst, sc| md.ckks_add_into(dst, &a, &b, sc.borrow()));
                            run("sub_into", md.ckks_sub_tmp_bytes(), &mut |dst, sc| md.ckks_sub_into(dst, &a, &b, sc.borrow()));
                            run("add_assign", md.ckks_add_tmp_bytes(), &mut |dst, sc| {
                                md.ckks_rescale_into(dst, 0, &a, ScratchOwned::<BE>::alloc(1 << 20).borrow()).ok();
                                md.ckks_add_assign(dst, &b, sc.borrow())
                            });
                            run("neg_into", md.ckks_neg_tmp_bytes(), &mut |dst, sc| md.ckks_neg_into(dst, &a, sc.borrow()));
                            run("mul_pow2_into", md.ckks_mul_pow2_tmp_bytes(), &mut |dst, sc| md.ckks_mul_pow2_into(dst, &a, 3, sc.borrow()));
                            run("div_pow2_into", md.ckks_div_pow2_tmp_bytes(), &mut |dst, sc| md.ckks_div_pow2_into(dst, &a, 3, sc.borrow()));
                            run("rescale_into", md.ckks_rescale_tmp_bytes(), &mut |dst, sc| md.ckks_rescale_into(dst, 3, &a, sc.borrow()));
                            run("add_pt_vec_znx_into", md.ckks_add_pt_vec_znx_tmp_bytes(), &mut |dst, sc| md.ckks_add_pt_vec_znx_into(dst, &a, &pt_znx, sc.borrow()));
                            run("sub_pt_vec_znx_into", md.ckks_sub_pt_vec_znx_tmp_bytes(), &mut |dst, sc| md.ckks_sub_pt_vec_znx_into(dst, &a, &pt_znx, sc.borrow()));
                            {
                                let dst0 = ctx.alloc_ct(dk);
                                let by = md.ckks_add_pt_vec_rnx_tmp_bytes(&dst0, &a, &prec);
                                run("add_pt_vec_rnx_into", by, &mut |dst, sc| md.ckks_add_pt_vec_rnx_into(dst, &a, &pt_rnx, prec, sc.borrow()));
                                let by = md.ckks_sub_pt_vec_rnx_tmp_bytes(&dst0, &a, &prec);
                                run("sub_pt_vec_rnx_into", by, &mut |dst, sc| md.ckks_sub_pt_vec_rnx_into(dst, &a, &pt_rnx, prec, sc.borrow()));
                                run("add_pt_const_rnx_into", md.ckks_add_pt_const_tmp_bytes(), &mut |dst, sc| {
                                    md.ckks_add_pt_const_rnx_into(dst, &a, &crnx, meta(M { d: 4, b: 0 }), sc.borrow())
                                });
                                let by = md.ckks_rotate_tmp_bytes(&(if dst_limbs > a_limbs { ctx.alloc_ct(dk) } else { ctx.alloc_ct(a_limbs * p.base2k) }), &ctx.atk_infos);
                                run("rotate_into", by, &mut |dst, sc| md.ckks_rotate_into(dst, &a, 1, &ctx.rot, sc.borrow()));
                                let by = md.ckks_conjugate_tmp_bytes(&(if dst_limbs > a_limbs { ctx.alloc_ct(dk) } else { ctx.alloc_ct(a_limbs * p.base2k) }), &ctx.atk_infos);
                                run("conjugate_into", by, &mut |dst, sc| md.ckks_conjugate_into(dst, &a, &ctx.conj, sc.borrow()));
                                let by = md.ckks_mul_tmp_bytes(&dst0, &ctx.tsk_infos);
                                run("mul_into", by, &mut |dst, sc| md.ckks_mul_into(dst, &a, &b, &ctx.tsk, sc.borrow()));
                                let by = md.ckks_square_tmp_bytes(&dst0, &ctx.tsk_infos);
                                run("square_into", by, &mut |dst, sc| md.ckks_square_into(dst, &a, &ctx.tsk, sc.borrow()));
                                let by = md.ckks_mul_pt_vec_znx_tmp_bytes(&dst0, &a, &prec);
                                run("mul_pt_vec_znx_into", by, &mut |dst, sc| md.ckks_mul_pt_vec_znx_into(dst, &a, &pt_znx, sc.borrow()));
                                let by = md.ckks_mul_pt_vec_rnx_tmp_bytes(&dst0, &a, &prec);
                                run("mul_pt_vec_rnx_into", by, &mut |dst, sc| md.ckks_mul_pt_vec_rnx_into(dst, &a, &pt_rnx, prec, sc.borrow()));
                                let by = md.ckks_mul_pt_const_tmp_bytes(&dst0, &a, &prec);
                                run("mul_pt_const_znx_into", by, &mut |dst, sc| md.ckks_mul_pt_const_znx_into(dst, &a, &cznx_mul, sc.borrow()));
                                run("mul_pt_const_rnx_into", by, &mut |dst, sc| md.ckks_mul_pt_const_rnx_into(dst, &a, &crnx, prec, sc.borrow()));
                                // fused forms: dst is first filled with b
                                let by = md.ckks_mul_add_ct_tmp_bytes(&dst0, &ctx.tsk_infos);
                                run("mul_add_ct_into", by, &mut |dst, sc| {
                                    md.ckks_rescale_into(dst, 0, &b, ScratchOwned::<BE>::alloc(1 << 20).borrow()).ok();
                                    md.ckks_mul_add_ct_into(dst, &a, &b, &ctx.tsk, sc.borrow())
                                });
                                let by = md.ckks_mul_sub_ct_tmp_bytes(&dst0, &ctx.tsk_infos);
                                run("mul_sub_ct_into", by, &mut |dst, sc| {
                                    md.ckks_rescale_into(dst, 0, &b, ScratchOwned::<BE>::alloc(1 << 20).borrow()).ok();
                                    md.ckks_mul_sub_ct_into(dst, &a, &b, &ctx.tsk, sc.borrow())
                                });
                                let by = md.ckks_mul_add_pt_vec_znx_tmp_bytes(&dst0, &a, &prec);
                                run("mul_add_pt_vec_znx_into", by, &mut |dst, sc| {
                                    md.ckks_rescale_into(dst, 0, &b, ScratchOwned::<BE>::alloc(1 << 20).borrow()).ok();
                                    md.ckks_mul_add_pt_vec_znx_into(dst, &a, &pt_znx, sc.borrow())
                                });
                                let by = md.ckks_mul_add_pt_vec_rnx_tmp_bytes(&dst0, &a, &prec);
                                run("mul_add_pt_vec_rnx_into", by, &mut |dst, sc| {
                                    md.ckks_rescale_into(dst, 0, &b, ScratchOwned::<BE>::alloc(1 << 20).borrow()).ok();
                                    md.ckks_mul_add_pt_vec_rnx_into(dst, &a, &pt_rnx, prec, sc.borrow())
                                });
                                let by = md.ckks_mul_add_pt_const_tmp_bytes(&dst0, &a, &prec);
                                run("mul_add_pt_const_rnx_into", by, &mut |dst, sc| {
                                    md.ckks_rescale_into(dst, 0, &b, ScratchOwned::<BE>::alloc(1 << 20).borrow()).ok();
                                    md.ckks_mul_add_pt_const_rnx_into(dst, &a, &crnx, prec, sc.borrow())
                                });
                                run("add_many(3)", md.ckks_add_many_tmp_bytes(), &mut |dst, sc| md.ckks_add_many(dst, &[&a, &b, &a], sc.borrow()));
                                for cnt in [2usize, 3, 4, 5] {
                                    let ins: Vec<&Ct> = (0..cnt).map(|i| if i % 2 == 0 { &a } else { &b }).collect();
                                    let by = md.ckks_mul_many_tmp_bytes(cnt, &dst0, &ctx.tsk_infos);
                                    run(&format!("mul_many({cnt})"), by, &mut |dst, sc| md.ckks_mul_many(dst, &ins, &ctx.tsk, sc.borrow()));
                                    let by = md.ckks_dot_product_ct_tmp_bytes(cnt, &dst0, &ctx.tsk_infos);
                                    run(&format!("dot_product_ct({cnt})"), by, &mut |dst, sc| md.ckks_dot_product_ct(dst, &ins, &ins, &ctx.tsk, sc.borrow()));
                                    let amax: &Ct = if a_limbs >= b_limbs { &a } else { &b };
                                    let by = md.ckks_dot_product_pt_vec_znx_tmp_bytes(&dst0, amax, &prec);
                                    let pts: Vec<&CKKSPlaintextVecZnx<Vec<u8>>> = (0..cnt).map(|_| &pt_znx).collect();
                                    run(&format!("dot_product_pt_vec_znx({cnt})"), by, &mut |dst, sc| md.ckks_dot_product_pt_vec_znx(dst, &ins, &pts, sc.borrow()));
                                    let by = md.ckks_dot_product_pt_vec_rnx_tmp_bytes(&dst0, amax, &prec);
                                    let ptr: Vec<&CKKSPlaintextVecRnx<F>> = (0..cnt).map(|_| &pt_rnx).collect();
                                    run(&format!("dot_product_pt_vec_rnx({cnt})"), by, &mut |dst, sc| md.ckks_dot_product_pt_vec_rnx(dst, &ins, &ptr, prec, sc.borrow()));
                                    let by = md.ckks_dot_product_pt_const_tmp_bytes(&dst0, amax, &prec);
                                    let cs: Vec<&CKKSPlaintextCstRnx<F>> = (0..cnt).map(|_| &crnx).collect();
                                    run(&format!("dot_product_pt_const_rnx({cnt})"), by, &mut |dst, sc| md.ckks_dot_product_pt_const_rnx(dst, &ins, &cs, prec, sc.borrow()));
                                }
                            }
                        }
                    }
                }
                // dot product with unaligned budgets (takes the rescaling branch)
                {
                    let a0 = ctx.encrypt(&raw, d, 3, 3 * p.base2k - d, 3 * p.base2k, &mut big);
                    let mut a1 = ctx.clone_ct(&a0);
                    md.ckks_rescale_assign(&mut a1, 5, big.borrow()).unwrap();
                    for dst_limbs in [1usize, 2, 3] {
                        let dst0 = ctx.alloc_ct(dst_limbs * p.base2k);
                        let by = md.ckks_dot_product_ct_tmp_bytes(2, &dst0, &ctx.tsk_infos);
                        let mut dst = ctx.alloc_ct(dst_limbs * p.base2k);
                        let mut sc = ScratchOwned::<BE>::alloc(by);
                        if let Err(pan) = guard(|| md.ckks_dot_product_ct(&mut dst, &[&a0, &a1], &[&a1, &a0], &ctx.tsk, sc.borrow())) {
                            fails.push(format!("dot_product_ct(2, unaligned budgets) [a.limbs=3 dst.limbs={dst_limbs}] with {by} scratch bytes: PANIC {pan}"));
                        }
                    }
                }
                // encrypt / decrypt
                for limbs in [1usize, 2, limbs_max] {
                    let k = limbs * p.base2k;
                    if k < d + 3 {
                        continue;
                    }
                    let mut ct = ctx.alloc_ct(k);
                    let pt = ctx.encode_znx(&raw, M { d, b: 3.min(k - d) });
                    if roundup(d + 3.min(k - d), p.base2k) > k {
                        continue;
                    }
                    let enc = EncryptionLayout::new_from_default_sigma(GLWELayout {
                        n: p.n.into(),
                        base2k: p.base2k.into(),
                        k: k.into(),
                        rank: Rank(p.rank as u32),
                    })
                    .unwrap();
                    let mut sc = ScratchOwned::<BE>::alloc(md.ckks_encrypt_sk_tmp_bytes(&ct));
                    let mut xa = Source::new([3u8; 32]);
                    let mut xe = Source::new([4u8; 32]);
                    if let Err(pan) = guard(|| md.ckks_encrypt_sk(&mut ct, &pt, &ctx.sk, &enc, &mut xa, &mut xe, sc.borrow())) {
                        fails.push(format!("encrypt_sk [limbs={limbs}] exact scratch: PANIC {pan}"));
                        continue;
                    }
                    let mut sc = ScratchOwned::<BE>::alloc(md.ckks_decrypt_tmp_bytes(&ct));
                    let mut out = CKKSPlaintextVecZnx::alloc(p.n.into(), p.base2k.into(), meta(M { d, b: 3.min(k - d) }));
                    if let Err(pan) = guard(|| md.ckks_decrypt(&mut out, &ct, &ctx.sk, sc.borrow())) {
                        fails.push(format!("decrypt [limbs={limbs}] exact scratch: PANIC {pan}"));
                    }
                }
                fails.sort();
                fails.dedup();
                for f in &fails {
                    println!("FAIL {f}");
                }
                assert!(fails.is_empty(), "{} failures", fails.len());
            }


            /// ckks_compact_limbs_copy keeps the shape (rank) and the value of its input.
            #[test]
            fn t10_compact_limbs_copy_keeps_rank() {
                let p = PP;
                let ctx = Ctx::new(p, &[1]);
                let mut sc = ScratchOwned::<BE>::alloc(1 << 22);
                let d = p.dmin;
                let raw: Vec<C> = (0..ctx.m()).map(|i| (0.1 * i as f64 - 0.3, 0.05 * i as f64)).collect();
                let val = ctx.quantize(&raw, d);
                let ct = ctx.encrypt(&raw, d, 2, 2 * p.base2k - d, 4 * p.base2k, &mut sc);
                let copy = ctx.module.ckks_compact_limbs_copy(&ct).unwrap();
                assert_eq!(copy.size(), 2);
                assert_eq!(mof(&copy), mof(&ct));
                assert_eq!(copy.rank(), ct.rank(), "ckks_compact_limbs_copy changed the rank");
                ctx.check_value("compact_limbs_copy", &copy, &val, p2(-(d as i64)) * 1024.0, &mut sc).unwrap();
                // sibling: the in-place form
                let mut inplace = ctx.clone_ct(&ct);
                ctx.module.ckks_compact_limbs(&mut inplace).unwrap();
                assert_eq!(inplace.rank(), ct.rank());
                ctx.check_value("compact_limbs", &inplace, &val, p2(-(d as i64)) * 1024.0, &mut sc).unwrap();
            }


            /// Plaintexts whose storage is larger than `meta.min_k(base2k)` (allocated from a ciphertext layout).
            #[test]
            fn t11_oversized_plaintext_storage() {
                let p = PP;
                let ctx = Ctx::new(p, &[1]);
                let mut sc = ScratchOwned::<BE>::alloc(1 << 22);
                let mut fails = Vec::new();
                let d = p.dmin;
                let raw: Vec<C> = (0..ctx.m()).map(|i| (0.1 * i as f64 - 0.3, 0.05 * i as f64)).collect();
                let raw2: Vec<C> = (0..ctx.m()).map(|i| (0.3 - 0.07 * i as f64, 0.02 * i as f64)).collect();
                let val = ctx.quantize(&raw, d);
                let val2 = ctx.quantize(&raw2, d);
                for limbs in [3usize, 4, p.kmax / p.base2k] {
                    let k = limbs * p.base2k;
                    let b = k - d;
                    if d + b.min(100) > 120 {
                        continue;
                    }
                    let ct = ctx.encrypt(&raw, d, 2, b, k, &mut sc);
                    // decrypt into a plaintext that has the ciphertext's layout and metadata
                    let mut pt = CKKSPlaintextVecZnx::alloc_from_infos(&ct);
                    let label = format!("decrypt into alloc_from_infos(ct) (ct d={d} b={b} max_k={k})");
                    match guard(|| ctx.module.ckks_decrypt(&mut pt, &ct, &ctx.sk, sc.borrow())) {
                        Err(pan) => fails.push(format!("{label}: PANIC {pan}")),
                        Ok(Err(e)) => fails.push(format!("{label}: Err({e})")),
                        Ok(Ok(())) => match ctx.decode_znx(&pt) {
                            Err(e) => {
                                if d + b <= 127 {
                                    fails.push(format!("{label}: {e}"))
                                }
                            }
                            Ok(got) => {
                                let diff = v_maxdiff(&got, &val);
                                if !(diff <= p2(-(d as i64)) * 1024.0) {
                                    fails.push(format!("{label}: max error {diff:e}"));
                                }
                            }
                        },
                    }
                    // a plaintext with small metadata in a large buffer, used as an operand
                    let mut big_pt = CKKSPlaintextVecZnx::alloc_from_infos(&ct);
                    big_pt.set_meta_checked(meta(M { d, b: 3 })).unwrap();
                    ctx.encode_rnx(&raw2).to_znx(&mut big_pt).unwrap();
                    match ctx.decode_znx(&big_pt) {
                        Ok(got) => {
                            let diff = v_maxdiff(&got, &val2);
                            if !(diff <= p2(-(d as i64)) * 64.0) {
                                fails.push(format!("encode/decode in a {k}-bit buffer with meta (d={d}, b=3): max error {diff:e}"));
                            }
                        }
                        Err(e) => fails.push(format!("decode of oversized plaintext: {e}")),
                    }
                    for form in 0..4 {
                        let mut dst = ctx.clone_ct(&ct);
                        let name = ["add_pt_vec_znx_assign", "sub_pt_vec_znx_assign", "mul_pt_vec_znx_assign", "mul_add_pt_vec_znx_into"][form];
                        let label = format!("{name} with a {k}-bit plaintext buffer holding meta (d={d}, b=3); ct d={d} b={b}");
                        let r = guard(|| match form {
                            0 => ctx.module.ckks_add_pt_vec_znx_assign(&mut dst, &big_pt, sc.borrow()),
                            1 => ctx.module.ckks_sub_pt_vec_znx_assign(&mut dst, &big_pt, sc.borrow()),
                            2 => ctx.module.ckks_mul_pt_vec_znx_assign(&mut dst, &big_pt, sc.borrow()),
                            _ => ctx.module.ckks_mul_add_pt_vec_znx_into(&mut dst, &ct, &big_pt, sc.borrow()),
                        });
                        let want = match form {
                            0 => v_add(&val, &val2),
                            1 => v_sub(&val, &val2),
                            2 => v_mul(&val, &val2),
                            _ => v_add(&val, &v_mul(&val, &val2)),
                        };
                        match r {
                            Err(pan) => fails.push(format!("{label}: PANIC {pan}")),
                            Ok(Err(e)) => println!("note {label}: Err({e})"),
                            Ok(Ok(())) => {
                                if let Err(e) = ctx.check_value(&label, &dst, &want, p2(-(d as i64)) * 16384.0, &mut sc) {
                                    fails.push(e);
                                }
                            }
                        }
                    }
                }
                for f in &fails {
                    println!("FAIL {f}");
                }
                assert!(fails.is_empty(), "{} failures", fails.len());
            }

            /// Argument errors of the composite operations are reported as errors.
            #[test]
            fn t12_composite_argument_errors() {
                let p = PP;
                let ctx = Ctx::new(p, &[1]);
                let md = &ctx.module;
                let mut sc = ScratchOwned::<BE>::alloc(1 << 22);
                let mut fails = Vec::new();
                let d = p.dmin;
                let raw: Vec<C> = (0..ctx.m()).map(|i| (0.1 * i as f64 - 0.3, 0.05 * i as f64)).collect();
                let k = 3 * p.base2k;
                let a = ctx.encrypt(&raw, d, 2, k - d, k, &mut sc);
                let b = ctx.encrypt(&raw, d + 1, 2, k - d - 1, k, &mut sc);
                let empty: Vec<&Ct> = Vec::new();
                let pt = ctx.encode_znx(&raw, M { d, b: 2 });
                let crnx = Ctx::cst_rnx(Some(0.5), None);
                let many: Vec<&Ct> = (0..((1usize << (63 - p.base2k.min(62))).min(1 << 14) + 1)).map(|_| &a).collect();
                let cases: Vec<(&str, Box<dyn FnMut(&mut Ct, &mut ScratchOwned<BE>) -> anyhow::Result<()> + '_>)> = vec![
                    ("add_many(empty)", Box::new(|dst, sc| md.ckks_add_many(dst, &empty, sc.borrow()))),
                    ("mul_many(empty)", Box::new(|dst, sc| md.ckks_mul_many(dst, &empty, &ctx.tsk, sc.borrow()))),
                    ("mul_many(unequal log_delta)", Box::new(|dst, sc| md.ckks_mul_many(dst, &[&a, &b, &a], &ctx.tsk, sc.borrow()))),
                    ("dot_product_ct(empty)", Box::new(|dst, sc| md.ckks_dot_product_ct(dst, &empty, &empty, &ctx.tsk, sc.borrow()))),
                    ("dot_product_ct(2 vs 1)", Box::new(|dst, sc| md.ckks_dot_product_ct(dst, &[&a, &a], &[&b], &ctx.tsk, sc.borrow()))),
                    ("dot_product_pt_vec_znx(2 vs 1)", Box::new(|dst, sc| md.ckks_dot_product_pt_vec_znx(dst, &[&a, &a], &[&pt], sc.borrow()))),
                    ("dot_product_pt_const_rnx(1 vs 2)", Box::new(|dst, sc| md.ckks_dot_product_pt_const_rnx(dst, &[&a], &[&crnx, &crnx], meta(M { d: 4, b: 2 }), sc.borrow()))),
                    ("rotate_into(no key)", Box::new(|dst, sc| md.ckks_rotate_into(dst, &a, 5, &ctx.rot, sc.borrow()))),
                    ("rotate_assign(no key)", Box::new(|dst, sc| md.ckks_rotate_assign(dst, -2, &ctx.rot, sc.borrow()))),
                    ("rescale_into(too much)", Box::new(|dst, sc| md.ckks_rescale_into(dst, k, &a, sc.borrow()))),
                    ("div_pow2_into(too much)", Box::new(|dst, sc| md.ckks_div_pow2_into(dst, &a, k, sc.borrow()))),
                    ("mul_pt_const_rnx_into(log_delta above budget)", Box::new(|dst, sc| md.ckks_mul_pt_const_rnx_into(dst, &a, &crnx, meta(M { d: maxprec(), b: 0 }), sc.borrow()))),
                    ("mul_pt_const_rnx_into(log_delta above scalar precision)", Box::new(|dst, sc| md.ckks_mul_pt_const_rnx_into(dst, &a, &crnx, meta(M { d: maxprec() + 1, b: 0 }), sc.borrow()))),
                    ("add_pt_const_rnx_into(log_delta above scalar precision)", Box::new(|dst, sc| md.ckks_add_pt_const_rnx_into(dst, &a, &crnx, meta(M { d: maxprec() + 1, b: 0 }), sc.borrow()))),
                    ("add_pt_vec_rnx_into(log_delta above scalar precision)", Box::new(|dst, sc| {
                        let r = ctx.encode_rnx(&raw);
                        md.ckks_add_pt_vec_rnx_into(dst, &a, &r, meta(M { d: maxprec() + 1, b: 0 }), sc.borrow())
                    })),
                ];
                for (name, mut f) in cases {
                    let mut dst = ctx.alloc_ct(k);
                    match guard(|| f(&mut dst, &mut sc)) {
                        Err(pan) => fails.push(format!("{name}: PANIC {pan}")),
                        Ok(Ok(())) => {
                            // only the "above budget" case may legitimately succeed when the budget is large enough
                            if name != "mul_pt_const_rnx_into(log_delta above budget)" || maxprec() > k - d {
                                fails.push(format!("{name}: returned Ok"))
                            }
                        }
                        Ok(Err(_)) => {}
                    }
                }
                if p.base2k >= 49 {
                    let mut dst = ctx.alloc_ct(k);
                    match guard(|| md.ckks_add_many(&mut dst, &many, sc.borrow())) {
                        Err(pan) => fails.push(format!("add_many({} terms): PANIC {pan}", many.len())),
                        Ok(Ok(())) => fails.push(format!("add_many({} terms) at base2k={}: returned Ok although the accumulation bound is exceeded", many.len(), p.base2k)),
                        Ok(Err(_)) => {}
                    }
                }
                for f in &fails {
                    println!("FAIL {f}");
                }
                assert!(fails.is_empty(), "{} failures", fails.len());
            }


            /// Full-precision value check (differences are taken in the plaintext scalar type, so this is meaningful for
            /// f128 at log_delta ~ 100): inputs are dyadic rationals for which the f64 model is exact.
            #[test]
            fn t13_full_precision_values() {
                let p = PP;
                let ctx = Ctx::new(p, &all_rots(p));
                let md = &ctx.module;
                let mut sc = ScratchOwned::<BE>::alloc(1 << 23);
                let mut fails = Vec::new();
                let d = p.dmax.min(maxprec() - 8);
                let mm = ctx.m();
                let dy = |i: usize, s: i64| -> C { (((i as i64 * 37 + s) % 101 - 50) as f64 / 128.0, ((i as i64 * 53 + 3 * s) % 89 - 44) as f64 / 128.0) };
                let va: Vec<C> = (0..mm).map(|i| dy(i, 1)).collect();
                let vb: Vec<C> = (0..mm).map(|i| dy(i, 7)).collect();
                let k = p.kmax;
                let b0 = k - d;
                let a = ctx.encrypt(&va, d, 2, b0, k, &mut sc);
                let b = ctx.encrypt(&vb, d, 2, b0, k, &mut sc);
                let cst = (0.375, -0.8125);
                let pt_rnx = ctx.encode_rnx(&vb);
                let pt_znx = ctx.encode_znx(&vb, M { d, b: 2 });
                // decode in F
                let decode_f = |ct: &Ct, sc: &mut ScratchOwned<BE>| -> (Vec<F>, Vec<F>) {
                    let m = mof(ct);
                    let bo = m.b.min(120 - m.d.min(110));
                    let mut pt = CKKSPlaintextVecZnx::alloc(p.n.into(), p.base2k.into(), meta(M { d: m.d.min(maxprec()), b: bo }));
                    md.ckks_decrypt(&mut pt, ct, &ctx.sk, sc.borrow()).unwrap();
                    let mut rnx = CKKSPlaintextVecRnx::<F>::alloc(p.n).unwrap();
                    rnx.decode_from_znx(&pt).unwrap();
                    let mut re = vec![ff(0.0); mm];
                    let mut im = vec![ff(0.0); mm];
                    ctx.enc.decode_reim(&rnx, &mut re, &mut im).unwrap();
                    (re, im)
                };
                let mut check = |name: &str, ct: &Ct, want: &[C], slack_bits: i64, sc: &mut ScratchOwned<BE>| {
                    let (re, im) = decode_f(ct, sc);
                    let mut worst = 0.0f64;
                    for i in 0..mm {
                        let dr = t64((re[i] - ff(want[i].0)).abs());
                        let di = t64((im[i] - ff(want[i].1)).abs());
                        worst = worst.max(dr).max(di);
                    }
                    let md_ = mof(ct);
                    let tol = p2(-(md_.d.min(maxprec()) as i64) + slack_bits);
                    println!("{name}: meta={md_:?} max error 2^{:.1} (tolerance 2^{:.1})", worst.max(1e-300).log2(), tol.log2());
                    if !(worst <= tol) {
                        fails.push(format!("{name}: meta={md_:?} max error 2^{:.1} > 2^{:.1}", worst.log2(), tol.log2()));
                    }
                };
                check("fresh", &a, &va, 12, &mut sc);
                let mut r = ctx.alloc_ct(k);
                md.ckks_add_into(&mut r, &a, &b, sc.borrow()).unwrap();
                check("add_into", &r, &v_add(&va, &vb), 13, &mut sc);
                md.ckks_sub_into(&mut r, &a, &b, sc.borrow()).unwrap();
                check("sub_into", &r, &v_sub(&va, &vb), 13, &mut sc);
                md.ckks_rotate_into(&mut r, &a, 3, &ctx.rot, sc.borrow()).unwrap();
                check("rotate_into", &r, &v_rot(&va, 3), 16, &mut sc);
                md.ckks_conjugate_into(&mut r, &a, &ctx.conj, sc.borrow()).unwrap();
                check("conjugate_into", &r, &v_conj(&va), 16, &mut sc);
                md.ckks_add_pt_const_rnx_into(&mut r, &a, &Ctx::cst_rnx(Some(cst.0), Some(cst.1)), meta(M { d, b: 0 }), sc.borrow()).unwrap();
                check("add_pt_const_rnx_into", &r, &v_addc(&va, cst), 13, &mut sc);
                md.ckks_sub_pt_vec_rnx_into(&mut r, &a, &pt_rnx, meta(M { d, b: 2 }), sc.borrow()).unwrap();
                check("sub_pt_vec_rnx_into", &r, &v_sub(&va, &vb), 13, &mut sc);
                if b0 >= d + 2 {
                    md.ckks_mul_into(&mut r, &a, &b, &ctx.tsk, sc.borrow()).unwrap();
                    check("mul_into", &r, &v_mul(&va, &vb), 18, &mut sc);
                    md.ckks_square_into(&mut r, &a, &ctx.tsk, sc.borrow()).unwrap();
                    check("square_into", &r, &v_mul(&va, &va), 18, &mut sc);
                    md.ckks_mul_pt_vec_znx_into(&mut r, &a, &pt_znx, sc.borrow()).unwrap();
                    check("mul_pt_vec_znx_into", &r, &v_mul(&va, &vb), 18, &mut sc);
                    md.ckks_mul_pt_vec_rnx_into(&mut r, &a, &pt_rnx, meta(M { d, b: 2 }), sc.borrow()).unwrap();
                    check("mul_pt_vec_rnx_into", &r, &v_mul(&va, &vb), 18, &mut sc);
                    md.ckks_mul_pt_const_rnx_into(&mut r, &a, &Ctx::cst_rnx(Some(cst.0), Some(cst.1)), meta(M { d, b: 2 }), sc.borrow()).unwrap();
                    check("mul_pt_const_rnx_into", &r, &v_mulc(&va, cst), 16, &mut sc);
                    let mut acc = ctx.clone_ct(&a);
                    md.ckks_mul_add_ct_into(&mut acc, &a, &b, &ctx.tsk, sc.borrow()).unwrap();
                    check("mul_add_ct_into", &acc, &v_add(&va, &v_mul(&va, &vb)), 18, &mut sc);
                    let mut acc = ctx.clone_ct(&a);
                    md.ckks_mul_sub_pt_const_rnx_into(&mut acc, &b, &Ctx::cst_rnx(Some(cst.0), Some(cst.1)), meta(M { d, b: 2 }), sc.borrow()).unwrap();
                    check("mul_sub_pt_const_rnx_into", &acc, &v_sub(&va, &v_mulc(&vb, cst)), 18, &mut sc);
                    md.ckks_dot_product_ct(&mut r, &[&a, &b], &[&b, &a], &ctx.tsk, sc.borrow()).unwrap();
                    check("dot_product_ct", &r, &v_scale(&v_mul(&va, &vb), 2.0), 19, &mut sc);
                }
                for f in &fails {
                    println!("FAIL {f}");
                }
                assert!(fails.is_empty(), "{} failures", fails.len());
            }


            /// CKKSPlaintextCstRnx::to_znx_at_k: the digits are encoded at `k`, the metadata says log_delta + log_budget.
            #[test]
            fn t14_const_to_znx_at_k_metadata() {
                let p = PP;
                let mut fails = Vec::new();
                let c = Ctx::cst_rnx(Some(0.25), None);
                for d in [p.dmin, p.base2k + 3] {
                    for k in [d + 5, d + 1, d, d - 1, d - 3] {
                        match c.to_znx_at_k(p.base2k.into(), k, d) {
                            Err(_) => {}
                            Ok(z) => {
                                // torus value carried by the digits
                                let digits = z.re().unwrap();
                                let mut v = 0.0f64;
                                for (j, dg) in digits.iter().enumerate() {
                                    v += *dg as f64 * p2(-(((j + 1) * p.base2k) as i64));
                                }
                                // what the metadata claims: value * 2^log_delta / 2^(log_delta+log_budget)
                                let claimed = 0.25 * p2(-(z.log_budget() as i64));
                                if (v - claimed).abs() > p2(-(d as i64 + 2)) {
                                    fails.push(format!(
                                        "to_znx_at_k(k={k}, log_delta={d}) -> Ok with metadata {:?}: digits hold {v:e}, metadata describes {claimed:e}",
                                        mof(&z)
                                    ));
                                }
                            }
                        }
                    }
                }
                for f in &fails {
                    println!("FAIL {f}");
                }
                assert!(fails.is_empty(), "{} failures", fails.len());
            }

            #[test]
            fn random_programs() {
                let mult: u64 = std::env::var("C16_MULT").ok().and_then(|s| s.parse().ok()).unwrap_or(1);
                let r: std::ops::Range<u64> = $seeds;
                run_programs(PP, r.start..r.end * mult, $steps, std::env::var("C16_KNOWN").is_err());
            }
        }
    };
}

c16_suite!(
    mod fft64_f64,
    be = poulpy_cpu_ref::FFT64Ref,
    f = f64,
    p = P {
        n: 16,
        base2k: 19,
        kmax: 8 * 19,
        dsize: 1,
        hw: 8,
        rank: 1,
        dmin: 22,
        dmax: 40
    },
    seeds = 0..40,
    steps = 120
);

c16_suite!(
    mod ntt120_f64,
    be = poulpy_cpu_ref::NTT120Ref,
    f = f64,
    p = P {
        n: 16,
        base2k: 52,
        kmax: 6 * 52,
        dsize: 1,
        hw: 8,
        rank: 1,
        dmin: 25,
        dmax: 50
    },
    seeds = 0..40,
    steps = 120
);

c16_suite!(
    mod ntt120_f128,
    be = poulpy_cpu_ref::NTT120Ref,
    f = f128::f128,
    p = P {
        n: 16,
        base2k: 52,
        kmax: 8 * 52,
        dsize: 1,
        hw: 8,
        rank: 1,
        dmin: 40,
        dmax: 100
    },
    seeds = 0..25,
    steps = 120
);

c16_suite!(
    mod fft64_f64_n64_b17,
    be = poulpy_cpu_ref::FFT64Ref,
    f = f64,
    p = P {
        n: 64,
        base2k: 17,
        kmax: 10 * 17,
        dsize: 2,
        hw: 32,
        rank: 1,
        dmin: 24,
        dmax: 45
    },
    seeds = 0..15,
    steps = 120
);

c16_suite!(
    mod ntt120_f64_n8_b40,
    be = poulpy_cpu_ref::NTT120Ref,
    f = f64,
    p = P {
        n: 8,
        base2k: 40,
        kmax: 8 * 40,
        dsize: 2,
        hw: 4,
        rank: 1,
        dmin: 20,
        dmax: 52
    },
    seeds = 0..30,
    steps = 120
);

c16_suite!(
    mod fft64_f64_rank2,
    be = poulpy_cpu_ref::FFT64Ref,
    f = f64,
    p = P {
        n: 16,
        base2k: 19,
        kmax: 8 * 19,
        dsize: 1,
        hw: 8,
        rank: 2,
        dmin: 22,
        dmax: 40
    },
    seeds = 0..20,
    steps = 120
);

c16_suite!(
    mod ntt120_f64_rank2,
    be = poulpy_cpu_ref::NTT120Ref,
    f = f64,
    p = P {
        n: 16,
        base2k: 52,
        kmax: 6 * 52,
        dsize: 1,
        hw: 8,
        rank: 2,
        dmin: 25,
        dmax: 50
    },
    seeds = 0..20,
    steps = 120
);
