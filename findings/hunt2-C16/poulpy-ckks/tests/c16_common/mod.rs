//! Backend-independent pieces of the C16 audit harness: RNG, complex slot model and the metadata model.
#![allow(dead_code)]

#[derive(Clone, Copy, Debug)]
pub struct P {
    pub n: usize,
    pub base2k: usize,
    /// Largest ciphertext precision used (keys are one digit above it).
    pub kmax: usize,
    pub dsize: usize,
    pub hw: usize,
    pub rank: usize,
    /// Range of log_delta used for fresh values.
    pub dmin: usize,
    pub dmax: usize,
}

pub struct Rng(pub u64);

impl Rng {
    pub fn next(&mut self) -> u64 {
        self.0 = self.0.wrapping_add(0x9E37_79B9_7F4A_7C15);
        let mut z = self.0;
        z = (z ^ (z >> 30)).wrapping_mul(0xBF58_476D_1CE4_E5B9);
        z = (z ^ (z >> 27)).wrapping_mul(0x94D0_49BB_1331_11EB);
        z ^ (z >> 31)
    }
    pub fn below(&mut self, n: usize) -> usize {
        if n == 0 { 0 } else { (self.next() % n as u64) as usize }
    }
    /// inclusive range
    pub fn range(&mut self, lo: usize, hi: usize) -> usize {
        if hi <= lo { lo } else { lo + self.below(hi - lo + 1) }
    }
    pub fn unit(&mut self) -> f64 {
        (self.next() >> 11) as f64 / (1u64 << 53) as f64
    }
    pub fn sym(&mut self) -> f64 {
        2.0 * self.unit() - 1.0
    }
    pub fn coin(&mut self, p: f64) -> bool {
        self.unit() < p
    }
}

pub type C = (f64, f64);

pub fn c_add(a: C, b: C) -> C {
    (a.0 + b.0, a.1 + b.1)
}
pub fn c_sub(a: C, b: C) -> C {
    (a.0 - b.0, a.1 - b.1)
}
pub fn c_mul(a: C, b: C) -> C {
    (a.0 * b.0 - a.1 * b.1, a.0 * b.1 + a.1 * b.0)
}
pub fn c_abs(a: C) -> f64 {
    (a.0 * a.0 + a.1 * a.1).sqrt()
}
pub fn v_add(a: &[C], b: &[C]) -> Vec<C> {
    a.iter().zip(b).map(|(x, y)| c_add(*x, *y)).collect()
}
pub fn v_sub(a: &[C], b: &[C]) -> Vec<C> {
    a.iter().zip(b).map(|(x, y)| c_sub(*x, *y)).collect()
}
pub fn v_mul(a: &[C], b: &[C]) -> Vec<C> {
    a.iter().zip(b).map(|(x, y)| c_mul(*x, *y)).collect()
}
pub fn v_neg(a: &[C]) -> Vec<C> {
    a.iter().map(|x| (-x.0, -x.1)).collect()
}
pub fn v_conj(a: &[C]) -> Vec<C> {
    a.iter().map(|x| (x.0, -x.1)).collect()
}
pub fn v_scale(a: &[C], s: f64) -> Vec<C> {
    a.iter().map(|x| (x.0 * s, x.1 * s)).collect()
}
pub fn v_addc(a: &[C], c: C) -> Vec<C> {
    a.iter().map(|x| c_add(*x, c)).collect()
}
pub fn v_subc(a: &[C], c: C) -> Vec<C> {
    a.iter().map(|x| c_sub(*x, c)).collect()
}
pub fn v_mulc(a: &[C], c: C) -> Vec<C> {
    a.iter().map(|x| c_mul(*x, c)).collect()
}
pub fn v_rot(a: &[C], k: i64) -> Vec<C> {
    let m = a.len() as i64;
    (0..m).map(|j| a[(j + k).rem_euclid(m) as usize]).collect()
}
pub fn v_max(a: &[C]) -> f64 {
    a.iter().map(|x| c_abs(*x)).fold(0.0, f64::max)
}
pub fn v_maxdiff(a: &[C], b: &[C]) -> f64 {
    a.iter().zip(b).map(|(x, y)| c_abs(c_sub(*x, *y))).fold(0.0, f64::max)
}

pub fn p2(e: i64) -> f64 {
    (e as f64).exp2()
}

/// Metadata model.
#[derive(Clone, Copy, Debug, PartialEq, Eq)]
pub struct M {
    pub d: usize,
    pub b: usize,
}

impl M {
    pub fn eff(&self) -> usize {
        self.d + self.b
    }
}

pub fn off(eff: usize, k: usize) -> usize {
    eff.saturating_sub(k)
}

/// Any operation that copies `s` into a destination of `k` bits.
pub fn e_unary(s: M, k: usize) -> Option<M> {
    let o = off(s.eff(), k);
    s.b.checked_sub(o).map(|b| M { d: s.d, b })
}

/// ct +/- ct into a destination of k bits (as implemented: the offset is taken from the smaller effective precision).
pub fn e_addsub_into(a: M, b: M, k: usize) -> Option<M> {
    let o = off(a.eff().min(b.eff()), k);
    a.b.min(b.b).checked_sub(o).map(|bb| M { d: a.d.min(b.d), b: bb })
}

/// What the result of an addition needs at least.
pub fn e_addsub_ideal(a: M, b: M, k: usize) -> Option<M> {
    let d = a.d.min(b.d);
    let bb = a.b.min(b.b);
    let o = off(d + bb, k);
    bb.checked_sub(o).map(|bb| M { d, b: bb })
}

pub fn e_addsub_assign(dst: M, a: M) -> M {
    M {
        d: dst.d.min(a.d),
        b: dst.b.min(a.b),
    }
}

pub fn e_mul_ct(a: M, b: M, k: usize) -> Option<M> {
    let rb = a.b.min(b.b).checked_sub(a.d.max(b.d))?;
    let d = a.d.min(b.d);
    let o = off(rb + d, k);
    Some(M { d, b: rb.checked_sub(o)? })
}

pub fn e_mul_pt(a: M, pt_d: usize, k: usize) -> Option<M> {
    let rb = a.b.checked_sub(pt_d)?;
    let o = off(rb + a.d, k);
    Some(M {
        d: a.d,
        b: rb.checked_sub(o)?,
    })
}

pub fn e_rescale_into(s: M, by: usize, k: usize) -> Option<M> {
    let b = s.b.checked_sub(by)?;
    let o = off(s.d + b, k);
    Some(M {
        d: s.d,
        b: b.checked_sub(o)?,
    })
}

pub fn e_div_pow2_into(s: M, bits: usize, k: usize) -> Option<M> {
    let o = off(s.eff(), k);
    let b = s.b.checked_sub(bits + o)?;
    Some(M { d: s.d + bits, b })
}

/// Adding a vector plaintext (log_delta `pt_d`, storage `pt_maxk` bits) onto a ciphertext with metadata `after`.
pub fn e_add_pt_vec(after: M, pt_d: usize, pt_maxk: usize) -> Option<M> {
    if after.b + pt_d < pt_maxk { None } else { Some(after) }
}

pub fn ceil_log2(n: usize) -> usize {
    if n <= 1 { 0 } else { (n - 1).ilog2() as usize + 1 }
}

pub fn roundup(k: usize, base2k: usize) -> usize {
    k.div_ceil(base2k) * base2k
}

/// ckks_mul_many on inputs with equal log_delta into a destination of k bits.
pub fn e_mul_many(inputs: &[M], k: usize, base2k: usize) -> Option<M> {
    match inputs.len() {
        0 => None,
        1 => e_unary(inputs[0], k),
        2 => e_mul_ct(inputs[0], inputs[1], k),
        _ => {
            let mid = inputs.len() / 2;
            let (l, r) = inputs.split_at(mid);
            let d = inputs[0].d;
            let lk = l.iter().map(|m| m.eff()).min().unwrap().saturating_sub(ceil_log2(l.len()) * d);
            let rk = r.iter().map(|m| m.eff()).min().unwrap().saturating_sub(ceil_log2(r.len()) * d);
            let lm = e_mul_many(l, roundup(lk, base2k), base2k)?;
            let rm = e_mul_many(r, roundup(rk, base2k), base2k)?;
            e_mul_ct(lm, rm, k)
        }
    }
}
