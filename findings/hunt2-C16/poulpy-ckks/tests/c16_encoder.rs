//! Slot encoder on small sizes: encode followed by decode is the identity, and the packing is the
//! evaluation map p -> p(zeta^(5^k)).
use poulpy_ckks::{encoding::Encoder, layouts::CKKSPlaintextVecRnx};
use std::panic::{AssertUnwindSafe, catch_unwind};

fn eval_slots(coeffs: &[f64], m: usize) -> Vec<(f64, f64)> {
    // p(X) with real coefficients of degree < 2m evaluated at zeta^(5^k), zeta = exp(i*pi/(2m))
    let n = 2 * m;
    let mut out = Vec::new();
    let mut e: u64 = 1;
    for _ in 0..m {
        let (mut re, mut im) = (0.0, 0.0);
        for (j, c) in coeffs.iter().enumerate() {
            let ang = std::f64::consts::PI * ((e as usize * j) % (2 * n)) as f64 / n as f64;
            re += c * ang.cos();
            im += c * ang.sin();
        }
        out.push((re, im));
        e = (e * 5) % (2 * n as u64);
    }
    out
}

#[test]
fn encoder_roundtrip_and_evaluation_map() {
    let mut fails = Vec::new();
    for m in [1usize, 2, 4, 8, 16, 64] {
        let r = catch_unwind(AssertUnwindSafe(|| {
            let enc = Encoder::<f64>::new(m).unwrap();
            let re: Vec<f64> = (0..m).map(|i| 0.3 + 0.11 * i as f64).collect();
            let im: Vec<f64> = (0..m).map(|i| -0.2 + 0.07 * i as f64).collect();
            let mut pt = CKKSPlaintextVecRnx::<f64>::alloc(2 * m).unwrap();
            enc.encode_reim(&mut pt, &re, &im).unwrap();
            let mut re2 = vec![0.0; m];
            let mut im2 = vec![0.0; m];
            enc.decode_reim(&pt, &mut re2, &mut im2).unwrap();
            let mut err: f64 = 0.0;
            for i in 0..m {
                err = err.max((re[i] - re2[i]).abs()).max((im[i] - im2[i]).abs());
            }
            let ev = eval_slots(pt.data(), m);
            let mut err_ev: f64 = 0.0;
            for i in 0..m {
                err_ev = err_ev.max((re[i] - ev[i].0).abs()).max((im[i] - ev[i].1).abs());
            }
            (err, err_ev)
        }));
        match r {
            Err(p) => {
                let msg = p
                    .downcast_ref::<String>()
                    .cloned()
                    .or_else(|| p.downcast_ref::<&str>().map(|s| s.to_string()))
                    .unwrap_or_default();
                fails.push(format!("m={m}: PANIC {msg}"));
            }
            Ok((err, err_ev)) => {
                println!("m={m}: roundtrip err {err:e}, evaluation-map err {err_ev:e}");
                if err > 1e-12 {
                    fails.push(format!("m={m}: roundtrip error {err:e}"));
                }
                if err_ev > 1e-10 {
                    fails.push(format!("m={m}: decode(encode) is the identity but the packing is not the evaluation at zeta^(5^k): {err_ev:e}"));
                }
            }
        }
    }
    for f in &fails {
        println!("FAIL {f}");
    }
    assert!(fails.is_empty());
}
