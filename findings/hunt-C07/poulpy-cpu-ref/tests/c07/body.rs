// Shared body of the C07 exactness suite (DFT-domain products == exact negacyclic convolution).
// Included with `include!` by the per-crate test files, which then instantiate `c07_suite!`.
//
// Every check compares a library result, brought back to the coefficient domain, against an exact
// i128 schoolbook model of Z[X,Y]/(X^N+1).

use poulpy_hal::{
    api::*,
    layouts::{
        Backend, CnvPVecL, CnvPVecR, DataViewMut, DeviceBuf, MatZnx, Module, ScalarZnx, ScratchOwned, SvpPPol, VecZnx, VecZnxBig,
        VecZnxDft, VmpPMat, ZnxInfos, ZnxView, ZnxViewMut,
    },
};

// ───────────────────────────── deterministic rng ─────────────────────────────

pub struct Rng(pub u64);
impl Rng {
    pub fn next(&mut self) -> u64 {
        self.0 = self.0.wrapping_add(0x9E37_79B9_7F4A_7C15);
        let mut z = self.0;
        z = (z ^ (z >> 30)).wrapping_mul(0xBF58_476D_1CE4_E5B9);
        z = (z ^ (z >> 27)).wrapping_mul(0x94D0_49BB_1331_11EB);
        z ^ (z >> 31)
    }
    pub fn below(&mut self, n: usize) -> usize {
        (self.next() % n as u64) as usize
    }
}

#[derive(Clone, Copy, Debug, PartialEq, Eq)]
pub enum Class {
    Random,
    ExtPos,
    ExtNeg,
    ExtAlt,
    Sparse,
    Zero,
}

pub const CLASSES: [Class; 6] = [Class::Random, Class::ExtPos, Class::ExtNeg, Class::ExtAlt, Class::Sparse, Class::Zero];

/// Fills one polynomial with digits of `k` bits (two's complement range [-2^(k-1), 2^(k-1)-1]).
pub fn fill_poly(p: &mut [i64], class: Class, k: usize, rng: &mut Rng) {
    let hi: i64 = (1i64 << (k - 1)) - 1;
    let lo: i64 = -(1i64 << (k - 1));
    match class {
        Class::Random => {
            for x in p.iter_mut() {
                let r = rng.next();
                *x = ((r << (64 - k)) as i64) >> (64 - k);
            }
        }
        Class::ExtPos => p.fill(hi),
        Class::ExtNeg => p.fill(lo),
        Class::ExtAlt => {
            for (i, x) in p.iter_mut().enumerate() {
                *x = if i % 2 == 0 { hi } else { lo };
            }
        }
        Class::Sparse => {
            p.fill(0);
            let n = p.len();
            for _ in 0..3 {
                let i = rng.below(n);
                p[i] = if rng.next() & 1 == 0 { hi } else { lo };
            }
        }
        Class::Zero => p.fill(0),
    }
}

pub fn fill_vec_znx(a: &mut VecZnx<Vec<u8>>, class: Class, k: usize, rng: &mut Rng) {
    for c in 0..a.cols() {
        for j in 0..a.size() {
            fill_poly(a.at_mut(c, j), class, k, rng);
        }
    }
}

/// Exact negacyclic product in Z[X]/(X^N+1).
pub fn negmul(a: &[i64], b: &[i64]) -> Vec<i128> {
    let n = a.len();
    assert_eq!(b.len(), n);
    let mut r = vec![0i128; n];
    for i in 0..n {
        if a[i] == 0 {
            continue;
        }
        for j in 0..n {
            let p = a[i] as i128 * b[j] as i128;
            if i + j < n {
                r[i + j] += p;
            } else {
                r[i + j - n] -= p;
            }
        }
    }
    r
}

pub fn add_assign_i128(r: &mut [i128], a: &[i128]) {
    for (x, y) in r.iter_mut().zip(a) {
        *x += *y;
    }
}

pub fn to_i128(a: &[i64]) -> Vec<i128> {
    a.iter().map(|&x| x as i128).collect()
}

pub fn dirty(bytes: &mut [u8], rng: &mut Rng) {
    for b in bytes.iter_mut() {
        *b = rng.next() as u8;
    }
}

pub fn first_diff(have: &[i128], want: &[i128]) -> Option<(usize, i128, i128)> {
    have.iter().zip(want).enumerate().find(|(_, (h, w))| h != w).map(|(i, (h, w))| (i, *h, *w))
}

macro_rules! c07_suite {
    ($modname:ident, $BE:ty, $K:expr) => {
        mod $modname {
            use super::*;
            type BE = $BE;
            const K: usize = $K;

            type DftOwned = VecZnxDft<DeviceBuf<BE>, BE>;
            type BigOwned = VecZnxBig<DeviceBuf<BE>, BE>;

            fn big_limb<D: poulpy_hal::layouts::DataRef>(b: &VecZnxBig<D, BE>, col: usize, limb: usize) -> Vec<i128> {
                b.at(col, limb).iter().map(|&x| x as i128).collect()
            }

            fn dirty_dft(d: &mut DftOwned, rng: &mut Rng) {
                // Dirty but finite/valid: random bytes may form NaNs for f64, which is fine for buffers that must be overwritten.
                dirty(d.data_mut().as_mut(), rng);
            }

            fn dirty_big(d: &mut BigOwned, rng: &mut Rng) {
                dirty(d.data_mut().as_mut(), rng);
            }

            /// idft of column `col` of `d` through the non-destructive form, returns limbs as i128 vectors.
            fn idft_col(module: &Module<BE>, d: &DftOwned, col: usize, rng: &mut Rng) -> Vec<Vec<i128>> {
                let size = d.size();
                let mut big: BigOwned = module.vec_znx_big_alloc(1, size);
                dirty_big(&mut big, rng);
                let mut scratch: ScratchOwned<BE> = ScratchOwned::alloc(module.vec_znx_idft_apply_tmp_bytes());
                dirty(scratch.data.as_mut(), rng);
                module.vec_znx_idft_apply(&mut big, 0, d, col, scratch.borrow());
                (0..size).map(|j| big_limb(&big, 0, j)).collect()
            }

            fn check_limbs(ctx: &str, have: &[Vec<i128>], want: &[Vec<i128>]) -> Result<(), String> {
                if have.len() != want.len() {
                    return Err(format!("{ctx}: limb count {} != {}", have.len(), want.len()));
                }
                for (j, (h, w)) in have.iter().zip(want).enumerate() {
                    if let Some((i, hv, wv)) = first_diff(h, w) {
                        return Err(format!("{ctx}: limb {j} coeff {i}: have {hv} want {wv}"));
                    }
                }
                Ok(())
            }

            fn report(name: &str, fails: Vec<String>, total: usize) {
                if !fails.is_empty() {
                    let limit: usize = std::env::var("C07_MAX_FAILS").ok().and_then(|v| v.parse().ok()).unwrap_or(25);
                    for f in fails.iter().take(limit) {
                        eprintln!("FAIL {f}");
                    }
                    panic!("{name}: {} / {} cases failed", fails.len(), total);
                }
                eprintln!("{name}: {total} cases ok");
            }

            // ───────────────────────── T1: dft ∘ idft = limb selection ─────────────────────────

            #[test]
            fn t1_roundtrip_select() {
                let mut rng = Rng(1);
                let mut fails = Vec::new();
                let mut total = 0;
                for &n in &[8usize, 16, 64] {
                    let module: Module<BE> = Module::<BE>::new(n as u64);
                    for a_size in 1..=6usize {
                        for res_size in 1..=6usize {
                            for step in 1..=4usize {
                                for offset in 0..=a_size + 1 {
                                    let class = CLASSES[total % CLASSES.len()];
                                    total += 1;
                                    let cols = 2;
                                    let a_col = total % cols;
                                    let res_col = (total / 2) % cols;
                                    let mut a: VecZnx<Vec<u8>> = VecZnx::alloc(n, cols, a_size);
                                    fill_vec_znx(&mut a, Class::Random, K, &mut rng);
                                    for j in 0..a_size {
                                        fill_poly(a.at_mut(a_col, j), class, K, &mut rng);
                                    }
                                    let mut d: DftOwned = module.vec_znx_dft_alloc(cols, res_size);
                                    dirty_dft(&mut d, &mut rng);
                                    module.vec_znx_dft_apply(step, offset, &mut d, res_col, &a, a_col);

                                    let want: Vec<Vec<i128>> = (0..res_size)
                                        .map(|j| {
                                            let limb = offset + j * step;
                                            if limb < a_size { to_i128(a.at(a_col, limb)) } else { vec![0i128; n] }
                                        })
                                        .collect();
                                    let ctx = format!(
                                        "dft_apply n={n} a_size={a_size} res_size={res_size} step={step} offset={offset} {class:?}"
                                    );
                                    // (a) non destructive idft
                                    let have = idft_col(&module, &d, res_col, &mut rng);
                                    if let Err(e) = check_limbs(&format!("{ctx} [idft_apply]"), &have, &want) {
                                        fails.push(e);
                                    }
                                    // (b) res smaller / larger than the dft vector
                                    for big_size in [1usize, res_size + 2] {
                                        let mut big: BigOwned = module.vec_znx_big_alloc(2, big_size);
                                        dirty_big(&mut big, &mut rng);
                                        let mut d2: DftOwned = module.vec_znx_dft_alloc(cols, res_size);
                                        d2.data_mut().as_mut().copy_from_slice(d.data.as_ref());
                                        module.vec_znx_idft_apply_tmpa(&mut big, 1, &mut d2, res_col);
                                        let have: Vec<Vec<i128>> = (0..big_size).map(|j| big_limb(&big, 1, j)).collect();
                                        let want2: Vec<Vec<i128>> = (0..big_size)
                                            .map(|j| if j < res_size { want[j].clone() } else { vec![0i128; n] })
                                            .collect();
                                        if let Err(e) = check_limbs(&format!("{ctx} [idft_tmpa big_size={big_size}]"), &have, &want2) {
                                            fails.push(e);
                                        }
                                    }
                                    // (c) consume: make the other column well defined first
                                    let other = 1 - res_col;
                                    module.vec_znx_dft_apply(1, 0, &mut d, other, &a, other);
                                    let big = module.vec_znx_idft_apply_consume(d);
                                    let have: Vec<Vec<i128>> = (0..res_size).map(|j| big_limb(&big, res_col, j)).collect();
                                    if let Err(e) = check_limbs(&format!("{ctx} [idft_consume]"), &have, &want) {
                                        fails.push(e);
                                    }
                                    let have_o: Vec<Vec<i128>> = (0..res_size).map(|j| big_limb(&big, other, j)).collect();
                                    let want_o: Vec<Vec<i128>> = (0..res_size)
                                        .map(|j| if j < a_size { to_i128(a.at(other, j)) } else { vec![0i128; n] })
                                        .collect();
                                    if let Err(e) = check_limbs(&format!("{ctx} [idft_consume other col]"), &have_o, &want_o) {
                                        fails.push(e);
                                    }
                                }
                            }
                        }
                    }
                }
                report("t1_roundtrip_select", fails, total);
            }

            // ───────────────────────── T2: dft-domain limb-wise arithmetic ─────────────────────────

            fn dft_of(module: &Module<BE>, a: &VecZnx<Vec<u8>>, rng: &mut Rng) -> DftOwned {
                let mut d: DftOwned = module.vec_znx_dft_alloc(a.cols(), a.size());
                dirty_dft(&mut d, rng);
                for c in 0..a.cols() {
                    module.vec_znx_dft_apply(1, 0, &mut d, c, a, c);
                }
                d
            }

            fn limb_or_zero(a: &VecZnx<Vec<u8>>, col: usize, j: isize) -> Vec<i128> {
                if j >= 0 && (j as usize) < a.size() {
                    to_i128(a.at(col, j as usize))
                } else {
                    vec![0i128; a.n()]
                }
            }

            #[test]
            fn t2_dft_arith() {
                let mut rng = Rng(2);
                let mut fails = Vec::new();
                let mut total = 0;
                let n = 8usize;
                let module: Module<BE> = Module::<BE>::new(n as u64);
                for a_size in 1..=6usize {
                    for b_size in 1..=6usize {
                        for res_size in 1..=6usize {
                            let class = CLASSES[total % CLASSES.len()];
                            total += 1;
                            let cols = 2;
                            let (ac, bc, rc) = (total % 2, (total / 2) % 2, (total / 4) % 2);
                            let mut a: VecZnx<Vec<u8>> = VecZnx::alloc(n, cols, a_size);
                            let mut b: VecZnx<Vec<u8>> = VecZnx::alloc(n, cols, b_size);
                            let mut r0: VecZnx<Vec<u8>> = VecZnx::alloc(n, cols, res_size);
                            fill_vec_znx(&mut a, class, K, &mut rng);
                            fill_vec_znx(&mut b, if class == Class::Zero { Class::Random } else { class }, K, &mut rng);
                            fill_vec_znx(&mut r0, Class::Random, K, &mut rng);
                            let a_dft = dft_of(&module, &a, &mut rng);
                            let b_dft = dft_of(&module, &b, &mut rng);
                            let ctx = format!("n={n} a_size={a_size} b_size={b_size} res_size={res_size} {class:?}");

                            let comb = |f: &dyn Fn(i128, i128, i128) -> i128, aj: &dyn Fn(usize) -> isize| -> Vec<Vec<i128>> {
                                (0..res_size)
                                    .map(|j| {
                                        let al = limb_or_zero(&a, ac, aj(j));
                                        let bl = limb_or_zero(&b, bc, j as isize);
                                        let rl = limb_or_zero(&r0, rc, j as isize);
                                        (0..n).map(|i| f(al[i], bl[i], rl[i])).collect()
                                    })
                                    .collect()
                            };
                            let id = |j: usize| j as isize;

                            // add_into / sub (overwrite a dirty res)
                            {
                                let mut r: DftOwned = module.vec_znx_dft_alloc(cols, res_size);
                                dirty_dft(&mut r, &mut rng);
                                module.vec_znx_dft_add_into(&mut r, rc, &a_dft, ac, &b_dft, bc);
                                let have = idft_col(&module, &r, rc, &mut rng);
                                if let Err(e) = check_limbs(&format!("dft_add_into {ctx}"), &have, &comb(&|x, y, _| x + y, &id)) {
                                    fails.push(e);
                                }
                                dirty_dft(&mut r, &mut rng);
                                module.vec_znx_dft_sub(&mut r, rc, &a_dft, ac, &b_dft, bc);
                                let have = idft_col(&module, &r, rc, &mut rng);
                                if let Err(e) = check_limbs(&format!("dft_sub {ctx}"), &have, &comb(&|x, y, _| x - y, &id)) {
                                    fails.push(e);
                                }
                                dirty_dft(&mut r, &mut rng);
                                module.vec_znx_dft_zero(&mut r, rc);
                                let have = idft_col(&module, &r, rc, &mut rng);
                                if let Err(e) = check_limbs(&format!("dft_zero {ctx}"), &have, &comb(&|_, _, _| 0, &id)) {
                                    fails.push(e);
                                }
                            }
                            // in-place forms on res = dft(r0)
                            {
                                let mut r = dft_of(&module, &r0, &mut rng);
                                module.vec_znx_dft_add_assign(&mut r, rc, &a_dft, ac);
                                let have = idft_col(&module, &r, rc, &mut rng);
                                if let Err(e) = check_limbs(&format!("dft_add_assign {ctx}"), &have, &comb(&|x, _, z| z + x, &id)) {
                                    fails.push(e);
                                }
                                // untouched other column
                                let have = idft_col(&module, &r, 1 - rc, &mut rng);
                                let want: Vec<Vec<i128>> = (0..res_size).map(|j| to_i128(r0.at(1 - rc, j))).collect();
                                if let Err(e) = check_limbs(&format!("dft_add_assign other col {ctx}"), &have, &want) {
                                    fails.push(e);
                                }
                                let mut r = dft_of(&module, &r0, &mut rng);
                                module.vec_znx_dft_sub_assign(&mut r, rc, &a_dft, ac);
                                let have = idft_col(&module, &r, rc, &mut rng);
                                if let Err(e) = check_limbs(&format!("dft_sub_assign {ctx}"), &have, &comb(&|x, _, z| z - x, &id)) {
                                    fails.push(e);
                                }
                                let mut r = dft_of(&module, &r0, &mut rng);
                                module.vec_znx_dft_sub_negate_assign(&mut r, rc, &a_dft, ac);
                                let have = idft_col(&module, &r, rc, &mut rng);
                                if let Err(e) =
                                    check_limbs(&format!("dft_sub_negate_assign {ctx}"), &have, &comb(&|x, _, z| x - z, &id))
                                {
                                    fails.push(e);
                                }
                                if b_size == 1 {
                                    for scale in -7i64..=7 {
                                        let mut r = dft_of(&module, &r0, &mut rng);
                                        module.vec_znx_dft_add_scaled_assign(&mut r, rc, &a_dft, ac, scale);
                                        let have = idft_col(&module, &r, rc, &mut rng);
                                        let sh = |j: usize| j as isize + scale as isize;
                                        if let Err(e) = check_limbs(
                                            &format!("dft_add_scaled_assign scale={scale} {ctx}"),
                                            &have,
                                            &comb(&|x, _, z| z + x, &sh),
                                        ) {
                                            fails.push(e);
                                        }
                                    }
                                }
                            }
                            // copy with (step, offset)
                            if b_size <= 4 {
                                let step = b_size;
                                for offset in 0..=a_size + 1 {
                                    let mut r: DftOwned = module.vec_znx_dft_alloc(cols, res_size);
                                    dirty_dft(&mut r, &mut rng);
                                    module.vec_znx_dft_copy(step, offset, &mut r, rc, &a_dft, ac);
                                    let have = idft_col(&module, &r, rc, &mut rng);
                                    let sel = |j: usize| {
                                        let l = offset + j * step;
                                        if l < a_size { l as isize } else { -1 }
                                    };
                                    if let Err(e) = check_limbs(
                                        &format!("dft_copy step={step} offset={offset} {ctx}"),
                                        &have,
                                        &comb(&|x, _, _| x, &sel),
                                    ) {
                                        fails.push(e);
                                    }
                                }
                            }
                        }
                    }
                }
                report("t2_dft_arith", fails, total);
            }

            // ───────────────────────── T3: scalar-vector products ─────────────────────────

            #[test]
            fn t3_svp() {
                let mut rng = Rng(3);
                let mut fails = Vec::new();
                let mut total = 0;
                for &n in &[8usize, 16, 32] {
                    let module: Module<BE> = Module::<BE>::new(n as u64);
                    for b_size in 1..=6usize {
                        for res_size in 1..=6usize {
                            for (ci, &class) in CLASSES.iter().enumerate() {
                                total += 1;
                                let cols = 2;
                                let (sc, bc, rc) = (total % 2, (total / 2) % 2, (total / 4) % 2);
                                let mut s: ScalarZnx<Vec<u8>> = ScalarZnx::alloc(n, cols);
                                for c in 0..cols {
                                    fill_poly(s.at_mut(c, 0), CLASSES[(ci + c) % CLASSES.len()], K, &mut rng);
                                }
                                fill_poly(s.at_mut(sc, 0), class, K, &mut rng);
                                let mut b: VecZnx<Vec<u8>> = VecZnx::alloc(n, cols, b_size);
                                fill_vec_znx(&mut b, if class == Class::Zero { Class::Random } else { class }, K, &mut rng);

                                let mut ppol: SvpPPol<DeviceBuf<BE>, BE> = module.svp_ppol_alloc(cols);
                                dirty(ppol.data_mut().as_mut(), &mut rng);
                                for c in 0..cols {
                                    module.svp_prepare(&mut ppol, c, &s, c);
                                }
                                let want: Vec<Vec<i128>> = (0..res_size)
                                    .map(|j| if j < b_size { negmul(s.at(sc, 0), b.at(bc, j)) } else { vec![0i128; n] })
                                    .collect();
                                let ctx = format!("n={n} b_size={b_size} res_size={res_size} {class:?}");

                                let mut r: DftOwned = module.vec_znx_dft_alloc(cols, res_size);
                                dirty_dft(&mut r, &mut rng);
                                module.svp_apply_dft(&mut r, rc, &ppol, sc, &b, bc);
                                let have = idft_col(&module, &r, rc, &mut rng);
                                if let Err(e) = check_limbs(&format!("svp_apply_dft {ctx}"), &have, &want) {
                                    fails.push(e);
                                }

                                let b_dft = dft_of(&module, &b, &mut rng);
                                dirty_dft(&mut r, &mut rng);
                                module.svp_apply_dft_to_dft(&mut r, rc, &ppol, sc, &b_dft, bc);
                                let have = idft_col(&module, &r, rc, &mut rng);
                                if let Err(e) = check_limbs(&format!("svp_apply_dft_to_dft {ctx}"), &have, &want) {
                                    fails.push(e);
                                }

                                let mut r2 = dft_of(&module, &b, &mut rng);
                                module.svp_apply_dft_to_dft_assign(&mut r2, bc, &ppol, sc);
                                let have = idft_col(&module, &r2, bc, &mut rng);
                                let want2: Vec<Vec<i128>> = (0..b_size).map(|j| negmul(s.at(sc, 0), b.at(bc, j))).collect();
                                if let Err(e) = check_limbs(&format!("svp_apply_dft_to_dft_assign {ctx}"), &have, &want2) {
                                    fails.push(e);
                                }
                            }
                        }
                    }
                }
                report("t3_svp", fails, total);
            }

            // ───────────────────────── T4: vector-matrix products ─────────────────────────

            /// want[col_out][j] = Σ_{r < min(a_size, rows)} Σ_{ci} a[ci][r] * mat[r][ci][col_out][j + limb_offset]
            fn vmp_model(
                a: &VecZnx<Vec<u8>>,
                mat: &MatZnx<Vec<u8>>,
                res_size: usize,
                limb_offset: usize,
                col_out: usize,
            ) -> Vec<Vec<i128>> {
                let n = a.n();
                let rows = mat.rows().min(a.size());
                (0..res_size)
                    .map(|j| {
                        let mut acc = vec![0i128; n];
                        let l = j + limb_offset;
                        if l < mat.size() {
                            for r in 0..rows {
                                for ci in 0..mat.cols_in() {
                                    let m = mat.at(r, ci);
                                    add_assign_i128(&mut acc, &negmul(a.at(ci, r), m.at(col_out, l)));
                                }
                            }
                        }
                        acc
                    })
                    .collect()
            }

            fn vmp_case(
                module: &Module<BE>,
                n: usize,
                rows: usize,
                cols_in: usize,
                cols_out: usize,
                size: usize,
                a_size: usize,
                res_size: usize,
                class: Class,
                rng: &mut Rng,
                fails: &mut Vec<String>,
            ) {
                let mut mat: MatZnx<Vec<u8>> = MatZnx::alloc(n, rows, cols_in, cols_out, size);
                for r in 0..rows {
                    for ci in 0..cols_in {
                        let mut v = mat.at_mut(r, ci);
                        for co in 0..cols_out {
                            for j in 0..size {
                                fill_poly(v.at_mut(co, j), if class == Class::Zero { Class::Random } else { class }, K, rng);
                            }
                        }
                    }
                }
                let mut a: VecZnx<Vec<u8>> = VecZnx::alloc(n, cols_in, a_size);
                fill_vec_znx(&mut a, class, K, rng);

                let mut pmat: VmpPMat<DeviceBuf<BE>, BE> = module.vmp_pmat_alloc(rows, cols_in, cols_out, size);
                dirty(pmat.data_mut().as_mut(), rng);
                let mut sp: ScratchOwned<BE> = ScratchOwned::alloc(module.vmp_prepare_tmp_bytes(rows, cols_in, cols_out, size));
                dirty(sp.data.as_mut(), rng);
                module.vmp_prepare(&mut pmat, &mat, sp.borrow());

                let a_dft = dft_of(module, &a, rng);
                let ctx = format!(
                    "n={n} rows={rows} cols_in={cols_in} cols_out={cols_out} size={size} a_size={a_size} res_size={res_size} {class:?}"
                );

                for limb_offset in 0..=size + 1 {
                    let mut r: DftOwned = module.vec_znx_dft_alloc(cols_out, res_size);
                    dirty_dft(&mut r, rng);
                    let mut sc: ScratchOwned<BE> =
                        ScratchOwned::alloc(module.vmp_apply_dft_to_dft_tmp_bytes(res_size, a_size, rows, cols_in, cols_out, size));
                    dirty(sc.data.as_mut(), rng);
                    module.vmp_apply_dft_to_dft(&mut r, &a_dft, &pmat, limb_offset, sc.borrow());
                    // Shape tag: the last produced prepared column is the first half of a stored column pair and >= 2 rows are summed.
                    let col_max = (cols_out * size).min(cols_out * (res_size + limb_offset));
                    let tag = if col_max % 2 == 1 && col_max < cols_out * size && rows.min(a_size) * cols_in >= 2 {
                        "[half-pair-tail]"
                    } else {
                        ""
                    };
                    for co in 0..cols_out {
                        let have = idft_col(module, &r, co, rng);
                        let want = vmp_model(&a, &mat, res_size, limb_offset, co);
                        if let Err(e) = check_limbs(
                            &format!("vmp_apply_dft_to_dft{tag} limb_offset={limb_offset} col_out={co} {ctx}"),
                            &have,
                            &want,
                        ) {
                            fails.push(e);
                        }
                    }
                }
                // coefficient-domain input form
                {
                    let mut r: DftOwned = module.vec_znx_dft_alloc(cols_out, res_size);
                    dirty_dft(&mut r, rng);
                    let mut sc: ScratchOwned<BE> =
                        ScratchOwned::alloc(module.vmp_apply_dft_tmp_bytes(res_size, a_size, rows, cols_in, cols_out, size));
                    dirty(sc.data.as_mut(), rng);
                    module.vmp_apply_dft(&mut r, &a, &pmat, sc.borrow());
                    for co in 0..cols_out {
                        let have = idft_col(module, &r, co, rng);
                        let want = vmp_model(&a, &mat, res_size, 0, co);
                        let col_max = (cols_out * size).min(cols_out * res_size);
                        let tag = if col_max % 2 == 1 && col_max < cols_out * size && rows.min(a_size) * cols_in >= 2 {
                            "[half-pair-tail]"
                        } else {
                            ""
                        };
                        if let Err(e) = check_limbs(&format!("vmp_apply_dft{tag} col_out={co} {ctx}"), &have, &want) {
                            fails.push(e);
                        }
                    }
                }
            }

            #[test]
            fn t4_vmp_shapes() {
                let mut rng = Rng(4);
                let mut fails = Vec::new();
                let mut total = 0;
                let n = 8usize;
                let module: Module<BE> = Module::<BE>::new(n as u64);
                for rows in 1..=6usize {
                    for size in 1..=6usize {
                        for a_size in 1..=6usize {
                            for res_size in 1..=6usize {
                                // cols_in / cols_out swept on a rotating schedule to keep the run time bounded
                                let cols_in = 1 + total % 3;
                                let cols_out = 1 + (total / 3) % 3;
                                let class = CLASSES[(total / 9) % CLASSES.len()];
                                total += 1;
                                vmp_case(&module, n, rows, cols_in, cols_out, size, a_size, res_size, class, &mut rng, &mut fails);
                            }
                        }
                    }
                }
                report("t4_vmp_shapes", fails, total);
            }

            #[test]
            fn t4_vmp_cols_and_n() {
                let mut rng = Rng(44);
                let mut fails = Vec::new();
                let mut total = 0;
                for &n in &[16usize, 32] {
                    let module: Module<BE> = Module::<BE>::new(n as u64);
                    for cols_in in 1..=3usize {
                        for cols_out in 1..=3usize {
                            for &(rows, size, a_size, res_size) in
                                &[(1, 1, 1, 1), (2, 3, 2, 3), (3, 2, 4, 1), (3, 5, 2, 6), (4, 4, 4, 4), (5, 3, 6, 2), (2, 6, 1, 5)]
                            {
                                for &class in &CLASSES {
                                    total += 1;
                                    vmp_case(&module, n, rows, cols_in, cols_out, size, a_size, res_size, class, &mut rng, &mut fails);
                                }
                            }
                        }
                    }
                }
                report("t4_vmp_cols_and_n", fails, total);
            }

            // ───────────────────────── T5: bivariate convolution ─────────────────────────

            /// want[k] = Σ_{i+j = k + cnv_offset} a[i] * b[j], i < a_eff, j < b_eff
            fn cnv_model(a: &[Vec<i64>], b: &[Vec<i64>], res_size: usize, cnv_offset: usize, n: usize) -> Vec<Vec<i128>> {
                (0..res_size)
                    .map(|k| {
                        let mut acc = vec![0i128; n];
                        let t = k + cnv_offset;
                        for i in 0..a.len() {
                            if t >= i && t - i < b.len() {
                                add_assign_i128(&mut acc, &negmul(&a[i], &b[t - i]));
                            }
                        }
                        acc
                    })
                    .collect()
            }

            /// Limbs of column `col` seen by the convolution after `cnv_prepare_*` with `mask` into a prepared vector of `p_size` limbs.
            fn masked_limbs(a: &VecZnx<Vec<u8>>, col: usize, p_size: usize, mask: i64) -> Vec<Vec<i64>> {
                let m = p_size.min(a.size());
                (0..p_size)
                    .map(|j| {
                        if j < m {
                            let mut v = a.at(col, j).to_vec();
                            if j == m - 1 {
                                v.iter_mut().for_each(|x| *x &= mask);
                            }
                            v
                        } else {
                            vec![0i64; a.n()]
                        }
                    })
                    .collect()
            }

            fn add_cols(x: &[Vec<i64>], y: &[Vec<i64>]) -> Vec<Vec<i64>> {
                x.iter().zip(y).map(|(p, q)| p.iter().zip(q).map(|(u, v)| u + v).collect()).collect()
            }

            #[test]
            fn t5_convolution() {
                let mut rng = Rng(5);
                let mut fails = Vec::new();
                let mut total = 0;
                for &n in &[8usize, 16] {
                    let module: Module<BE> = Module::<BE>::new(n as u64);
                    let max = if n == 8 { 5 } else { 3 };
                    for a_size in 1..=max {
                        for b_size in 1..=max {
                            // prepared sizes equal / smaller / larger than the source
                            for (pa, pb) in [(a_size, b_size), (a_size + 1, b_size.max(2) - 1), (a_size.max(2) - 1, b_size + 2)] {
                                let class = CLASSES[total % CLASSES.len()];
                                let mask: i64 = match total % 3 {
                                    0 => !0i64,
                                    1 => (1i64 << (K / 2)) - 1,
                                    _ => !((1i64 << (K / 2)) - 1),
                                };
                                total += 1;
                                let cols = 2;
                                let mut a: VecZnx<Vec<u8>> = VecZnx::alloc(n, cols, a_size);
                                let mut b: VecZnx<Vec<u8>> = VecZnx::alloc(n, cols, b_size);
                                fill_vec_znx(&mut a, class, K - 1, &mut rng);
                                fill_vec_znx(&mut b, if class == Class::Zero { Class::Random } else { class }, K - 1, &mut rng);
                                // second column random so that pairwise sums are not degenerate
                                for j in 0..a_size {
                                    fill_poly(a.at_mut(1, j), Class::Random, K - 1, &mut rng);
                                }

                                let mut ap: CnvPVecL<DeviceBuf<BE>, BE> = module.cnv_pvec_left_alloc(cols, pa);
                                let mut bp: CnvPVecR<DeviceBuf<BE>, BE> = module.cnv_pvec_right_alloc(cols, pb);
                                dirty(ap.data_mut().as_mut(), &mut rng);
                                dirty(bp.data_mut().as_mut(), &mut rng);
                                let mut s1: ScratchOwned<BE> = ScratchOwned::alloc(module.cnv_prepare_left_tmp_bytes(pa, a_size));
                                dirty(s1.data.as_mut(), &mut rng);
                                module.cnv_prepare_left(&mut ap, &a, mask, s1.borrow());
                                let mut s2: ScratchOwned<BE> = ScratchOwned::alloc(module.cnv_prepare_right_tmp_bytes(pb, b_size));
                                dirty(s2.data.as_mut(), &mut rng);
                                module.cnv_prepare_right(&mut bp, &b, mask, s2.borrow());

                                let am: Vec<Vec<Vec<i64>>> = (0..cols).map(|c| masked_limbs(&a, c, pa, mask)).collect();
                                let bm: Vec<Vec<Vec<i64>>> = (0..cols).map(|c| masked_limbs(&b, c, pb, mask)).collect();

                                for res_size in 1..=pa + pb + 1 {
                                    for cnv_offset in 0..=pa + pb + 1 {
                                        let ctx = format!(
                                            "n={n} a_size={a_size} b_size={b_size} pa={pa} pb={pb} res_size={res_size} cnv_offset={cnv_offset} mask={mask:#x} {class:?}"
                                        );
                                        let (ac, bc, rc) = (cnv_offset % 2, res_size % 2, (cnv_offset + res_size) % 2);
                                        let mut r: DftOwned = module.vec_znx_dft_alloc(2, res_size);
                                        dirty_dft(&mut r, &mut rng);
                                        // make the other column a known value to detect spills
                                        module.vec_znx_dft_zero(&mut r, 1 - rc);
                                        let mut sc: ScratchOwned<BE> =
                                            ScratchOwned::alloc(module.cnv_apply_dft_tmp_bytes(cnv_offset, res_size, pa, pb));
                                        dirty(sc.data.as_mut(), &mut rng);
                                        module.cnv_apply_dft(cnv_offset, &mut r, rc, &ap, ac, &bp, bc, sc.borrow());
                                        let have = idft_col(&module, &r, rc, &mut rng);
                                        let want = cnv_model(&am[ac], &bm[bc], res_size, cnv_offset, n);
                                        if let Err(e) = check_limbs(&format!("cnv_apply_dft {ctx}"), &have, &want) {
                                            fails.push(e);
                                        }
                                        let have = idft_col(&module, &r, 1 - rc, &mut rng);
                                        let zero: Vec<Vec<i128>> = vec![vec![0i128; n]; res_size];
                                        if let Err(e) = check_limbs(&format!("cnv_apply_dft spill {ctx}"), &have, &zero) {
                                            fails.push(e);
                                        }

                                        for (i, j) in [(0usize, 0usize), (1, 1), (0, 1), (1, 0)] {
                                            dirty_dft(&mut r, &mut rng);
                                            module.vec_znx_dft_zero(&mut r, 1 - rc);
                                            // NOTE: the delegate swaps (cnv_offset, res_size) for this query (see t5_pairwise_tmp_bytes_exact);
                                            // take the max of both orders so that the arithmetic can be checked independently.
                                            let mut sc: ScratchOwned<BE> = ScratchOwned::alloc(
                                                module
                                                    .cnv_pairwise_apply_dft_tmp_bytes(cnv_offset, res_size, pa, pb)
                                                    .max(module.cnv_pairwise_apply_dft_tmp_bytes(res_size, cnv_offset, pa, pb)),
                                            );
                                            dirty(sc.data.as_mut(), &mut rng);
                                            module.cnv_pairwise_apply_dft(cnv_offset, &mut r, rc, &ap, &bp, i, j, sc.borrow());
                                            let have = idft_col(&module, &r, rc, &mut rng);
                                            let want = if i == j {
                                                cnv_model(&am[i], &bm[i], res_size, cnv_offset, n)
                                            } else {
                                                cnv_model(&add_cols(&am[i], &am[j]), &add_cols(&bm[i], &bm[j]), res_size, cnv_offset, n)
                                            };
                                            if let Err(e) = check_limbs(&format!("cnv_pairwise i={i} j={j} {ctx}"), &have, &want) {
                                                fails.push(e);
                                            }
                                            let have = idft_col(&module, &r, 1 - rc, &mut rng);
                                            if let Err(e) = check_limbs(&format!("cnv_pairwise spill i={i} j={j} {ctx}"), &have, &zero) {
                                                fails.push(e);
                                            }
                                        }
                                    }
                                }
                            }
                        }
                    }
                }
                report("t5_convolution", fails, total);
            }

            #[test]
            fn t5_convolution_large_n() {
                let mut rng = Rng(58);
                let mut fails = Vec::new();
                let mut total = 0;
                for &n in &[64usize, 1 << 12, 1 << 16] {
                    let module: Module<BE> = Module::<BE>::new(n as u64);
                    for &class in &[Class::Random, Class::ExtPos, Class::ExtNeg, Class::ExtAlt] {
                        total += 1;
                        let (a_size, b_size, cols) = (2usize, 3usize, 2usize);
                        let mut a: VecZnx<Vec<u8>> = VecZnx::alloc(n, cols, a_size);
                        let mut b: VecZnx<Vec<u8>> = VecZnx::alloc(n, cols, b_size);
                        fill_vec_znx(&mut a, Class::Sparse, K - 1, &mut rng); // sparse left operand => cheap exact oracle
                        fill_vec_znx(&mut b, class, K - 1, &mut rng);
                        let mut ap: CnvPVecL<DeviceBuf<BE>, BE> = module.cnv_pvec_left_alloc(cols, a_size);
                        let mut bp: CnvPVecR<DeviceBuf<BE>, BE> = module.cnv_pvec_right_alloc(cols, b_size);
                        let mut s1: ScratchOwned<BE> = ScratchOwned::alloc(
                            module.cnv_prepare_left_tmp_bytes(a_size, a_size).max(module.cnv_prepare_right_tmp_bytes(b_size, b_size)),
                        );
                        module.cnv_prepare_left(&mut ap, &a, !0, s1.borrow());
                        module.cnv_prepare_right(&mut bp, &b, !0, s1.borrow());
                        let am: Vec<Vec<Vec<i64>>> = (0..cols).map(|c| masked_limbs(&a, c, a_size, !0)).collect();
                        let bm: Vec<Vec<Vec<i64>>> = (0..cols).map(|c| masked_limbs(&b, c, b_size, !0)).collect();
                        let res_size = 4;
                        for cnv_offset in [0usize, 1, 3] {
                            let ctx = format!("n={n} {class:?} cnv_offset={cnv_offset}");
                            let mut r: DftOwned = module.vec_znx_dft_alloc(1, res_size);
                            dirty_dft(&mut r, &mut rng);
                            let mut sc: ScratchOwned<BE> = ScratchOwned::alloc(
                                module
                                    .cnv_apply_dft_tmp_bytes(cnv_offset, res_size, a_size, b_size)
                                    .max(module.cnv_pairwise_apply_dft_tmp_bytes(cnv_offset, res_size, a_size, b_size))
                                    .max(module.cnv_pairwise_apply_dft_tmp_bytes(res_size, cnv_offset, a_size, b_size)),
                            );
                            module.cnv_apply_dft(cnv_offset, &mut r, 0, &ap, 1, &bp, 0, sc.borrow());
                            let have = idft_col(&module, &r, 0, &mut rng);
                            let want = cnv_model(&am[1], &bm[0], res_size, cnv_offset, n);
                            if let Err(e) = check_limbs(&format!("cnv_apply_dft large {ctx}"), &have, &want) {
                                fails.push(e);
                            }
                            dirty_dft(&mut r, &mut rng);
                            module.cnv_pairwise_apply_dft(cnv_offset, &mut r, 0, &ap, &bp, 0, 1, sc.borrow());
                            let have = idft_col(&module, &r, 0, &mut rng);
                            let want = cnv_model(&add_cols(&am[0], &am[1]), &add_cols(&bm[0], &bm[1]), res_size, cnv_offset, n);
                            if let Err(e) = check_limbs(&format!("cnv_pairwise large {ctx}"), &have, &want) {
                                fails.push(e);
                            }
                        }
                    }
                }
                report("t5_convolution_large_n", fails, total);
            }

            /// Scratch of exactly `cnv_pairwise_apply_dft_tmp_bytes(cnv_offset, res_size, a_size, b_size)` bytes (API argument order)
            /// must be enough for `cnv_pairwise_apply_dft` with the same arguments.
            #[test]
            fn t5_pairwise_tmp_bytes_exact() {
                let n = 8usize;
                let module: Module<BE> = Module::<BE>::new(n as u64);
                let mut rng = Rng(57);
                let (a_size, b_size, res_size, cnv_offset) = (2usize, 2usize, 3usize, 0usize);
                let mut a: VecZnx<Vec<u8>> = VecZnx::alloc(n, 2, a_size);
                let mut b: VecZnx<Vec<u8>> = VecZnx::alloc(n, 2, b_size);
                fill_vec_znx(&mut a, Class::Random, K - 1, &mut rng);
                fill_vec_znx(&mut b, Class::Random, K - 1, &mut rng);
                let mut ap: CnvPVecL<DeviceBuf<BE>, BE> = module.cnv_pvec_left_alloc(2, a_size);
                let mut bp: CnvPVecR<DeviceBuf<BE>, BE> = module.cnv_pvec_right_alloc(2, b_size);
                let mut s1: ScratchOwned<BE> = ScratchOwned::alloc(
                    module.cnv_prepare_left_tmp_bytes(a_size, a_size).max(module.cnv_prepare_right_tmp_bytes(b_size, b_size)),
                );
                module.cnv_prepare_left(&mut ap, &a, !0, s1.borrow());
                module.cnv_prepare_right(&mut bp, &b, !0, s1.borrow());
                let mut r: DftOwned = module.vec_znx_dft_alloc(1, res_size);
                let bytes = module.cnv_pairwise_apply_dft_tmp_bytes(cnv_offset, res_size, a_size, b_size);
                eprintln!("declared pairwise tmp bytes (cnv_offset={cnv_offset}, res_size={res_size}, a={a_size}, b={b_size}) = {bytes}");
                let mut sc: ScratchOwned<BE> = ScratchOwned::alloc(bytes);
                module.cnv_pairwise_apply_dft(cnv_offset, &mut r, 0, &ap, &bp, 0, 1, sc.borrow());
            }

            #[test]
            fn t5_prepare_self() {
                let mut rng = Rng(55);
                let mut fails = Vec::new();
                let mut total = 0;
                let n = 8usize;
                let module: Module<BE> = Module::<BE>::new(n as u64);
                for a_size in 1..=4usize {
                    for p in 1..=5usize {
                        let class = CLASSES[total % CLASSES.len()];
                        let mask: i64 = if total % 2 == 0 { !0i64 } else { (1i64 << (K / 2)) - 1 };
                        total += 1;
                        let cols = 2;
                        let mut a: VecZnx<Vec<u8>> = VecZnx::alloc(n, cols, a_size);
                        fill_vec_znx(&mut a, class, K - 1, &mut rng);
                        let mut ap: CnvPVecL<DeviceBuf<BE>, BE> = module.cnv_pvec_left_alloc(cols, p);
                        let mut bp: CnvPVecR<DeviceBuf<BE>, BE> = module.cnv_pvec_right_alloc(cols, p);
                        dirty(ap.data_mut().as_mut(), &mut rng);
                        dirty(bp.data_mut().as_mut(), &mut rng);
                        let mut s1: ScratchOwned<BE> = ScratchOwned::alloc(module.cnv_prepare_self_tmp_bytes(p, a_size));
                        dirty(s1.data.as_mut(), &mut rng);
                        module.cnv_prepare_self(&mut ap, &mut bp, &a, mask, s1.borrow());
                        let am: Vec<Vec<Vec<i64>>> = (0..cols).map(|c| masked_limbs(&a, c, p, mask)).collect();
                        for res_size in 1..=2 * p {
                            for cnv_offset in [0usize, 1, p, 2 * p - 1] {
                                let ctx = format!("n={n} a_size={a_size} p={p} res_size={res_size} cnv_offset={cnv_offset} mask={mask:#x}");
                                let mut r: DftOwned = module.vec_znx_dft_alloc(1, res_size);
                                dirty_dft(&mut r, &mut rng);
                                let mut sc: ScratchOwned<BE> =
                                    ScratchOwned::alloc(module.cnv_apply_dft_tmp_bytes(cnv_offset, res_size, p, p));
                                module.cnv_apply_dft(cnv_offset, &mut r, 0, &ap, 0, &bp, 1, sc.borrow());
                                let have = idft_col(&module, &r, 0, &mut rng);
                                let want = cnv_model(&am[0], &am[1], res_size, cnv_offset, n);
                                if let Err(e) = check_limbs(&format!("cnv_prepare_self {ctx}"), &have, &want) {
                                    fails.push(e);
                                }
                            }
                        }
                    }
                }
                report("t5_prepare_self", fails, total);
            }

            #[test]
            fn t5_by_const() {
                let mut rng = Rng(56);
                let mut fails = Vec::new();
                let mut total = 0;
                for &n in &[8usize, 16] {
                    let module: Module<BE> = Module::<BE>::new(n as u64);
                    for a_size in 1..=5usize {
                        for b_size in 1..=5usize {
                            let class = CLASSES[total % CLASSES.len()];
                            total += 1;
                            let cols = 2;
                            let mut a: VecZnx<Vec<u8>> = VecZnx::alloc(n, cols, a_size);
                            fill_vec_znx(&mut a, class, K, &mut rng);
                            let mut b = vec![0i64; b_size];
                            fill_poly(&mut b, if class == Class::Zero { Class::Random } else { class }, K, &mut rng);
                            let al: Vec<Vec<Vec<i64>>> = (0..cols).map(|c| masked_limbs(&a, c, a_size, !0)).collect();
                            let bl: Vec<Vec<i64>> = b
                                .iter()
                                .map(|&x| {
                                    let mut v = vec![0i64; n];
                                    v[0] = x;
                                    v
                                })
                                .collect();
                            for res_size in 1..=a_size + b_size + 1 {
                                for cnv_offset in 0..=a_size + b_size + 1 {
                                    let (ac, rc) = (cnv_offset % 2, res_size % 2);
                                    let ctx = format!("n={n} a_size={a_size} b_size={b_size} res_size={res_size} cnv_offset={cnv_offset} {class:?}");
                                    let mut r: BigOwned = module.vec_znx_big_alloc(2, res_size);
                                    dirty_big(&mut r, &mut rng);
                                    for j in 0..res_size {
                                        r.at_mut(1 - rc, j).iter_mut().for_each(|x| *x = 7);
                                    }
                                    let mut sc: ScratchOwned<BE> =
                                        ScratchOwned::alloc(module.cnv_by_const_apply_tmp_bytes(cnv_offset, res_size, a_size, b_size));
                                    dirty(sc.data.as_mut(), &mut rng);
                                    module.cnv_by_const_apply(cnv_offset, &mut r, rc, &a, ac, &b, sc.borrow());
                                    let have: Vec<Vec<i128>> = (0..res_size).map(|j| big_limb(&r, rc, j)).collect();
                                    let want = cnv_model(&al[ac], &bl, res_size, cnv_offset, n);
                                    if let Err(e) = check_limbs(&format!("cnv_by_const {ctx}"), &have, &want) {
                                        fails.push(e);
                                    }
                                    let have: Vec<Vec<i128>> = (0..res_size).map(|j| big_limb(&r, 1 - rc, j)).collect();
                                    let seven: Vec<Vec<i128>> = vec![vec![7i128; n]; res_size];
                                    if let Err(e) = check_limbs(&format!("cnv_by_const spill {ctx}"), &have, &seven) {
                                        fails.push(e);
                                    }
                                }
                            }
                        }
                    }
                }
                report("t5_by_const", fails, total);
            }

            // ───────────────────────── T6: large N, extreme magnitudes, sparse exact oracle ─────────────────────────

            /// Exact product of a sparse polynomial (list of (index, value)) with a dense one.
            fn sparse_negmul(s: &[(usize, i64)], b: &[i64]) -> Vec<i128> {
                let n = b.len();
                let mut r = vec![0i128; n];
                for &(i, v) in s {
                    for j in 0..n {
                        let p = v as i128 * b[j] as i128;
                        if i + j < n {
                            r[i + j] += p;
                        } else {
                            r[i + j - n] -= p;
                        }
                    }
                }
                r
            }

            #[test]
            fn t6_large_n() {
                let mut rng = Rng(6);
                let mut fails = Vec::new();
                let mut total = 0;
                for &n in &[256usize, 1 << 12, 1 << 16] {
                    let module: Module<BE> = Module::<BE>::new(n as u64);
                    for &class in &[Class::Random, Class::ExtPos, Class::ExtNeg, Class::ExtAlt] {
                        total += 1;
                        let size = 3;
                        let mut b: VecZnx<Vec<u8>> = VecZnx::alloc(n, 1, size);
                        fill_vec_znx(&mut b, class, K, &mut rng);
                        // round trip, the three inverse forms
                        let d = dft_of(&module, &b, &mut rng);
                        let have = idft_col(&module, &d, 0, &mut rng);
                        let want: Vec<Vec<i128>> = (0..size).map(|j| to_i128(b.at(0, j))).collect();
                        if let Err(e) = check_limbs(&format!("roundtrip n={n} {class:?}"), &have, &want) {
                            fails.push(e);
                        }
                        let big = module.vec_znx_idft_apply_consume(d);
                        let have: Vec<Vec<i128>> = (0..size).map(|j| big_limb(&big, 0, j)).collect();
                        if let Err(e) = check_limbs(&format!("roundtrip consume n={n} {class:?}"), &have, &want) {
                            fails.push(e);
                        }

                        // sparse scalar with extreme digits, dense vector
                        let hi: i64 = (1i64 << (K - 1)) - 1;
                        let lo: i64 = -(1i64 << (K - 1));
                        let sp: Vec<(usize, i64)> = vec![(0, hi), (1, lo), (n / 2, hi), (n - 1, lo), (rng.below(n), hi)];
                        let mut s: ScalarZnx<Vec<u8>> = ScalarZnx::alloc(n, 1);
                        let mut dedup: Vec<(usize, i64)> = Vec::new();
                        for &(i, v) in &sp {
                            if !dedup.iter().any(|&(k, _)| k == i) {
                                dedup.push((i, v));
                                s.at_mut(0, 0)[i] = v;
                            }
                        }
                        let mut ppol: SvpPPol<DeviceBuf<BE>, BE> = module.svp_ppol_alloc(1);
                        module.svp_prepare(&mut ppol, 0, &s, 0);
                        let mut r: DftOwned = module.vec_znx_dft_alloc(1, size);
                        module.svp_apply_dft(&mut r, 0, &ppol, 0, &b, 0);
                        let have = idft_col(&module, &r, 0, &mut rng);
                        let want: Vec<Vec<i128>> = (0..size).map(|j| sparse_negmul(&dedup, b.at(0, j))).collect();
                        if let Err(e) = check_limbs(&format!("svp sparse n={n} {class:?}"), &have, &want) {
                            fails.push(e);
                        }

                        // vmp with a sparse left operand: rows=3, cols_in=1, cols_out=1, size=2
                        let rows = 3;
                        let msize = 2;
                        let mut mat: MatZnx<Vec<u8>> = MatZnx::alloc(n, rows, 1, 1, msize);
                        for rr in 0..rows {
                            let mut v = mat.at_mut(rr, 0);
                            for j in 0..msize {
                                fill_poly(v.at_mut(0, j), class, K, &mut rng);
                            }
                        }
                        let mut a: VecZnx<Vec<u8>> = VecZnx::alloc(n, 1, rows);
                        for rr in 0..rows {
                            for &(i, v) in &dedup {
                                a.at_mut(0, rr)[i] = v;
                            }
                        }
                        let mut pmat: VmpPMat<DeviceBuf<BE>, BE> = module.vmp_pmat_alloc(rows, 1, 1, msize);
                        let mut sp_: ScratchOwned<BE> = ScratchOwned::alloc(module.vmp_prepare_tmp_bytes(rows, 1, 1, msize));
                        module.vmp_prepare(&mut pmat, &mat, sp_.borrow());
                        let mut r: DftOwned = module.vec_znx_dft_alloc(1, msize);
                        let mut sc: ScratchOwned<BE> = ScratchOwned::alloc(module.vmp_apply_dft_tmp_bytes(msize, rows, rows, 1, 1, msize));
                        module.vmp_apply_dft(&mut r, &a, &pmat, sc.borrow());
                        let have = idft_col(&module, &r, 0, &mut rng);
                        let want: Vec<Vec<i128>> = (0..msize)
                            .map(|j| {
                                let mut acc = vec![0i128; n];
                                for rr in 0..rows {
                                    add_assign_i128(&mut acc, &sparse_negmul(&dedup, mat.at(rr, 0).at(0, j)));
                                }
                                acc
                            })
                            .collect();
                        if let Err(e) = check_limbs(&format!("vmp sparse n={n} {class:?}"), &have, &want) {
                            fails.push(e);
                        }
                    }
                }
                report("t6_large_n", fails, total);
            }

            // ───────────────────────── T7: long lazy chains in the transform domain ─────────────────────────

            #[test]
            fn t7_lazy_chains() {
                let mut rng = Rng(7);
                let mut fails = Vec::new();
                let mut total = 0;
                for &n in &[16usize, 1024] {
                    let module: Module<BE> = Module::<BE>::new(n as u64);
                    for &class in &[Class::Random, Class::ExtPos, Class::ExtNeg, Class::ExtAlt] {
                        total += 1;
                        let size = 2;
                        let mut acc_model: Vec<Vec<i128>> = vec![vec![0i128; n]; size];
                        let mut acc: DftOwned = module.vec_znx_dft_alloc(1, size);
                        module.vec_znx_dft_zero(&mut acc, 0);
                        let steps = if n == 16 { 300 } else { 60 };
                        for it in 0..steps {
                            let mut a: VecZnx<Vec<u8>> = VecZnx::alloc(n, 1, size);
                            fill_vec_znx(&mut a, class, K, &mut rng);
                            let a_dft = dft_of(&module, &a, &mut rng);
                            match it % 4 {
                                0 | 1 => {
                                    module.vec_znx_dft_add_assign(&mut acc, 0, &a_dft, 0);
                                    for j in 0..size {
                                        add_assign_i128(&mut acc_model[j], &to_i128(a.at(0, j)));
                                    }
                                }
                                2 => {
                                    module.vec_znx_dft_sub_assign(&mut acc, 0, &a_dft, 0);
                                    for j in 0..size {
                                        for (x, y) in acc_model[j].iter_mut().zip(a.at(0, j)) {
                                            *x -= *y as i128;
                                        }
                                    }
                                }
                                _ => {
                                    module.vec_znx_dft_sub_negate_assign(&mut acc, 0, &a_dft, 0);
                                    for j in 0..size {
                                        for (x, y) in acc_model[j].iter_mut().zip(a.at(0, j)) {
                                            *x = *y as i128 - *x;
                                        }
                                    }
                                }
                            }
                        }
                        let ctx = format!("lazy chain n={n} {class:?}");
                        let have = idft_col(&module, &acc, 0, &mut rng);
                        if let Err(e) = check_limbs(&format!("{ctx} [idft_apply]"), &have, &acc_model) {
                            fails.push(e);
                        }
                        // product of the lazily accumulated vector by a sparse scalar (svp) and by a 1x1 matrix (vmp)
                        let hi: i64 = (1i64 << (K - 1)) - 1;
                        let sp: Vec<(usize, i64)> = vec![(0, hi), (n - 1, -hi - 1), (n / 2, hi)];
                        let mut s: ScalarZnx<Vec<u8>> = ScalarZnx::alloc(n, 1);
                        for &(i, v) in &sp {
                            s.at_mut(0, 0)[i] = v;
                        }
                        let mut ppol: SvpPPol<DeviceBuf<BE>, BE> = module.svp_ppol_alloc(1);
                        module.svp_prepare(&mut ppol, 0, &s, 0);
                        let mut r: DftOwned = module.vec_znx_dft_alloc(1, size);
                        module.svp_apply_dft_to_dft(&mut r, 0, &ppol, 0, &acc, 0);
                        let have = idft_col(&module, &r, 0, &mut rng);
                        let want: Vec<Vec<i128>> = acc_model
                            .iter()
                            .map(|l| {
                                let mut out = vec![0i128; n];
                                for &(i, v) in &sp {
                                    for j in 0..n {
                                        let p = v as i128 * l[j];
                                        if i + j < n { out[i + j] += p } else { out[i + j - n] -= p }
                                    }
                                }
                                out
                            })
                            .collect();
                        if let Err(e) = check_limbs(&format!("{ctx} [svp of lazy acc]"), &have, &want) {
                            fails.push(e);
                        }
                        // vmp: rows = size, 1x1 cols, matrix rows all equal to the sparse scalar, 1 limb
                        let mut mat: MatZnx<Vec<u8>> = MatZnx::alloc(n, size, 1, 1, 1);
                        for rr in 0..size {
                            let mut v = mat.at_mut(rr, 0);
                            for &(i, val) in &sp {
                                v.at_mut(0, 0)[i] = val;
                            }
                        }
                        let mut pmat: VmpPMat<DeviceBuf<BE>, BE> = module.vmp_pmat_alloc(size, 1, 1, 1);
                        let mut sp_: ScratchOwned<BE> = ScratchOwned::alloc(module.vmp_prepare_tmp_bytes(size, 1, 1, 1));
                        module.vmp_prepare(&mut pmat, &mat, sp_.borrow());
                        let mut r: DftOwned = module.vec_znx_dft_alloc(1, 1);
                        let mut sc: ScratchOwned<BE> = ScratchOwned::alloc(module.vmp_apply_dft_to_dft_tmp_bytes(1, size, size, 1, 1, 1));
                        module.vmp_apply_dft_to_dft(&mut r, &acc, &pmat, 0, sc.borrow());
                        let have = idft_col(&module, &r, 0, &mut rng);
                        let mut sum = vec![0i128; n];
                        for w in &want {
                            add_assign_i128(&mut sum, w);
                        }
                        if let Err(e) = check_limbs(&format!("{ctx} [vmp of lazy acc]"), &have, &[sum]) {
                            fails.push(e);
                        }
                        // destructive forms last
                        let mut acc2: DftOwned = module.vec_znx_dft_alloc(1, size);
                        acc2.data_mut().as_mut().copy_from_slice(acc.data.as_ref());
                        let mut big: BigOwned = module.vec_znx_big_alloc(1, size);
                        module.vec_znx_idft_apply_tmpa(&mut big, 0, &mut acc2, 0);
                        let have: Vec<Vec<i128>> = (0..size).map(|j| big_limb(&big, 0, j)).collect();
                        if let Err(e) = check_limbs(&format!("{ctx} [idft_tmpa]"), &have, &acc_model) {
                            fails.push(e);
                        }
                        let big = module.vec_znx_idft_apply_consume(acc);
                        let have: Vec<Vec<i128>> = (0..size).map(|j| big_limb(&big, 0, j)).collect();
                        if let Err(e) = check_limbs(&format!("{ctx} [idft_consume]"), &have, &acc_model) {
                            fails.push(e);
                        }
                    }
                }
                report("t7_lazy_chains", fails, total);
            }

            // ───────────────────────── T8: many rows (long inner products) ─────────────────────────

            #[test]
            fn t8_vmp_many_rows() {
                let mut rng = Rng(8);
                let mut fails = Vec::new();
                let mut total = 0;
                let n = 8usize;
                let module: Module<BE> = Module::<BE>::new(n as u64);
                for &(rows, cols_in) in &[(17usize, 1usize), (40, 2), (64, 1)] {
                    for &class in &[Class::Random, Class::ExtPos, Class::ExtNeg, Class::ExtAlt] {
                        for &(cols_out, size, res_size) in &[(1usize, 2usize, 2usize), (2, 3, 3), (1, 3, 3), (3, 1, 1)] {
                            total += 1;
                            // keep |result| inside both backends' range: 2*(K-4) + log2(n*rows*cols_in) bits
                            let kk = K - 4;
                            let mut mat: MatZnx<Vec<u8>> = MatZnx::alloc(n, rows, cols_in, cols_out, size);
                            for r in 0..rows {
                                for ci in 0..cols_in {
                                    let mut v = mat.at_mut(r, ci);
                                    for co in 0..cols_out {
                                        for j in 0..size {
                                            fill_poly(v.at_mut(co, j), class, kk, &mut rng);
                                        }
                                    }
                                }
                            }
                            let mut a: VecZnx<Vec<u8>> = VecZnx::alloc(n, cols_in, rows);
                            fill_vec_znx(&mut a, class, kk, &mut rng);
                            let mut pmat: VmpPMat<DeviceBuf<BE>, BE> = module.vmp_pmat_alloc(rows, cols_in, cols_out, size);
                            let mut sp: ScratchOwned<BE> = ScratchOwned::alloc(module.vmp_prepare_tmp_bytes(rows, cols_in, cols_out, size));
                            module.vmp_prepare(&mut pmat, &mat, sp.borrow());
                            let mut r: DftOwned = module.vec_znx_dft_alloc(cols_out, res_size);
                            dirty_dft(&mut r, &mut rng);
                            let mut sc: ScratchOwned<BE> =
                                ScratchOwned::alloc(module.vmp_apply_dft_tmp_bytes(res_size, rows, rows, cols_in, cols_out, size));
                            module.vmp_apply_dft(&mut r, &a, &pmat, sc.borrow());
                            for co in 0..cols_out {
                                let have = idft_col(&module, &r, co, &mut rng);
                                let want = vmp_model(&a, &mat, res_size, 0, co);
                                if let Err(e) = check_limbs(
                                    &format!("vmp many rows rows={rows} cols_in={cols_in} cols_out={cols_out} size={size} {class:?} col_out={co}"),
                                    &have,
                                    &want,
                                ) {
                                    fails.push(e);
                                }
                            }
                        }
                    }
                }
                report("t8_vmp_many_rows", fails, total);
            }

            // ───────────────────────── T9: NTT120 only, digits over the whole i64 range ─────────────────────────

            #[test]
            fn t9_full_i64_digits() {
                if K < 50 {
                    return; // f64 backend: 64-bit digits are outside any plausible domain
                }
                let mut rng = Rng(9);
                let mut fails = Vec::new();
                let mut total = 0;
                for &n in &[8usize, 64, 2048] {
                    let module: Module<BE> = Module::<BE>::new(n as u64);
                    for variant in 0..4 {
                        total += 1;
                        let size = 3;
                        let mut b: VecZnx<Vec<u8>> = VecZnx::alloc(n, 1, size);
                        for j in 0..size {
                            for (i, x) in b.at_mut(0, j).iter_mut().enumerate() {
                                *x = match variant {
                                    0 => rng.next() as i64,
                                    1 => i64::MIN,
                                    2 => i64::MAX,
                                    _ => {
                                        if i % 2 == 0 {
                                            i64::MIN
                                        } else {
                                            i64::MAX
                                        }
                                    }
                                };
                            }
                        }
                        let d = dft_of(&module, &b, &mut rng);
                        let want: Vec<Vec<i128>> = (0..size).map(|j| to_i128(b.at(0, j))).collect();
                        let have = idft_col(&module, &d, 0, &mut rng);
                        if let Err(e) = check_limbs(&format!("full-i64 roundtrip n={n} variant={variant}"), &have, &want) {
                            fails.push(e);
                        }
                        // scalar with few +-1 / small entries: |product| <= 2^63 * 2^10 * 4
                        let sp: Vec<(usize, i64)> = vec![(0, 1023), (1, -1024), (n / 2, 1), (n - 1, -1)];
                        let mut s: ScalarZnx<Vec<u8>> = ScalarZnx::alloc(n, 1);
                        for &(i, v) in &sp {
                            s.at_mut(0, 0)[i] = v;
                        }
                        let mut ppol: SvpPPol<DeviceBuf<BE>, BE> = module.svp_ppol_alloc(1);
                        module.svp_prepare(&mut ppol, 0, &s, 0);
                        let mut r: DftOwned = module.vec_znx_dft_alloc(1, size);
                        module.svp_apply_dft_to_dft(&mut r, 0, &ppol, 0, &d, 0);
                        let have = idft_col(&module, &r, 0, &mut rng);
                        let want: Vec<Vec<i128>> = (0..size).map(|j| sparse_negmul(&sp, b.at(0, j))).collect();
                        if let Err(e) = check_limbs(&format!("full-i64 svp n={n} variant={variant}"), &have, &want) {
                            fails.push(e);
                        }
                        // and the other way round: full-range scalar, small vector
                        let mut s2: ScalarZnx<Vec<u8>> = ScalarZnx::alloc(n, 1);
                        s2.at_mut(0, 0).copy_from_slice(b.at(0, 0));
                        module.svp_prepare(&mut ppol, 0, &s2, 0);
                        let mut small: VecZnx<Vec<u8>> = VecZnx::alloc(n, 1, 1);
                        for &(i, v) in &sp {
                            small.at_mut(0, 0)[i] = v;
                        }
                        let mut r: DftOwned = module.vec_znx_dft_alloc(1, 1);
                        module.svp_apply_dft(&mut r, 0, &ppol, 0, &small, 0);
                        let have = idft_col(&module, &r, 0, &mut rng);
                        let want = vec![sparse_negmul(&sp, b.at(0, 0))];
                        if let Err(e) = check_limbs(&format!("full-i64 scalar svp n={n} variant={variant}"), &have, &want) {
                            fails.push(e);
                        }
                        let big = module.vec_znx_idft_apply_consume(d);
                        let have: Vec<Vec<i128>> = (0..size).map(|j| big_limb(&big, 0, j)).collect();
                        let want: Vec<Vec<i128>> = (0..size).map(|j| to_i128(b.at(0, j))).collect();
                        if let Err(e) = check_limbs(&format!("full-i64 roundtrip consume n={n} variant={variant}"), &have, &want) {
                            fails.push(e);
                        }
                    }
                }
                report("t9_full_i64_digits", fails, total);
            }

            // ───────────────────────── T10 (informational): worst-case magnitude sweep at large N ─────────────────────────
            //
            // a = b = c * (1 + X + ... + X^{N-1})  =>  (a*b)[k] = c^2 * (2k + 2 - N).

            #[test]
            #[ignore]
            fn t10_worst_case_sweep() {
                let mut rng = Rng(10);
                for &n in &[1usize << 10, 1 << 12, 1 << 14, 1 << 16] {
                    let module: Module<BE> = Module::<BE>::new(n as u64);
                    let mut last_ok = 0usize;
                    let mut first_bad = 0usize;
                    let kmax = if K >= 50 { 56 } else { 30 };
                    for k in 8..=kmax {
                        let c: i64 = (1i64 << (k - 1)) - 1;
                        let mut s: ScalarZnx<Vec<u8>> = ScalarZnx::alloc(n, 1);
                        s.at_mut(0, 0).fill(c);
                        let mut b: VecZnx<Vec<u8>> = VecZnx::alloc(n, 1, 1);
                        b.at_mut(0, 0).fill(c);
                        let mut ppol: SvpPPol<DeviceBuf<BE>, BE> = module.svp_ppol_alloc(1);
                        module.svp_prepare(&mut ppol, 0, &s, 0);
                        let mut r: DftOwned = module.vec_znx_dft_alloc(1, 1);
                        module.svp_apply_dft(&mut r, 0, &ppol, 0, &b, 0);
                        let have = idft_col(&module, &r, 0, &mut rng);
                        let want: Vec<i128> = (0..n).map(|i| (c as i128) * (c as i128) * (2 * i as i128 + 2 - n as i128)).collect();
                        let bad = have[0].iter().zip(&want).filter(|(h, w)| h != w).count();
                        let maxerr = have[0].iter().zip(&want).map(|(h, w)| (h - w).abs()).max().unwrap();
                        if bad == 0 {
                            last_ok = k;
                        } else if first_bad == 0 {
                            first_bad = k;
                            eprintln!("  n={n} k={k}: {bad} wrong coefficients, max |err| = {maxerr}");
                        }
                    }
                    eprintln!("worst-case svp sweep n={n}: exact up to digit width {last_ok}, first inexact at {first_bad}");
                }
            }
        }
    };
}
