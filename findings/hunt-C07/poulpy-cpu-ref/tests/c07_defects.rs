//! C07: smallest reproducers of the defects found by `c07_exact.rs`.
//!   cargo test --offline -j 4 -p poulpy-cpu-ref --test c07_defects -- --test-threads 1 --nocapture
use poulpy_cpu_ref::{FFT64Ref, NTT120Ref};
use poulpy_hal::{
    api::*,
    layouts::{CnvPVecL, CnvPVecR, DeviceBuf, MatZnx, Module, ScratchOwned, VecZnx, VecZnxBig, VecZnxDft, VmpPMat, ZnxView, ZnxViewMut},
};

/// D1: `vec_znx_dft_add_scaled_assign(res, a, a_scale > 0)` drops limbs of `a` when `res.size() < a.size()`.
/// res (1 limb) = [10], a (2 limbs) = [1, 2], a_scale = 1  =>  res[0] += a[1]  =>  12.
macro_rules! d1 {
    ($name:ident, $BE:ty) => {
        #[test]
        fn $name() {
            let n = 8;
            let module: Module<$BE> = Module::<$BE>::new(n as u64);
            let mut a: VecZnx<Vec<u8>> = VecZnx::alloc(n, 1, 2);
            a.at_mut(0, 0)[0] = 1;
            a.at_mut(0, 1)[0] = 2;
            let mut r: VecZnx<Vec<u8>> = VecZnx::alloc(n, 1, 1);
            r.at_mut(0, 0)[0] = 10;
            let mut a_dft: VecZnxDft<DeviceBuf<$BE>, $BE> = module.vec_znx_dft_alloc(1, 2);
            let mut r_dft: VecZnxDft<DeviceBuf<$BE>, $BE> = module.vec_znx_dft_alloc(1, 1);
            module.vec_znx_dft_apply(1, 0, &mut a_dft, 0, &a, 0);
            module.vec_znx_dft_apply(1, 0, &mut r_dft, 0, &r, 0);
            module.vec_znx_dft_add_scaled_assign(&mut r_dft, 0, &a_dft, 0, 1);
            let mut big: VecZnxBig<DeviceBuf<$BE>, $BE> = module.vec_znx_big_alloc(1, 1);
            module.vec_znx_idft_apply_tmpa(&mut big, 0, &mut r_dft, 0);
            let have = big.at(0, 0)[0] as i128;
            eprintln!("add_scaled_assign: have {have}, want 12");
            assert_eq!(have, 12);
        }
    };
}
d1!(d1_add_scaled_assign_fft64, FFT64Ref);
d1!(d1_add_scaled_assign_ntt120, NTT120Ref);

/// D2: NTT120 `vmp_apply_dft_to_dft` reads a half column pair with the single-column row stride.
/// 2x2 prepared matrix (rows=2, size=2, cols 1x1), a = (1, 1), res has ONE limb:
/// res[0] = a[0]*m[0][0] + a[1]*m[1][0] = 3 + 5 = 8.
macro_rules! d2 {
    ($name:ident, $BE:ty) => {
        #[test]
        fn $name() {
            let n = 8;
            let module: Module<$BE> = Module::<$BE>::new(n as u64);
            let mut mat: MatZnx<Vec<u8>> = MatZnx::alloc(n, 2, 1, 1, 2);
            mat.at_mut(0, 0).at_mut(0, 0)[0] = 3;
            mat.at_mut(0, 0).at_mut(0, 1)[0] = 100;
            mat.at_mut(1, 0).at_mut(0, 0)[0] = 5;
            mat.at_mut(1, 0).at_mut(0, 1)[0] = 1000;
            let mut a: VecZnx<Vec<u8>> = VecZnx::alloc(n, 1, 2);
            a.at_mut(0, 0)[0] = 1;
            a.at_mut(0, 1)[0] = 1;
            let mut pmat: VmpPMat<DeviceBuf<$BE>, $BE> = module.vmp_pmat_alloc(2, 1, 1, 2);
            let mut scratch: ScratchOwned<$BE> = ScratchOwned::alloc(
                module.vmp_prepare_tmp_bytes(2, 1, 1, 2).max(module.vmp_apply_dft_to_dft_tmp_bytes(1, 2, 2, 1, 1, 2)),
            );
            module.vmp_prepare(&mut pmat, &mat, scratch.borrow());
            let mut a_dft: VecZnxDft<DeviceBuf<$BE>, $BE> = module.vec_znx_dft_alloc(1, 2);
            module.vec_znx_dft_apply(1, 0, &mut a_dft, 0, &a, 0);
            for res_size in [2usize, 1] {
                let mut r_dft: VecZnxDft<DeviceBuf<$BE>, $BE> = module.vec_znx_dft_alloc(1, res_size);
                module.vmp_apply_dft_to_dft(&mut r_dft, &a_dft, &pmat, 0, scratch.borrow());
                let mut big: VecZnxBig<DeviceBuf<$BE>, $BE> = module.vec_znx_big_alloc(1, res_size);
                module.vec_znx_idft_apply_tmpa(&mut big, 0, &mut r_dft, 0);
                let have = big.at(0, 0)[0] as i128;
                eprintln!("vmp_apply_dft_to_dft res_size={res_size}: limb 0 = {have}, want 8");
                assert_eq!(have, 8, "res_size={res_size}");
            }
        }
    };
}
d2!(d2_vmp_half_pair_tail_fft64, FFT64Ref); // passes: the f64 sibling picks the 2-column kernel
d2!(d2_vmp_half_pair_tail_ntt120, NTT120Ref);

/// D3: `cnv_pairwise_apply_dft_tmp_bytes(cnv_offset, res_size, ..)` is forwarded with the first two arguments swapped,
/// so the declared scratch is too small whenever `cnv_offset < min(res_size, a_size + b_size - 1)` (0 bytes on NTT120 for offset 0).
macro_rules! d3 {
    ($name:ident, $BE:ty) => {
        #[test]
        fn $name() {
            let n = 8;
            let module: Module<$BE> = Module::<$BE>::new(n as u64);
            let (a_size, b_size, res_size, cnv_offset) = (2usize, 2usize, 3usize, 0usize);
            let a: VecZnx<Vec<u8>> = VecZnx::alloc(n, 2, a_size);
            let b: VecZnx<Vec<u8>> = VecZnx::alloc(n, 2, b_size);
            let mut ap: CnvPVecL<DeviceBuf<$BE>, $BE> = module.cnv_pvec_left_alloc(2, a_size);
            let mut bp: CnvPVecR<DeviceBuf<$BE>, $BE> = module.cnv_pvec_right_alloc(2, b_size);
            let mut s: ScratchOwned<$BE> = ScratchOwned::alloc(
                module.cnv_prepare_left_tmp_bytes(a_size, a_size).max(module.cnv_prepare_right_tmp_bytes(b_size, b_size)),
            );
            module.cnv_prepare_left(&mut ap, &a, !0, s.borrow());
            module.cnv_prepare_right(&mut bp, &b, !0, s.borrow());
            let mut r: VecZnxDft<DeviceBuf<$BE>, $BE> = module.vec_znx_dft_alloc(1, res_size);
            let declared = module.cnv_pairwise_apply_dft_tmp_bytes(cnv_offset, res_size, a_size, b_size);
            let swapped = module.cnv_pairwise_apply_dft_tmp_bytes(res_size, cnv_offset, a_size, b_size);
            eprintln!("pairwise tmp bytes: declared(API order)={declared}  with swapped arguments={swapped}");
            let mut sc: ScratchOwned<$BE> = ScratchOwned::alloc(declared);
            module.cnv_pairwise_apply_dft(cnv_offset, &mut r, 0, &ap, &bp, 0, 1, sc.borrow());
        }
    };
}
d3!(d3_pairwise_tmp_bytes_fft64, FFT64Ref);
d3!(d3_pairwise_tmp_bytes_ntt120, NTT120Ref);
