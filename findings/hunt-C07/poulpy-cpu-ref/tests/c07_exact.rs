//! C07: DFT-domain products equal the exact negacyclic (bivariate) convolution.
//! Reference backends. Run with:
//!   cargo test --offline -j 4 -p poulpy-cpu-ref --test c07_exact -- --test-threads 4
#![allow(dead_code, unused_imports, clippy::too_many_arguments, clippy::needless_range_loop)]

include!("c07/body.rs");

c07_suite!(fft64_ref, poulpy_cpu_ref::FFT64Ref, 17);
c07_suite!(ntt120_ref, poulpy_cpu_ref::NTT120Ref, 50);
