//! C07: DFT-domain products equal the exact negacyclic (bivariate) convolution.
//! AVX2/FMA backends. Run with:
//!   RUSTFLAGS="-C target-feature=+avx2,+fma" cargo test --offline -j 4 -p poulpy-cpu-avx --features enable-avx --test c07_exact_avx -- --test-threads 4
#![cfg(all(feature = "enable-avx", target_arch = "x86_64", target_feature = "avx2", target_feature = "fma"))]
#![allow(dead_code, unused_imports, clippy::too_many_arguments, clippy::needless_range_loop)]

include!("../../poulpy-cpu-ref/tests/c07/body.rs");

c07_suite!(fft64_avx, poulpy_cpu_avx::FFT64Avx, 17);
c07_suite!(ntt120_avx, poulpy_cpu_avx::NTT120Avx, 50);
