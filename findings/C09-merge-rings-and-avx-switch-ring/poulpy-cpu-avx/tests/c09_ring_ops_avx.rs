// C09 audit: coefficient-domain ring operations on the AVX backends (same suite as poulpy-cpu-ref).
// Run: RUSTFLAGS="-C target-feature=+avx2,+fma" cargo test --offline -p poulpy-cpu-avx --features enable-avx --test c09_ring_ops_avx
#![cfg(feature = "enable-avx")]
#[macro_use]
#[path = "../../poulpy-cpu-ref/tests/c09_common/mod.rs"]
mod c09_common;

c09_suite!(fft64_avx, poulpy_cpu_avx::FFT64Avx, i64, 1);
c09_suite!(ntt120_avx, poulpy_cpu_avx::NTT120Avx, i128, 1);
// Same suite restricted to ring degrees >= 4 (separates the n < 4 switch_ring defect from the rest).
c09_suite!(fft64_avx_n4, poulpy_cpu_avx::FFT64Avx, i64, 4);
c09_suite!(ntt120_avx_n4, poulpy_cpu_avx::NTT120Avx, i128, 4);

// Pin-pointing test: which (n_in, n_out) pairs does vec_znx_switch_ring get wrong on the AVX backends,
// and does it write outside of the selected limb (neighbouring column used as a guard)?
mod switch_ring_matrix {
    use crate::c09_common::*;
    use poulpy_hal::{
        api::*,
        layouts::{Module, ZnxView, ZnxViewMut},
    };

    fn run<B: poulpy_hal::layouts::Backend>(m: &Module<B>) -> Vec<String>
    where
        Module<B>: VecZnxSwitchRing,
    {
        let mut rng = Rng(0xC09_00F1);
        let mut bad = Vec::new();
        for log_in in 0..=6 {
            for log_out in 0..=6 {
                let (n_in, n_out) = (1usize << log_in, 1usize << log_out);
                // `a` and `res` get spare limbs/columns behind the selected limb so that the stray 4-lane loads and
                // strided stores of the n_in < 4 up-sampling path stay inside the allocations (keeps this test from
                // corrupting the heap) and show up as modified guard words instead.
                let mut a = vz_rand(n_in, 1, 4, &mut rng, Dist::Full);
                a.set_size(1);
                // column 0 / limb 0 is the target, everything behind it in memory is a guard
                let before = vz_rand(n_out, 2, 4, &mut rng, Dist::Full);
                let mut res = before.clone();
                m.vec_znx_switch_ring(&mut res, 0, &a, 0);
                let want = vz_expect(&before, 0, |j| o_switch(&vz_limb(&a, 0, j), n_out));
                if res.raw() != &want[..] {
                    let target_ok = res.at(0, 0) == &want[..n_out];
                    let guard_ok = res.raw()[n_out..] == want[n_out..];
                    let untouched = res.at(0, 0) == before.at(0, 0);
                    bad.push(format!(
                        "n_in={n_in} n_out={n_out} target_ok={target_ok} target_untouched={untouched} guard_ok={guard_ok}"
                    ));
                }
            }
        }
        bad
    }

    #[test]
    fn fft64_avx_switch_ring_matrix() {
        let m: Module<poulpy_cpu_avx::FFT64Avx> = Module::<poulpy_cpu_avx::FFT64Avx>::new(64);
        let bad = run(&m);
        assert!(bad.is_empty(), "vec_znx_switch_ring wrong for:\n{}", bad.join("\n"));
    }

    #[test]
    fn ntt120_avx_switch_ring_matrix() {
        let m: Module<poulpy_cpu_avx::NTT120Avx> = Module::<poulpy_cpu_avx::NTT120Avx>::new(64);
        let bad = run(&m);
        assert!(bad.is_empty(), "vec_znx_switch_ring wrong for:\n{}", bad.join("\n"));
    }
}
