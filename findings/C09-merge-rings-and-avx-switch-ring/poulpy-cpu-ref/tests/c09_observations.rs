// C09 audit, observation only (not counted as a defect: i64 wrapping is not documented for VecZnx,
// only for the i128 accumulators of NTT120): in debug builds the reference i64 kernels use checked
// `+`, `-` and unary `-`, so coefficients at the edge of the i64 range abort instead of wrapping
// (release builds and the AVX kernels wrap; the NTT120 i128 kernels use wrapping_* explicitly).
// Run: cargo test --offline -p poulpy-cpu-ref --test c09_observations -- --nocapture
use poulpy_cpu_ref::FFT64Ref;
use poulpy_hal::{
    api::*,
    layouts::{Module, VecZnx, ZnxViewMut},
};

fn outcome(name: &str, f: impl FnOnce() + std::panic::UnwindSafe) -> bool {
    let prev = std::panic::take_hook();
    std::panic::set_hook(Box::new(|_| {}));
    let r = std::panic::catch_unwind(f);
    std::panic::set_hook(prev);
    println!("{name}: {}", if r.is_ok() { "completed (wrapped)" } else { "PANICKED (arithmetic overflow check)" });
    r.is_ok()
}

#[test]
fn i64_extremes_on_reference_backend() {
    let n = 4usize;
    let mut a: VecZnx<Vec<u8>> = VecZnx::alloc(n, 1, 1);
    a.at_mut(0, 0).copy_from_slice(&[i64::MIN, i64::MAX, 1, -1]);
    let mut b: VecZnx<Vec<u8>> = VecZnx::alloc(n, 1, 1);
    b.at_mut(0, 0).copy_from_slice(&[-1, 1, 1, -1]);

    let (a1, b1) = (a.clone(), b.clone());
    outcome("vec_znx_add_into  [MIN,MAX,..]+[-1,1,..]", move || {
        let m: Module<FFT64Ref> = Module::<FFT64Ref>::new(4);
        let mut r: VecZnx<Vec<u8>> = VecZnx::alloc(4, 1, 1);
        m.vec_znx_add_into(&mut r, 0, &a1, 0, &b1, 0);
    });
    let a1 = a.clone();
    outcome("vec_znx_negate    [MIN,..]", move || {
        let m: Module<FFT64Ref> = Module::<FFT64Ref>::new(4);
        let mut r: VecZnx<Vec<u8>> = VecZnx::alloc(4, 1, 1);
        m.vec_znx_negate(&mut r, 0, &a1, 0);
    });
    let a1 = a.clone();
    outcome("vec_znx_rotate(-1) [MIN,..] (coefficient 0 wraps around with a sign flip)", move || {
        let m: Module<FFT64Ref> = Module::<FFT64Ref>::new(4);
        let mut r: VecZnx<Vec<u8>> = VecZnx::alloc(4, 1, 1);
        m.vec_znx_rotate(-1, &mut r, 0, &a1, 0);
    });
    let mut a2: VecZnx<Vec<u8>> = VecZnx::alloc(n, 1, 1);
    a2.at_mut(0, 0).copy_from_slice(&[0, 0, i64::MIN, 0]);
    outcome("vec_znx_automorphism(3) [0,0,MIN,0] (X^2 -> X^6 = -X^2)", move || {
        let m: Module<FFT64Ref> = Module::<FFT64Ref>::new(4);
        let mut r: VecZnx<Vec<u8>> = VecZnx::alloc(4, 1, 1);
        m.vec_znx_automorphism(3, &mut r, 0, &a2, 0);
    });
}
