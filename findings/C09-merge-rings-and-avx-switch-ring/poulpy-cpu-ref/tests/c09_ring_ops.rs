// C09 audit: coefficient-domain ring operations on the reference backends.
// Run: cargo test --offline -p poulpy-cpu-ref --test c09_ring_ops
#[macro_use]
mod c09_common;

c09_suite!(fft64_ref, poulpy_cpu_ref::FFT64Ref, i64, 1);
c09_suite!(ntt120_ref, poulpy_cpu_ref::NTT120Ref, i128, 1);
