use poulpy_core::{
    EncryptionLayout, GLWEEncryptPk, GLWEPublicKeyGenerate,
    layouts::{
        GLWE, GLWELayout, GLWEPlaintext, GLWEPublicKey, GLWEPublicKeyPreparedFactory, GLWESecret, GLWESecretPreparedFactory,
        prepared::{GLWEPublicKeyPrepared, GLWESecretPrepared},
    },
};
use poulpy_cpu_ref::FFT64Ref;
use poulpy_hal::{
    api::{ModuleNew, ScratchOwnedAlloc, ScratchOwnedBorrow},
    layouts::{DeviceBuf, Module, ScratchOwned},
    source::Source,
};

/// Public-key encryption under a key generated from the all-zero secret (Distribution::ZERO):
/// the result must not depend on what the scratch buffer held before the call.
#[test]
fn pk_encryption_with_zero_secret_ignores_scratch_contents() {
    let n = 64usize;
    let module: Module<FFT64Ref> = Module::<FFT64Ref>::new(n as u64);
    let base2k = 12usize;
    let infos = EncryptionLayout::new_from_default_sigma(GLWELayout {
        n: (n as u32).into(),
        base2k: base2k.into(),
        k: (4 * base2k + 1).into(),
        rank: 1u32.into(),
    })
    .unwrap();
    let mut sk: GLWESecret<Vec<u8>> = GLWESecret::alloc_from_infos(&infos);
    sk.fill_zero();
    let mut sk_prepared: GLWESecretPrepared<DeviceBuf<FFT64Ref>, FFT64Ref> = module.glwe_secret_prepared_alloc(1u32.into());
    module.glwe_secret_prepare(&mut sk_prepared, &sk);
    let mut pk: GLWEPublicKey<Vec<u8>> = GLWEPublicKey::alloc_from_infos(&infos);
    module.glwe_public_key_generate(&mut pk, &sk_prepared, &infos, &mut Source::new([1u8; 32]), &mut Source::new([2u8; 32]));
    let mut pk_prepared: GLWEPublicKeyPrepared<DeviceBuf<FFT64Ref>, FFT64Ref> = module.glwe_public_key_prepared_alloc_from_infos(&infos);
    module.glwe_public_key_prepare(&mut pk_prepared, &pk);
    let pt: GLWEPlaintext<Vec<u8>> = GLWEPlaintext::alloc_from_infos(&infos);

    let bytes = module.glwe_encrypt_pk_tmp_bytes(&infos);
    let mut out = Vec::new();
    for fill in [0x00u8, 0x5Au8] {
        let mut scratch: ScratchOwned<FFT64Ref> = ScratchOwned::alloc(bytes);
        scratch.data.as_mut().iter_mut().for_each(|b| *b = fill);
        let mut ct: GLWE<Vec<u8>> = GLWE::alloc_from_infos(&infos);
        module.glwe_encrypt_pk(&mut ct, &pt, &pk_prepared, &infos, &mut Source::new([3u8; 32]), &mut Source::new([4u8; 32]), scratch.borrow());
        out.push(ct.data().data.clone());
    }
    assert!(out[0] == out[1], "ciphertext depends on the previous contents of the scratch buffer");
}
