// Random straight-line program engine with an independent model of values and metadata.

pub struct Reg {
    pub ct: Ct,
    pub val: Vec<(F, F)>,
    pub err: f64,
}

pub fn clone_ct(ct: &Ct) -> Ct {
    let mut c = CKKSCiphertext::alloc(P.n.into(), (ct.size() * P.base2k).into(), P.base2k.into());
    assert_eq!(c.size(), ct.size());
    c.data_mut().data.copy_from_slice(&ct.data().data);
    c.set_meta_checked(ct.meta()).unwrap();
    c
}

impl Clone for Reg {
    fn clone(&self) -> Self {
        Reg {
            ct: clone_ct(&self.ct),
            val: self.val.clone(),
            err: self.err,
        }
    }
}

pub struct Engine<'a> {
    pub ctx: &'a Ctx,
    pub src: Source,
    pub regs: Vec<Reg>,
    pub log: Vec<String>,
    /// (kind, detail)
    pub fails: Vec<(String, String)>,
    /// work around the known defects so that the rest of the domain is explored
    pub avoid_known: bool,
    pub max_prec: usize,
    /// op name -> [ok, expected_err, skipped_magnitude]
    pub stats: std::collections::BTreeMap<String, [usize; 3]>,
}

pub struct Model {
    pub meta: Option<CKKSMeta>,
    pub val: Vec<(F, F)>,
    pub err: f64,
}

fn m_unary(src: CKKSMeta, dst_max_k: usize) -> Option<CKKSMeta> {
    let off = src.effective_k().saturating_sub(dst_max_k);
    Some(meta(src.log_delta, src.log_budget.checked_sub(off)?))
}
fn m_bin_into(a: CKKSMeta, b: CKKSMeta, dst_max_k: usize) -> Option<CKKSMeta> {
    let off = a.effective_k().min(b.effective_k()).saturating_sub(dst_max_k);
    Some(meta(
        a.log_delta.min(b.log_delta),
        a.log_budget.min(b.log_budget).checked_sub(off)?,
    ))
}
fn m_bin_assign(d: CKKSMeta, a: CKKSMeta) -> Option<CKKSMeta> {
    Some(meta(d.log_delta.min(a.log_delta), d.log_budget.min(a.log_budget)))
}
fn m_mul_ct(a: CKKSMeta, b: CKKSMeta, dst_max_k: usize) -> Option<CKKSMeta> {
    let bud = a.log_budget.min(b.log_budget).checked_sub(a.log_delta.max(b.log_delta))?;
    let d = a.log_delta.min(b.log_delta);
    let off = (bud + d).saturating_sub(dst_max_k);
    Some(meta(d, bud.checked_sub(off)?))
}
fn m_mul_pt(a: CKKSMeta, pt_delta: usize, dst_max_k: usize) -> Option<CKKSMeta> {
    let bud = a.log_budget.checked_sub(pt_delta)?;
    let d = a.log_delta;
    let off = (bud + d).saturating_sub(dst_max_k);
    Some(meta(d, bud.checked_sub(off)?))
}
fn round_k(k: usize) -> usize {
    k.div_ceil(P.base2k) * P.base2k
}
/// true when ckks_mul on (a,b) hits the known mis-scaling defect
fn mixed_mul_defect(a: CKKSMeta, b: CKKSMeta) -> bool {
    a.effective_k().max(b.effective_k()) != a.log_budget.max(b.log_budget) + a.log_delta.max(b.log_delta)
}
fn quant(x: f64, d: usize) -> F {
    let s = f(2.0).powi(d as i32);
    (f(x) * s).round() / s
}

impl<'a> Engine<'a> {
    pub fn new(ctx: &'a Ctx, seed: u8, avoid_known: bool) -> Self {
        let max_prec = <CKKSPlaintextVecRnx<F> as CKKSPlaintextConversion>::max_log_delta_prec();
        Self {
            ctx,
            src: Source::new([seed; 32]),
            regs: Vec::new(),
            log: Vec::new(),
            fails: Vec::new(),
            avoid_known,
            max_prec,
            stats: Default::default(),
        }
    }

    fn pick(&mut self, n: usize) -> usize {
        {
            let n = n.max(1) as u64;
            self.src.next_u64n(n, n.next_power_of_two() * 2 - 1) as usize
        }
    }

    fn fail(&mut self, kind: &str, detail: String) {
        let prog = self.log.join("\n    ");
        let opname: String = detail
            .split(|c: char| c == '(' || c == '[')
            .next()
            .unwrap_or("")
            .split_whitespace()
            .filter(|w| !(w.starts_with('r') && w.len() <= 3 && w[1..].chars().all(|c| c.is_ascii_digit())))
            .map(|w| if w.contains('*') { "rX*rY" } else { w })
            .collect::<Vec<_>>()
            .join(" ");
        let kind = format!("{kind} @ {opname}");
        self.fails.push((kind, format!("{detail}\n  program:\n    {prog}")));
    }

    pub fn fresh(&mut self, log_delta: usize, k: usize) -> usize {
        let z = rand_slots(&mut self.src, 1.0);
        let seed = self.pick(200) as u8;
        let ct = self.ctx.encrypt(&z, log_delta, k, seed);
        self.log
            .push(format!("r{} = fresh(delta={log_delta}, k={k}) size={}", self.regs.len(), ct.size()));
        self.regs.push(Reg {
            ct,
            val: z,
            err: unit(log_delta),
        });
        self.regs.len() - 1
    }

    /// candidate destination precisions around the natural result width
    fn pick_dst_k(&mut self, nat: usize) -> usize {
        let b = P.base2k;
        let c = [
            nat,
            nat,
            round_k(nat),
            nat.saturating_sub(1).max(1),
            nat.saturating_sub(b).max(1),
            nat.saturating_sub(b + 3).max(1),
            nat.saturating_sub(2 * b + 1).max(1),
            nat + 1,
            nat + b + 5,
            P.k,
            P.k + b,
            b,
        ];
        let i = self.pick(c.len());
        c[i]
    }

    pub fn mag_ok(val: &[(F, F)], m: CKKSMeta) -> bool {
        let mag = max_mag(val).max(1e-9);
        if mag > 1e6 {
            return false;
        }
        // also stay inside what the (<=127 bit) decoder of the harness can represent
        let cap = 120usize.saturating_sub(m.log_delta).min(m.log_budget);
        (mag * 8.0).log2() < (cap as f64) - 1.0
    }

    /// Verifies an out-of-place or in-place result and stores it into register `slot` if it is sound.
    fn settle(&mut self, desc: String, o: Outcome, res: Ct, model: Model, slot: usize) -> bool {
        self.log.push(desc.clone());
        let opname: String = desc
            .split(|c: char| c == '(' || c == '[')
            .next()
            .unwrap_or("")
            .split_whitespace()
            .filter(|w| !w.starts_with('r') || w.len() > 3)
            .collect::<Vec<_>>()
            .join(" ");
        let st_idx = match (&o, &model.meta) {
            (Outcome::Ok, Some(m)) if Self::mag_ok(&model.val, *m) => 0,
            (Outcome::Ok, Some(_)) => 2,
            (Outcome::Err(_, _), None) => 1,
            _ => 3,
        };
        if st_idx < 3 {
            self.stats.entry(opname).or_default()[st_idx] += 1;
        }
        match (o, model.meta) {
            (Outcome::Panic(p), _) => {
                self.fail("PANIC", format!("{desc}: panicked: {p}"));
                false
            }
            (Outcome::Err(_, _), None) => true,
            (Outcome::Err(e, _), Some(m)) => {
                self.fail("UNEXPECTED_ERR", format!("{desc}: model meta {m:?} but Err({e})"));
                false
            }
            (Outcome::Ok, None) => {
                self.fail(
                    "MISSING_ERR",
                    format!("{desc}: model says budget exhausted but Ok with meta {:?} (max_k {})", res.meta(), res.max_k().as_usize()),
                );
                false
            }
            (Outcome::Ok, Some(m)) => {
                if !Self::mag_ok(&model.val, m) {
                    // result would overflow the torus: caller-side misuse, do not judge, do not store
                    self.log.push("   (skipped: magnitude would exceed budget)".into());
                    return true;
                }
                if model.err > 1e-3 * max_mag(&model.val).max(1.0) {
                    self.log.push("   (skipped: error model no longer informative)".into());
                    return true;
                }
                match check(self.ctx, &res, &model.val, m, model.err) {
                    Ok(()) => {
                        let l = self.log.len();
                        self.log[l - 1] = format!("{} -> {:?} size={}", self.log[l - 1], res.meta(), res.size());
                        let reg = Reg {
                            ct: res,
                            val: model.val,
                            err: model.err,
                        };
                        if slot < self.regs.len() {
                            self.regs[slot] = reg;
                        } else {
                            self.regs.push(reg);
                        }
                        true
                    }
                    Err(e) => {
                        let kind = e.split_whitespace().next().unwrap_or("?").to_string();
                        self.fail(&kind, format!("{desc}: {e}"));
                        false
                    }
                }
            }
        }
    }

    fn compact_copy(&self, ct: &Ct) -> Ct {
        self.ctx.module.ckks_compact_limbs_copy(ct).unwrap()
    }

    /// One random step. Returns false if a violation was recorded (program must stop).
    pub fn step(&mut self) -> bool {
        let ctx = self.ctx;
        let nregs = self.regs.len();
        let ia = self.pick(nregs);
        let ib = self.pick(nregs);
        let slot = self.pick(nregs);
        let a = self.regs[ia].clone();
        let b = self.regs[ib].clone();
        let (am, bm) = (a.ct.meta(), b.ct.meta());
        let inplace = self.pick(3) == 0;
        let mut scratch = ctx.scratch();
        let op = self.pick(24);
        let m = P.n / 2;
        match op {
            // ---------------- add / sub ct ----------------
            0 | 1 => {
                let sub = op == 1;
                let name = if sub { "sub" } else { "add" };
                let val: Vec<(F, F)> = a
                    .val
                    .iter()
                    .zip(&b.val)
                    .map(|(x, y)| if sub { csub(*x, *y) } else { cadd(*x, *y) })
                    .collect();
                let err = a.err + b.err + unit(am.log_delta.min(bm.log_delta));
                if inplace {
                    let mut d = clone_ct(&a.ct);
                    let model = Model {
                        meta: m_bin_assign(am, bm),
                        val,
                        err,
                    };
                    let (o, _) = run(|| {
                        if sub {
                            ctx.module.ckks_sub_assign(&mut d, &b.ct, scratch.borrow())
                        } else {
                            ctx.module.ckks_add_assign(&mut d, &b.ct, scratch.borrow())
                        }
                    });
                    self.settle(format!("r{ia} {name}= r{ib}   [{am:?} {bm:?}]"), o, d, model, ia)
                } else {
                    let nat = am.effective_k().min(bm.effective_k());
                    let kd = self.pick_dst_k(nat);
                    let mut d = ctx.alloc_ct_dirty(kd, &mut self.src);
                    let model = Model {
                        meta: m_bin_into(am, bm, d.max_k().as_usize()),
                        val,
                        err,
                    };
                    let (o, _) = run(|| {
                        if sub {
                            ctx.module.ckks_sub_into(&mut d, &a.ct, &b.ct, scratch.borrow())
                        } else {
                            ctx.module.ckks_add_into(&mut d, &a.ct, &b.ct, scratch.borrow())
                        }
                    });
                    self.settle(
                        format!("r{slot} = {name}(r{ia}, r{ib}) dst_k={kd}   [{am:?} {bm:?}]"),
                        o,
                        d,
                        model,
                        slot,
                    )
                }
            }
            // ---------------- add / sub plaintext vector (znx or rnx) ----------------
            2 | 3 => {
                let sub = op == 3;
                let rnx = self.pick(2) == 0;
                let name = format!("{}_pt_vec_{}", if sub { "sub" } else { "add" }, if rnx { "rnx" } else { "znx" });
                let dl = [am.log_delta, am.log_delta.saturating_sub(5).max(4), (am.log_delta + 3).min(self.max_prec).min(100)];
                let pd = dl[self.pick(3)];
                let pb = [2usize, 7, P.base2k][self.pick(3)].min(120usize.saturating_sub(pd));
                let pmeta = meta(pd, pb);
                let z = rand_slots(&mut self.src, 1.0);
                let pt_znx = ctx.encode_znx(&z, pmeta);
                let pt_rnx = ctx.encode_rnx(&z);
                let zq = ctx.decode_znx(&pt_znx);
                let val: Vec<(F, F)> = a
                    .val
                    .iter()
                    .zip(&zq)
                    .map(|(x, y)| if sub { csub(*x, *y) } else { cadd(*x, *y) })
                    .collect();
                let err = a.err + unit(am.log_delta.min(pd));
                let dst_k;
                let mut d;
                let dst_max_k;
                if inplace {
                    d = clone_ct(&a.ct);
                    dst_k = 0;
                    dst_max_k = usize::MAX;
                } else {
                    dst_k = self.pick_dst_k(am.effective_k());
                    d = ctx.alloc_ct_dirty(dst_k, &mut self.src);
                    dst_max_k = d.max_k().as_usize();
                }
                let mm = m_unary(am, dst_max_k).and_then(|r| {
                    if r.log_budget + pd >= pt_znx.max_k().as_usize() {
                        Some(r)
                    } else {
                        None
                    }
                });
                let model = Model { meta: mm, val, err };
                let (o, _) = run(|| match (inplace, rnx, sub) {
                    (true, false, false) => ctx.module.ckks_add_pt_vec_znx_assign(&mut d, &pt_znx, scratch.borrow()),
                    (true, false, true) => ctx.module.ckks_sub_pt_vec_znx_assign(&mut d, &pt_znx, scratch.borrow()),
                    (true, true, false) => ctx.module.ckks_add_pt_vec_rnx_assign(&mut d, &pt_rnx, pmeta, scratch.borrow()),
                    (true, true, true) => ctx.module.ckks_sub_pt_vec_rnx_assign(&mut d, &pt_rnx, pmeta, scratch.borrow()),
                    (false, false, false) => ctx.module.ckks_add_pt_vec_znx_into(&mut d, &a.ct, &pt_znx, scratch.borrow()),
                    (false, false, true) => ctx.module.ckks_sub_pt_vec_znx_into(&mut d, &a.ct, &pt_znx, scratch.borrow()),
                    (false, true, false) => ctx.module.ckks_add_pt_vec_rnx_into(&mut d, &a.ct, &pt_rnx, pmeta, scratch.borrow()),
                    (false, true, true) => ctx.module.ckks_sub_pt_vec_rnx_into(&mut d, &a.ct, &pt_rnx, pmeta, scratch.borrow()),
                });
                let s = if inplace { ia } else { slot };
                self.settle(
                    format!("r{s} = {name}(r{ia}, pt{pmeta:?}) inplace={inplace} dst_k={dst_k}   [{am:?}]"),
                    o,
                    d,
                    model,
                    s,
                )
            }
            // ---------------- add / sub constant (rnx) ----------------
            4 | 5 => {
                let sub = op == 5;
                let name = if sub { "sub_const_rnx" } else { "add_const_rnx" };
                let pd = [am.log_delta, am.log_delta.saturating_sub(6).max(4), 12][self.pick(3)];
                let pmeta = meta(pd, [0usize, 3, P.base2k][self.pick(3)].min(120usize.saturating_sub(pd)));
                let shape = self.pick(4);
                let (cr, ci) = (self.src.next_f64(-1.0, 1.0), self.src.next_f64(-1.0, 1.0));
                let re = if shape & 1 == 0 { Some(f(cr)) } else { None };
                let im = if shape & 2 == 0 { Some(f(ci)) } else { None };
                let cst = CKKSPlaintextCstRnx::<F>::new(re, im);
                let c = (
                    re.map(|_| quant(cr, pd)).unwrap_or(F::zero()),
                    im.map(|_| quant(ci, pd)).unwrap_or(F::zero()),
                );
                let val: Vec<(F, F)> = a.val.iter().map(|x| if sub { csub(*x, c) } else { cadd(*x, c) }).collect();
                let err = a.err + unit(am.log_delta.min(pd));
                let dst_k;
                let mut d;
                let dst_max_k;
                if inplace {
                    d = clone_ct(&a.ct);
                    dst_k = 0;
                    dst_max_k = usize::MAX;
                } else {
                    dst_k = self.pick_dst_k(am.effective_k());
                    d = ctx.alloc_ct_dirty(dst_k, &mut self.src);
                    dst_max_k = d.max_k().as_usize();
                }
                let model = Model {
                    meta: m_unary(am, dst_max_k),
                    val,
                    err,
                };
                let (o, _) = run(|| match (inplace, sub) {
                    (true, false) => ctx.module.ckks_add_pt_const_rnx_assign(&mut d, &cst, pmeta, scratch.borrow()),
                    (true, true) => ctx.module.ckks_sub_pt_const_rnx_assign(&mut d, &cst, pmeta, scratch.borrow()),
                    (false, false) => ctx.module.ckks_add_pt_const_rnx_into(&mut d, &a.ct, &cst, pmeta, scratch.borrow()),
                    (false, true) => ctx.module.ckks_sub_pt_const_rnx_into(&mut d, &a.ct, &cst, pmeta, scratch.borrow()),
                });
                let s = if inplace { ia } else { slot };
                self.settle(
                    format!("r{s} = {name}(r{ia}, c=({re:?},{im:?}) prec{pmeta:?}) inplace={inplace} dst_k={dst_k}   [{am:?}]"),
                    o,
                    d,
                    model,
                    s,
                )
            }
            // ---------------- neg ----------------
            6 => {
                let val: Vec<(F, F)> = a.val.iter().map(|x| cneg(*x)).collect();
                if inplace {
                    let mut d = clone_ct(&a.ct);
                    let model = Model {
                        meta: Some(am),
                        val,
                        err: a.err,
                    };
                    let (o, _) = run(|| ctx.module.ckks_neg_assign(&mut d));
                    self.settle(format!("r{ia} = -r{ia}"), o, d, model, ia)
                } else {
                    let kd = self.pick_dst_k(am.effective_k());
                    let mut d = ctx.alloc_ct_dirty(kd, &mut self.src);
                    let model = Model {
                        meta: m_unary(am, d.max_k().as_usize()),
                        val,
                        err: a.err + unit(am.log_delta),
                    };
                    let (o, _) = run(|| ctx.module.ckks_neg_into(&mut d, &a.ct, scratch.borrow()));
                    self.settle(format!("r{slot} = neg(r{ia}) dst_k={kd}   [{am:?}]"), o, d, model, slot)
                }
            }
            // ---------------- ct x ct mul / square ----------------
            7 | 8 => {
                let square = op == 8;
                let (b, bm, ib) = if square { (a.clone(), am, ia) } else { (b, bm, ib) };
                if self.avoid_known && mixed_mul_defect(am, bm) {
                    return true;
                }
                let (ac, bc) = if self.avoid_known {
                    (self.compact_copy(&a.ct), self.compact_copy(&b.ct))
                } else {
                    (clone_ct(&a.ct), clone_ct(&b.ct))
                };
                let val: Vec<(F, F)> = a.val.iter().zip(&b.val).map(|(x, y)| cmul(*x, *y)).collect();
                let (ma, mb) = (max_mag(&a.val), max_mag(&b.val));
                let err = 2.0 * (a.err * mb + b.err * ma + a.err * b.err) + unit(am.log_delta.min(bm.log_delta)) * (1.0 + ma + mb + ma * mb);
                if inplace {
                    let mut d = ac;
                    let model = Model {
                        meta: m_mul_ct(am, bm, d.max_k().as_usize()),
                        val,
                        err,
                    };
                    let (o, _) = run(|| {
                        if square {
                            ctx.module.ckks_square_assign(&mut d, &ctx.tsk, scratch.borrow())
                        } else {
                            ctx.module.ckks_mul_assign(&mut d, &bc, &ctx.tsk, scratch.borrow())
                        }
                    });
                    self.settle(
                        format!("r{ia} *= r{ib} (square={square})   [{am:?} size {} | {bm:?} size {}]", a.ct.size(), b.ct.size()),
                        o,
                        d,
                        model,
                        ia,
                    )
                } else {
                    let nat = match m_mul_ct(am, bm, usize::MAX) {
                        Some(r) => r.effective_k().max(1),
                        None => P.k,
                    };
                    let kd = self.pick_dst_k(nat);
                    let mut d = ctx.alloc_ct_dirty(kd, &mut self.src);
                    let model = Model {
                        meta: m_mul_ct(am, bm, d.max_k().as_usize()),
                        val,
                        err,
                    };
                    let (o, _) = run(|| {
                        if square {
                            ctx.module.ckks_square_into(&mut d, &ac, &ctx.tsk, scratch.borrow())
                        } else {
                            ctx.module.ckks_mul_into(&mut d, &ac, &bc, &ctx.tsk, scratch.borrow())
                        }
                    });
                    self.settle(
                        format!(
                            "r{slot} = mul(r{ia}, r{ib}) square={square} dst_k={kd}   [{am:?} size {} | {bm:?} size {}]",
                            a.ct.size(),
                            b.ct.size()
                        ),
                        o,
                        d,
                        model,
                        slot,
                    )
                }
            }
            // ---------------- ct x plaintext vector ----------------
            9 => {
                let rnx = self.pick(2) == 0;
                let pd = [am.log_delta, am.log_delta.saturating_sub(9).max(4), 8][self.pick(3)];
                let pmeta = meta(pd, [2usize, 9, P.base2k][self.pick(3)].min(120usize.saturating_sub(pd)));
                let z = rand_slots(&mut self.src, 1.0);
                let pt_znx = ctx.encode_znx(&z, pmeta);
                let pt_rnx = ctx.encode_rnx(&z);
                let zq = ctx.decode_znx(&pt_znx);
                let val: Vec<(F, F)> = a.val.iter().zip(&zq).map(|(x, y)| cmul(*x, *y)).collect();
                let ma = max_mag(&a.val);
                let err = 4.0 * a.err + unit(am.log_delta) * (2.0 + ma);
                let ac = if self.avoid_known { self.compact_copy(&a.ct) } else { clone_ct(&a.ct) };
                let (mut d, dst_k) = if inplace {
                    (clone_ct(&ac), 0)
                } else {
                    let nat = m_mul_pt(am, pd, usize::MAX).map(|r| r.effective_k().max(1)).unwrap_or(P.k);
                    let kd = self.pick_dst_k(nat);
                    (ctx.alloc_ct_dirty(kd, &mut self.src), kd)
                };
                let model = Model {
                    meta: m_mul_pt(am, pd, d.max_k().as_usize()),
                    val,
                    err,
                };
                let (o, _) = run(|| match (inplace, rnx) {
                    (true, false) => ctx.module.ckks_mul_pt_vec_znx_assign(&mut d, &pt_znx, scratch.borrow()),
                    (true, true) => ctx.module.ckks_mul_pt_vec_rnx_assign(&mut d, &pt_rnx, pmeta, scratch.borrow()),
                    (false, false) => ctx.module.ckks_mul_pt_vec_znx_into(&mut d, &ac, &pt_znx, scratch.borrow()),
                    (false, true) => ctx.module.ckks_mul_pt_vec_rnx_into(&mut d, &ac, &pt_rnx, pmeta, scratch.borrow()),
                });
                let s = if inplace { ia } else { slot };
                self.settle(
                    format!(
                        "r{s} = mul_pt_vec(r{ia}, pt{pmeta:?}) rnx={rnx} inplace={inplace} dst_k={dst_k}   [{am:?} size {}]",
                        a.ct.size()
                    ),
                    o,
                    d,
                    model,
                    s,
                )
            }
            // ---------------- ct x constant ----------------
            10 => {
                let znx = self.pick(2) == 0;
                let pd = [am.log_delta, am.log_delta.saturating_sub(9).max(4), 6][self.pick(3)];
                let pmeta = meta(pd, [2usize, 9, P.base2k][self.pick(3)].min(120usize.saturating_sub(pd)));
                let shape = self.pick(4);
                let (cr, ci) = (self.src.next_f64(-1.0, 1.0), self.src.next_f64(-1.0, 1.0));
                let re = if shape & 1 == 0 { Some(f(cr)) } else { None };
                let im = if shape & 2 == 0 { Some(f(ci)) } else { None };
                let cst = CKKSPlaintextCstRnx::<F>::new(re, im);
                let c = (
                    re.map(|_| quant(cr, pd)).unwrap_or(F::zero()),
                    im.map(|_| quant(ci, pd)).unwrap_or(F::zero()),
                );
                let val: Vec<(F, F)> = a.val.iter().map(|x| cmul(*x, c)).collect();
                let ma = max_mag(&a.val);
                let err = 4.0 * a.err + unit(am.log_delta) * (2.0 + ma);
                let ac = if self.avoid_known { self.compact_copy(&a.ct) } else { clone_ct(&a.ct) };
                let (mut d, dst_k) = if inplace {
                    (clone_ct(&ac), 0)
                } else {
                    let nat = m_mul_pt(am, pd, usize::MAX).map(|r| r.effective_k().max(1)).unwrap_or(P.k);
                    let kd = self.pick_dst_k(nat);
                    (ctx.alloc_ct_dirty(kd, &mut self.src), kd)
                };
                let model = Model {
                    meta: m_mul_pt(am, pd, d.max_k().as_usize()),
                    val,
                    err,
                };
                let (o, _) = run(|| {
                    if znx {
                        let cz = cst.to_znx(P.base2k.into(), pmeta)?;
                        if inplace {
                            ctx.module.ckks_mul_pt_const_znx_assign(&mut d, &cz, scratch.borrow())
                        } else {
                            ctx.module.ckks_mul_pt_const_znx_into(&mut d, &ac, &cz, scratch.borrow())
                        }
                    } else if inplace {
                        ctx.module.ckks_mul_pt_const_rnx_assign(&mut d, &cst, pmeta, scratch.borrow())
                    } else {
                        ctx.module.ckks_mul_pt_const_rnx_into(&mut d, &ac, &cst, pmeta, scratch.borrow())
                    }
                });
                let s = if inplace { ia } else { slot };
                self.settle(
                    format!(
                        "r{s} = mul_const(r{ia}, c=({re:?},{im:?}) prec{pmeta:?}) znx={znx} inplace={inplace} dst_k={dst_k}   [{am:?} size {}]",
                        a.ct.size()
                    ),
                    o,
                    d,
                    model,
                    s,
                )
            }
            // ---------------- mul_pow2 / div_pow2 ----------------
            11 | 12 => {
                let div = op == 12;
                let bits = [0usize, 1, 3, 7, P.base2k, P.base2k + 2][self.pick(6)];
                let s2 = f(2.0).powi(bits as i32);
                let val: Vec<(F, F)> = a.val.iter().map(|x| if div { cscale(*x, s2.recip()) } else { cscale(*x, s2) }).collect();
                let sc = (bits as f64).exp2();
                if div && am.log_delta + bits > self.max_prec.saturating_sub(2).min(100) && !inplace {
                    return true;
                }
                if inplace {
                    let mut d = clone_ct(&a.ct);
                    let model = if div {
                        Model {
                            meta: am.log_budget.checked_sub(bits).map(|b| meta(am.log_delta, b)),
                            val,
                            err: a.err / sc + unit(am.log_delta),
                        }
                    } else {
                        Model {
                            meta: Some(am),
                            val,
                            err: a.err * sc + unit(am.log_delta),
                        }
                    };
                    let (o, _) = run(|| {
                        if div {
                            ctx.module.ckks_div_pow2_assign(&mut d, bits)
                        } else {
                            ctx.module.ckks_mul_pow2_assign(&mut d, bits, scratch.borrow())
                        }
                    });
                    self.settle(format!("r{ia} = pow2_assign(r{ia}, div={div}, bits={bits})   [{am:?}]"), o, d, model, ia)
                } else {
                    let kd = self.pick_dst_k(am.effective_k());
                    let mut d = ctx.alloc_ct_dirty(kd, &mut self.src);
                    let u = m_unary(am, d.max_k().as_usize());
                    let model = if div {
                        Model {
                            meta: u.and_then(|r| r.log_budget.checked_sub(bits).map(|b| meta(r.log_delta + bits, b))),
                            val,
                            err: a.err / sc + unit(am.log_delta),
                        }
                    } else {
                        Model {
                            meta: u,
                            val,
                            err: a.err * sc + unit(am.log_delta) * sc,
                        }
                    };
                    let (o, _) = run(|| {
                        if div {
                            ctx.module.ckks_div_pow2_into(&mut d, &a.ct, bits, scratch.borrow())
                        } else {
                            ctx.module.ckks_mul_pow2_into(&mut d, &a.ct, bits, scratch.borrow())
                        }
                    });
                    self.settle(
                        format!("r{slot} = pow2_into(r{ia}, div={div}, bits={bits}) dst_k={kd}   [{am:?}]"),
                        o,
                        d,
                        model,
                        slot,
                    )
                }
            }
            // ---------------- rotate / conjugate ----------------
            13 | 14 => {
                let conj = op == 14;
                let r = if conj {
                    -1
                } else {
                    let mut r = self.pick(2 * m - 1) as i64 - (m as i64 - 1);
                    if r == 0 || r == -1 {
                        r = 1;
                    }
                    r
                };
                let val: Vec<(F, F)> = if conj {
                    a.val.iter().map(|x| (x.0, -x.1)).collect()
                } else {
                    rot(&a.val, r)
                };
                let err = a.err + unit(am.log_delta) * (1.0 + max_mag(&a.val));
                if inplace {
                    let mut d = clone_ct(&a.ct);
                    let model = Model {
                        meta: Some(am),
                        val,
                        err,
                    };
                    let (o, _) = run(|| {
                        if conj {
                            ctx.module.ckks_conjugate_assign(&mut d, &ctx.atks[&-1], scratch.borrow())
                        } else {
                            ctx.module.ckks_rotate_assign(&mut d, r, &ctx.atks, scratch.borrow())
                        }
                    });
                    self.settle(format!("r{ia} = rot_assign(r{ia}, {r}) conj={conj}   [{am:?} size {}]", a.ct.size()), o, d, model, ia)
                } else {
                    let kd = self.pick_dst_k(am.effective_k());
                    let mut d = ctx.alloc_ct_dirty(kd, &mut self.src);
                    let model = Model {
                        meta: m_unary(am, d.max_k().as_usize()),
                        val,
                        err,
                    };
                    let (o, _) = run(|| {
                        if conj {
                            ctx.module.ckks_conjugate_into(&mut d, &a.ct, &ctx.atks[&-1], scratch.borrow())
                        } else {
                            ctx.module.ckks_rotate_into(&mut d, &a.ct, r, &ctx.atks, scratch.borrow())
                        }
                    });
                    self.settle(
                        format!("r{slot} = rot_into(r{ia}, {r}) conj={conj} dst_k={kd}   [{am:?} size {}]", a.ct.size()),
                        o,
                        d,
                        model,
                        slot,
                    )
                }
            }
            // ---------------- rescale ----------------
            15 => {
                let kk = [0usize, 1, 5, P.base2k, P.base2k + 4, am.log_budget, am.log_budget + 1][self.pick(7)];
                let val = a.val.clone();
                let err = a.err + unit(am.log_delta);
                let mm = am.log_budget.checked_sub(kk).map(|b| meta(am.log_delta, b));
                if inplace {
                    let mut d = clone_ct(&a.ct);
                    let model = Model { meta: mm, val, err };
                    let (o, _) = run(|| ctx.module.ckks_rescale_assign(&mut d, kk, scratch.borrow()));
                    self.settle(format!("r{ia} = rescale_assign(r{ia}, {kk})   [{am:?}]"), o, d, model, ia)
                } else {
                    // destination large enough for the rescaled value (smaller ones are probed by a directed test)
                    let nat = am.effective_k().saturating_sub(kk).max(1);
                    let kd = [nat, round_k(nat), nat + P.base2k, P.k][self.pick(4)];
                    let mut d = ctx.alloc_ct_dirty(kd, &mut self.src);
                    let model = Model { meta: mm, val, err };
                    let (o, _) = run(|| ctx.module.ckks_rescale_into(&mut d, kk, &a.ct, scratch.borrow()));
                    self.settle(format!("r{slot} = rescale_into(r{ia}, {kk}) dst_k={kd}   [{am:?}]"), o, d, model, slot)
                }
            }
            // ---------------- compaction / reallocation ----------------
            16 => {
                let mut d = clone_ct(&a.ct);
                let which = self.pick(3);
                let target = match which {
                    0 => eff_limbs(&d),
                    1 => d.size() + 1 + self.pick(2),
                    _ => eff_limbs(&d).saturating_sub(1),
                };
                let expect_ok = target >= eff_limbs(&d);
                let model = Model {
                    meta: if expect_ok { Some(am) } else { None },
                    val: a.val.clone(),
                    err: a.err,
                };
                let (o, _) = run(|| {
                    if which == 0 {
                        ctx.module.ckks_compact_limbs(&mut d)
                    } else {
                        ctx.module.ckks_reallocate_limbs_checked(&mut d, target)
                    }
                });
                if matches!(o, Outcome::Ok) && d.size() != target {
                    self.fail("REALLOC", format!("size {} want {target}", d.size()));
                    return false;
                }
                self.settle(format!("r{ia} = realloc(r{ia}, limbs={target}, which={which})   [{am:?} size {}]", a.ct.size()), o, d, model, ia)
            }
            // ---------------- mul_add / mul_sub (ct x ct) ----------------
            17 | 18 => {
                let sub = op == 18;
                let c = self.regs[slot].clone();
                let cm = c.ct.meta();
                if self.avoid_known && mixed_mul_defect(am, bm) {
                    return true;
                }
                let (ac, bc) = if self.avoid_known {
                    (self.compact_copy(&a.ct), self.compact_copy(&b.ct))
                } else {
                    (clone_ct(&a.ct), clone_ct(&b.ct))
                };
                let mut d = clone_ct(&c.ct);
                let prod = m_mul_ct(am, bm, d.max_k().as_usize());
                let mm = prod.and_then(|p| m_bin_assign(cm, p));
                let val: Vec<(F, F)> = c
                    .val
                    .iter()
                    .zip(a.val.iter().zip(&b.val))
                    .map(|(z, (x, y))| if sub { csub(*z, cmul(*x, *y)) } else { cadd(*z, cmul(*x, *y)) })
                    .collect();
                let (ma, mb) = (max_mag(&a.val), max_mag(&b.val));
                let err = c.err
                    + 2.0 * (a.err * mb + b.err * ma + a.err * b.err)
                    + unit(am.log_delta.min(bm.log_delta).min(cm.log_delta)) * (2.0 + ma + mb + ma * mb);
                let model = Model { meta: mm, val, err };
                let (o, _) = run(|| {
                    if sub {
                        ctx.module.ckks_mul_sub_ct_into(&mut d, &ac, &bc, &ctx.tsk, scratch.borrow())
                    } else {
                        ctx.module.ckks_mul_add_ct_into(&mut d, &ac, &bc, &ctx.tsk, scratch.borrow())
                    }
                });
                self.settle(
                    format!("r{slot} {}= r{ia}*r{ib}   [dst {cm:?} size {} | {am:?} | {bm:?}]", if sub { "-" } else { "+" }, c.ct.size()),
                    o,
                    d,
                    model,
                    slot,
                )
            }
            // ---------------- mul_add / mul_sub with plaintext vec / const ----------------
            19 | 20 => {
                let sub = op == 20;
                let c = self.regs[slot].clone();
                let cm = c.ct.meta();
                let kind = self.pick(3); // 0 znx vec, 1 rnx vec, 2 const rnx
                let pd = [am.log_delta, am.log_delta.saturating_sub(9).max(4), 8][self.pick(3)];
                let pmeta = meta(pd, [2usize, 9, P.base2k][self.pick(3)].min(120usize.saturating_sub(pd)));
                let z = rand_slots(&mut self.src, 1.0);
                let pt_znx = ctx.encode_znx(&z, pmeta);
                let pt_rnx = ctx.encode_rnx(&z);
                let (cr, ci) = (self.src.next_f64(-1.0, 1.0), self.src.next_f64(-1.0, 1.0));
                let cst = CKKSPlaintextCstRnx::<F>::new(Some(f(cr)), Some(f(ci)));
                let zq: Vec<(F, F)> = if kind == 2 {
                    vec![(quant(cr, pd), quant(ci, pd)); m]
                } else {
                    ctx.decode_znx(&pt_znx)
                };
                let ac = if self.avoid_known { self.compact_copy(&a.ct) } else { clone_ct(&a.ct) };
                let mut d = clone_ct(&c.ct);
                let prod = m_mul_pt(am, pd, d.max_k().as_usize());
                let mm = prod.and_then(|p| m_bin_assign(cm, p));
                let val: Vec<(F, F)> = c
                    .val
                    .iter()
                    .zip(a.val.iter().zip(&zq))
                    .map(|(z, (x, y))| if sub { csub(*z, cmul(*x, *y)) } else { cadd(*z, cmul(*x, *y)) })
                    .collect();
                let ma = max_mag(&a.val);
                let err = c.err + 4.0 * a.err + unit(am.log_delta.min(cm.log_delta)) * (3.0 + ma);
                let model = Model { meta: mm, val, err };
                let (o, _) = run(|| match (kind, sub) {
                    (0, false) => ctx.module.ckks_mul_add_pt_vec_znx_into(&mut d, &ac, &pt_znx, scratch.borrow()),
                    (0, true) => ctx.module.ckks_mul_sub_pt_vec_znx_into(&mut d, &ac, &pt_znx, scratch.borrow()),
                    (1, false) => ctx.module.ckks_mul_add_pt_vec_rnx_into(&mut d, &ac, &pt_rnx, pmeta, scratch.borrow()),
                    (1, true) => ctx.module.ckks_mul_sub_pt_vec_rnx_into(&mut d, &ac, &pt_rnx, pmeta, scratch.borrow()),
                    (_, false) => ctx.module.ckks_mul_add_pt_const_rnx_into(&mut d, &ac, &cst, pmeta, scratch.borrow()),
                    (_, true) => ctx.module.ckks_mul_sub_pt_const_rnx_into(&mut d, &ac, &cst, pmeta, scratch.borrow()),
                });
                self.settle(
                    format!(
                        "r{slot} {}= r{ia}*pt(kind={kind}, {pmeta:?})   [dst {cm:?} size {} | {am:?}]",
                        if sub { "-" } else { "+" },
                        c.ct.size()
                    ),
                    o,
                    d,
                    model,
                    slot,
                )
            }
            // ---------------- refresh a register with a new encryption ----------------
            21 | 22 | 23 if op != 21 || ia == ib => {
                let d = P.log_delta - self.pick(10);
                let k = P.k - self.pick(3 * P.base2k);
                let z = rand_slots(&mut self.src, 1.0);
                let seed = self.pick(200) as u8;
                let ct = ctx.encrypt(&z, d, k, seed);
                self.log.push(format!("r{slot} = fresh(delta={d}, k={k}) size={}", ct.size()));
                self.regs[slot] = Reg {
                    ct,
                    val: z,
                    err: unit(d),
                };
                true
            }
            // ---------------- align ----------------
            _ => {
                if ia == ib {
                    return true;
                }
                let mut da = clone_ct(&a.ct);
                let mut db = clone_ct(&b.ct);
                let (o, _) = run(|| ctx.module.ckks_align_assign(&mut da, &mut db, scratch.borrow()));
                let t = am.log_budget.min(bm.log_budget);
                let model_a = Model {
                    meta: Some(meta(am.log_delta, t)),
                    val: a.val.clone(),
                    err: a.err + unit(am.log_delta),
                };
                let model_b = Model {
                    meta: Some(meta(bm.log_delta, t)),
                    val: b.val.clone(),
                    err: b.err + unit(bm.log_delta),
                };
                let ok = matches!(o, Outcome::Ok);
                let r1 = self.settle(format!("align(r{ia}, r{ib}) [a]   [{am:?} {bm:?}]"), o, da, model_a, ia);
                if !r1 || !ok {
                    return r1;
                }
                self.settle(format!("align(r{ia}, r{ib}) [b]"), Outcome::Ok, db, model_b, ib)
            }
        }
    }
}
