use std::sync::LazyLock;

static CTX: LazyLock<Ctx> = LazyLock::new(|| {
    let m = (P.n / 2) as i64;
    let rots: Vec<i64> = (-(m - 1)..m).filter(|&r| r != 0 && r != -1).collect();
    Ctx::new(&rots)
});

#[test]
fn smoke_encrypt_decrypt() {
    let ctx = &*CTX;
    let mut src = Source::new([7u8; 32]);
    let z = rand_slots(&mut src, 1.0);
    let ct = ctx.encrypt(&z, P.log_delta, P.k, 3);
    assert_eq!(ct.log_delta(), P.log_delta);
    assert_eq!(ct.log_budget(), P.k - P.log_delta);
    let got = ctx.decrypt(&ct).unwrap();
    let e = max_err(&got, &z);
    let tol = (P.n as f64) * 16.0 * (-(P.log_delta.min(50) as f64)).exp2();
    assert!(e < tol, "err {e} tol {tol}");
}

// ------------------------------------------------------------------------------------------------
// Directed: ct x ct multiplication with unequal (log_delta, log_budget) pairs.
// ------------------------------------------------------------------------------------------------
fn mul_mixed_case(da: usize, ka: usize, db: usize, kb: usize) -> Result<(), String> {
    let ctx = &*CTX;
    let mut src = Source::new([11u8; 32]);
    let za = rand_slots(&mut src, 1.0);
    let zb = rand_slots(&mut src, 1.0);
    let a = ctx.encrypt(&za, da, ka, 5);
    let b = ctx.encrypt(&zb, db, kb, 6);
    let want: Vec<(F, F)> = za.iter().zip(&zb).map(|(x, y)| cmul(*x, *y)).collect();
    let (ba, bb) = (a.log_budget(), b.log_budget());
    let bud = ba.min(bb).checked_sub(da.max(db));
    let mut scratch = ctx.scratch();
    let mut dst = ctx.alloc_ct(P.k);
    let (o, _) = run(|| ctx.module.ckks_mul_into(&mut dst, &a, &b, &ctx.tsk, scratch.borrow()));
    match (o, bud) {
        (Outcome::Ok, Some(bud)) => {
            let wm = meta(da.min(db), bud);
            check(ctx, &dst, &want, wm, 8.0 * unit(da.min(db))).map_err(|e| format!("a=({da},{ba}) b=({db},{bb}): {e}"))
        }
        (Outcome::Err(_, true), None) => Ok(()),
        (o, bud) => Err(format!("a=({da},{ba}) b=({db},{bb}): outcome {o:?}, model budget {bud:?}")),
    }
}

#[test]
fn mul_ct_mixed_meta() {
    let d = P.log_delta;
    let b2k = P.base2k;
    let mut fails = Vec::new();
    // (da, ka, db, kb): all compact (k multiple of base2k not required; size == ceil(k/base2k) at encryption)
    let cases = [
        (d, P.k, d, P.k),
        (d, P.k, d - 7, P.k),             // same eff_k, different delta -> different budget
        (d - 7, P.k, d, P.k),
        (d, P.k, d, P.k - b2k),           // same delta, different budget
        (d, P.k - b2k, d, P.k),
        (d, P.k, d - 7, P.k - b2k),       // larger delta & larger budget on a
        (d - 7, P.k, d, P.k - b2k),       // smaller delta, much larger budget on a
        (d, P.k - 5, d - 7, P.k),         // a: larger delta, smaller budget
        (d - 7, P.k, d, P.k - 5),
        (d, P.k - 3, d - 10, P.k - 3),
    ];
    for (da, ka, db, kb) in cases {
        if let Err(e) = mul_mixed_case(da, ka, db, kb) {
            fails.push(e);
        }
    }
    assert!(fails.is_empty(), "{} failures:\n{}", fails.len(), fails.join("\n"));
}

// ------------------------------------------------------------------------------------------------
// Random straight-line programs.
// ------------------------------------------------------------------------------------------------
fn run_programs(seeds: std::ops::Range<u8>, steps: usize, avoid_known: bool) -> Vec<(String, String)> {
    let ctx = &*CTX;
    let mut all = Vec::new();
    let mut stats: std::collections::BTreeMap<String, [usize; 3]> = Default::default();
    for seed in seeds {
        let mut e = Engine::new(ctx, seed, avoid_known);
        let d = P.log_delta;
        // registers with unequal log_delta / log_budget / limb counts
        e.fresh(d, P.k);
        e.fresh(d, P.k - 3);
        let dd = d - 1 - e.pick(9);
        let kk = P.k - e.pick(2 * P.base2k);
        e.fresh(dd, kk);
        let kk = P.k - P.base2k - e.pick(P.base2k);
        e.fresh(d, kk);
        for _ in 0..steps {
            if !e.step() {
                break;
            }
        }
        all.extend(e.fails);
        for (k, v) in e.stats {
            let t = stats.entry(k).or_default();
            for i in 0..3 {
                t[i] += v[i];
            }
        }
    }
    println!("op statistics [ok, expected_err, skipped]:");
    for (k, v) in &stats {
        println!("  {k:40} {v:?}");
    }
    all
}

fn report(fails: Vec<(String, String)>) {
    if fails.is_empty() {
        return;
    }
    let mut kinds: HashMap<String, usize> = HashMap::new();
    for (k, _) in &fails {
        *kinds.entry(k.clone()).or_default() += 1;
    }
    let mut shown: HashMap<String, usize> = HashMap::new();
    let mut msg = format!("{} failing programs; kinds {:?}\n", fails.len(), kinds);
    for (k, d) in &fails {
        let c = shown.entry(k.clone()).or_default();
        if *c < 1 {
            msg += &format!("--- [{k}] {d}\n");
        }
        *c += 1;
    }
    panic!("{msg}");
}

#[test]
fn random_programs_raw() {
    report(run_programs(0..60, 20, false));
}

#[test]
fn random_programs_avoiding_known() {
    report(run_programs(0..250, 30, true));
}

// ------------------------------------------------------------------------------------------------
// Directed: every rotation index, with and without key, into / assign, several ciphertext widths.
// ------------------------------------------------------------------------------------------------
#[test]
fn rotate_all_indices() {
    let ctx = &*CTX;
    let m = (P.n / 2) as i64;
    let mut src = Source::new([21u8; 32]);
    let z = rand_slots(&mut src, 1.0);
    let mut fails = Vec::new();
    for k in [P.k, P.k - 3, P.k - P.base2k - 8] {
        let ct = ctx.encrypt(&z, P.log_delta, k, 9);
        for r in -(m + 2)..(m + 3) {
            if r == -1 {
                continue; // index -1 holds the conjugation key in this harness
            }
            let has_key = ctx.atks.contains_key(&r);
            let want = rot(&z, r);
            let tol = 4.0 * unit(P.log_delta);
            // into
            let mut scratch = ctx.scratch();
            let mut d = ctx.alloc_ct_dirty(k, &mut src);
            let (o, _) = run(|| ctx.module.ckks_rotate_into(&mut d, &ct, r, &ctx.atks, scratch.borrow()));
            match (&o, has_key) {
                (Outcome::Ok, true) => {
                    if let Err(e) = check(ctx, &d, &want, ct.meta(), tol) {
                        fails.push(format!("rotate_into k={k} r={r}: {e}"));
                    }
                }
                (Outcome::Err(_, true), false) => {}
                _ => fails.push(format!("rotate_into k={k} r={r} has_key={has_key}: {o:?}")),
            }
            // assign
            let mut d = clone_ct(&ct);
            let (o, _) = run(|| ctx.module.ckks_rotate_assign(&mut d, r, &ctx.atks, scratch.borrow()));
            match (&o, has_key) {
                (Outcome::Ok, true) => {
                    if let Err(e) = check(ctx, &d, &want, ct.meta(), tol) {
                        fails.push(format!("rotate_assign k={k} r={r}: {e}"));
                    }
                }
                (Outcome::Err(_, true), false) => {}
                _ => fails.push(format!("rotate_assign k={k} r={r} has_key={has_key}: {o:?}")),
            }
        }
    }
    assert!(fails.is_empty(), "{} failures:\n{}", fails.len(), fails.join("\n"));
}

#[test]
fn print_one_program() {
    let ctx = &*CTX;
    let mut e = Engine::new(ctx, 3, true);
    e.fresh(P.log_delta, P.k);
    e.fresh(P.log_delta, P.k - 3);
    for _ in 0..30 {
        if !e.step() {
            break;
        }
    }
    println!("{}", e.log.join("\n"));
    println!("{:?}", e.stats);
}

// ------------------------------------------------------------------------------------------------
// Directed: operands with more limbs than ceil(effective_k / base2k) fed to the multiplication family.
// Every one of these ciphertexts is produced by the library itself from a fresh encryption.
// ------------------------------------------------------------------------------------------------
#[test]
fn mul_family_on_non_compact_operands() {
    let ctx = &*CTX;
    let mut src = Source::new([31u8; 32]);
    let z = rand_slots(&mut src, 1.0);
    let d = P.log_delta;
    let fresh = ctx.encrypt(&z, d, P.k, 4);
    let mut scratch = ctx.scratch();
    let mut fails = Vec::new();

    // (label, producer of a valid, library-made, non-compact ciphertext holding `z`)
    let mut makers: Vec<(&str, Ct)> = Vec::new();
    {
        let mut a = clone_ct(&fresh);
        ctx.module.ckks_rescale_assign(&mut a, P.base2k + 1, scratch.borrow()).unwrap();
        makers.push(("rescale_assign(base2k+1)", a));
        let mut a = clone_ct(&fresh);
        ctx.module.ckks_div_pow2_assign(&mut a, P.base2k + 1).unwrap();
        ctx.module.ckks_mul_pow2_assign(&mut a, P.base2k + 1, scratch.borrow()).unwrap();
        makers.push(("div_pow2_assign;mul_pow2_assign", a));
        let mut a = ctx.alloc_ct(P.k + P.base2k);
        ctx.module.ckks_neg_into(&mut a, &fresh, scratch.borrow()).unwrap();
        ctx.module.ckks_neg_assign(&mut a).unwrap();
        makers.push(("neg_into(larger dst)", a));
        let mut a = clone_ct(&fresh);
        ctx.module.ckks_reallocate_limbs_checked(&mut a, fresh.size() + 1).unwrap();
        makers.push(("reallocate_limbs_checked(+1)", a));
    }
    let want_sq: Vec<(F, F)> = z.iter().map(|x| cmul(*x, *x)).collect();
    for (label, a) in &makers {
        assert!(a.size() > eff_limbs(a), "{label}: expected non compact");
        assert!(a.effective_k() <= a.max_k().as_usize());
        // sanity: the value is still there
        check(ctx, a, &z, a.meta(), 8.0 * unit(d)).unwrap();

        let mut dst = ctx.alloc_ct(P.k);
        let (o, _) = run(|| ctx.module.ckks_square_into(&mut dst, a, &ctx.tsk, scratch.borrow()));
        match o {
            Outcome::Ok => {
                let wm = m_mul_ct(a.meta(), a.meta(), dst.max_k().as_usize()).unwrap();
                if let Err(e) = check(ctx, &dst, &want_sq, wm, 16.0 * unit(d)) {
                    fails.push(format!("{label}: square_into: {e}"));
                }
            }
            o => fails.push(format!("{label}: square_into {:?} size {} -> {o:?}", a.meta(), a.size())),
        }
        let mut dst = ctx.alloc_ct(P.k);
        let (o, _) = run(|| ctx.module.ckks_mul_into(&mut dst, a, &fresh, &ctx.tsk, scratch.borrow()));
        if !matches!(o, Outcome::Ok) {
            fails.push(format!("{label}: mul_into(a, fresh) -> {o:?}"));
        }
        let pt = ctx.encode_znx(&z, meta(d, 2));
        let mut dst = ctx.alloc_ct(P.k);
        let (o, _) = run(|| ctx.module.ckks_mul_pt_vec_znx_into(&mut dst, a, &pt, scratch.borrow()));
        if !matches!(o, Outcome::Ok) {
            fails.push(format!("{label}: mul_pt_vec_znx_into -> {o:?}"));
        }
        let mut b = clone_ct(a);
        let (o, _) = run(|| ctx.module.ckks_mul_pt_vec_znx_assign(&mut b, &pt, scratch.borrow()));
        if !matches!(o, Outcome::Ok) {
            fails.push(format!("{label}: mul_pt_vec_znx_assign -> {o:?}"));
        }
        // constants go through glwe_mul_const, which has no such assertion: sibling that works
        let cst = CKKSPlaintextCstRnx::<F>::new(Some(f(0.5)), None);
        let mut dst = ctx.alloc_ct(P.k);
        let (o, _) = run(|| ctx.module.ckks_mul_pt_const_rnx_into(&mut dst, a, &cst, meta(d, 2), scratch.borrow()));
        if !matches!(o, Outcome::Ok) {
            fails.push(format!("{label}: mul_pt_const_rnx_into -> {o:?}"));
        }
    }
    assert!(fails.is_empty(), "{} failures:\n{}", fails.len(), fails.join("\n"));
}

// ------------------------------------------------------------------------------------------------
// Directed: rescale_into a destination that is too small for the rescaled value.
// ------------------------------------------------------------------------------------------------
#[test]
fn rescale_into_smaller_destination() {
    let ctx = &*CTX;
    let mut src = Source::new([41u8; 32]);
    let z = rand_slots(&mut src, 1.0);
    let d = P.log_delta;
    let a = ctx.encrypt(&z, d, P.k, 4);
    let mut scratch = ctx.scratch();
    let mut fails = Vec::new();
    for (kk, kd) in [(0usize, P.k - P.base2k), (5, P.k - 2 * P.base2k), (P.base2k, P.k - 3 * P.base2k - 1), (3, P.base2k)] {
        let mut dst = ctx.alloc_ct_dirty(kd, &mut src);
        let (o, _) = run(|| ctx.module.ckks_rescale_into(&mut dst, kk, &a, scratch.borrow()));
        match o {
            Outcome::Ok => {
                if dst.effective_k() > dst.max_k().as_usize() {
                    fails.push(format!(
                        "rescale_into(k={kk}) into dst max_k {}: Ok with meta {:?}: effective_k {} > max_k",
                        dst.max_k().as_usize(),
                        dst.meta(),
                        dst.effective_k()
                    ));
                } else if let Err(e) = check(ctx, &dst, &z, dst.meta(), 8.0 * unit(d)) {
                    fails.push(format!("rescale_into(k={kk}) dst_k={kd}: {e}"));
                }
            }
            Outcome::Err(_, true) => {}
            o => fails.push(format!("rescale_into(k={kk}) dst_k={kd}: {o:?}")),
        }
        // candidate repair: shift by the extra bits the destination cannot hold (what every other `_into` does)
        let mut dst = ctx.alloc_ct_dirty(kd, &mut src);
        let extra = (a.effective_k() - kk).saturating_sub(dst.max_k().as_usize());
        if extra + kk <= a.log_budget() {
            ctx.module.ckks_rescale_into(&mut dst, kk + extra, &a, scratch.borrow()).unwrap();
            check(ctx, &dst, &z, meta(d, a.log_budget() - kk - extra), 8.0 * unit(d)).expect("repair model");
        }
    }
    assert!(fails.is_empty(), "{} failures:\n{}", fails.len(), fails.join("\n"));
}

// ------------------------------------------------------------------------------------------------
// Directed: quantised constants (CKKSPlaintextCstZnx) given to add / sub / mul.
// ------------------------------------------------------------------------------------------------
#[test]
fn const_znx_alignment() {
    let ctx = &*CTX;
    let mut src = Source::new([43u8; 32]);
    let z = rand_slots(&mut src, 1.0);
    let d = P.log_delta;
    let a = ctx.encrypt(&z, d, P.k, 4);
    let mut scratch = ctx.scratch();
    let mut fails = Vec::new();
    let c = (quant(0.375, d), quant(-0.625, d));
    let cst = CKKSPlaintextCstRnx::<F>::new(Some(c.0), Some(c.1));
    let want_add: Vec<(F, F)> = z.iter().map(|x| cadd(*x, c)).collect();
    let want_mul: Vec<(F, F)> = z.iter().map(|x| cmul(*x, c)).collect();

    // (1) add: constant aligned exactly as documented (k = dst.log_budget + log_delta): must work
    let cz = cst.to_znx_at_k(P.base2k.into(), a.log_budget() + d, d).unwrap();
    let mut dst = ctx.alloc_ct(P.k);
    let (o, _) = run(|| ctx.module.ckks_add_pt_const_znx_into(&mut dst, &a, &cz, scratch.borrow()));
    match o {
        Outcome::Ok => {
            if let Err(e) = check(ctx, &dst, &want_add, a.meta(), 8.0 * unit(d)) {
                fails.push(format!("add_const_znx aligned: {e}"));
            }
        }
        o => fails.push(format!("add_const_znx aligned: {o:?}")),
    }
    // (2) add: constants whose precision is smaller than required by `off` bits: Ok (wrong value) or Err?
    for off in [1usize, 3, P.base2k] {
        let cz = cst.to_znx_at_k(P.base2k.into(), a.log_budget() + d - off, d).unwrap();
        let mut dst = ctx.alloc_ct(P.k);
        let (o, _) = run(|| ctx.module.ckks_add_pt_const_znx_into(&mut dst, &a, &cz, scratch.borrow()));
        match o {
            Outcome::Ok => {
                if let Err(e) = check(ctx, &dst, &want_add, a.meta(), 8.0 * unit(d)) {
                    fails.push(format!(
                        "add_const_znx with constant at k = log_budget+log_delta-{off} (cst meta {:?}): returned Ok but {e}",
                        cz.meta()
                    ));
                }
            }
            Outcome::Err(_, _) => {}
            o => fails.push(format!("add_const_znx misaligned by {off}: {o:?}")),
        }
    }
    // (3) mul: constant produced by the default `to_znx` (k = min_k): must work
    let pm = meta(d, 2);
    let cz = cst.to_znx(P.base2k.into(), pm).unwrap();
    let mut dst = ctx.alloc_ct(P.k);
    let (o, _) = run(|| ctx.module.ckks_mul_pt_const_znx_into(&mut dst, &a, &cz, scratch.borrow()));
    let wm = m_mul_pt(a.meta(), d, dst.max_k().as_usize()).unwrap();
    match o {
        Outcome::Ok => {
            if let Err(e) = check(ctx, &dst, &want_mul, wm, 16.0 * unit(d)) {
                fails.push(format!("mul_const_znx (to_znx): {e}"));
            }
        }
        o => fails.push(format!("mul_const_znx (to_znx): {o:?}")),
    }
    // (4) mul: constant produced by `to_znx_at_k` with k that is not a multiple of base2k
    for k in [d + 2, d + P.base2k - 1, 2 * P.base2k + 1] {
        if k < d {
            continue;
        }
        let cz = cst.to_znx_at_k(P.base2k.into(), k, d).unwrap();
        let mut dst = ctx.alloc_ct(P.k);
        let (o, _) = run(|| ctx.module.ckks_mul_pt_const_znx_into(&mut dst, &a, &cz, scratch.borrow()));
        match o {
            Outcome::Ok => {
                if let Err(e) = check(ctx, &dst, &want_mul, wm, 16.0 * unit(d)) {
                    fails.push(format!("mul_const_znx with to_znx_at_k(k={k}) (cst meta {:?}): returned Ok but {e}", cz.meta()));
                }
            }
            Outcome::Err(_, _) => {}
            o => fails.push(format!("mul_const_znx to_znx_at_k(k={k}): {o:?}")),
        }
    }
    assert!(fails.is_empty(), "{} failures:\n{}", fails.len(), fails.join("\n"));
}

// ------------------------------------------------------------------------------------------------
// Directed: encryption metadata versus the storage of the destination ciphertext.
// ------------------------------------------------------------------------------------------------
#[test]
fn encrypt_meta_vs_storage() {
    let ctx = &*CTX;
    let mut src = Source::new([47u8; 32]);
    let z = rand_slots(&mut src, 1.0);
    let d = P.log_delta;
    let pt = ctx.encode_znx(&z, meta(d, 0));
    let mut fails = Vec::new();
    // (ct k, encryption-infos k)
    for (kct, kenc) in [
        (P.k, P.k),
        (P.k, P.k - P.base2k),
        (P.k - P.base2k, P.k),
        (2 * P.base2k, P.k),
        (P.k, d),
        (P.k, d - 1),
    ] {
        let mut scratch = ctx.scratch();
        let mut ct = ctx.alloc_ct(kct);
        let mut xa = Source::new([1u8; 32]);
        let mut xe = Source::new([2u8; 32]);
        let (o, _) = run(|| {
            ctx.module
                .ckks_encrypt_sk(&mut ct, &pt, &ctx.sk, &glwe_layout(kenc), &mut xa, &mut xe, scratch.borrow())
        });
        match o {
            Outcome::Ok => {
                if ct.effective_k() > ct.max_k().as_usize() {
                    fails.push(format!(
                        "encrypt(ct k={kct}, enc k={kenc}): Ok with meta {:?}, effective_k {} > max_k {}",
                        ct.meta(),
                        ct.effective_k(),
                        ct.max_k().as_usize()
                    ));
                } else if let Err(e) = check(ctx, &ct, &z, meta(d, kenc - d), 8.0 * unit(d)) {
                    fails.push(format!("encrypt(ct k={kct}, enc k={kenc}): {e}"));
                }
            }
            Outcome::Err(_, true) => {}
            o => fails.push(format!("encrypt(ct k={kct}, enc k={kenc}): {o:?}")),
        }
    }
    assert!(fails.is_empty(), "{} failures:\n{}", fails.len(), fails.join("\n"));
}

// ------------------------------------------------------------------------------------------------
// Candidate-repair validation for the mixed-metadata multiplication: the same core primitives the
// library uses, called with cnv_offset = max(log_budget) + max(log_delta) (+ res_offset) instead of
// max(effective_k) (+ res_offset), give the right product and the metadata the library reports.
// ------------------------------------------------------------------------------------------------
#[test]
fn mul_ct_mixed_meta_candidate_repair() {
    use poulpy_core::{GLWETensoring, layouts::{GLWETensor, GLWEToMut, GLWEToRef}};
    let ctx = &*CTX;
    let d = P.log_delta;
    let mut src = Source::new([11u8; 32]);
    let za = rand_slots(&mut src, 1.0);
    let zb = rand_slots(&mut src, 1.0);
    let want: Vec<(F, F)> = za.iter().zip(&zb).map(|(x, y)| cmul(*x, *y)).collect();
    let mut fails = Vec::new();
    for (da, ka, db, kb) in [
        (d, P.k, d - 7, P.k),
        (d - 7, P.k, d, P.k),
        (d - 7, P.k, d, P.k - P.base2k),
        (d, P.k - 5, d - 7, P.k),
        (d, P.k - 3, d - 10, P.k - 3),
        (d, P.k, d, P.k - P.base2k),
        (d, P.k, d - 7, P.k - P.base2k),
    ] {
        let a = ctx.encrypt(&za, da, ka, 5);
        let b = ctx.encrypt(&zb, db, kb, 6);
        let mut scratch = ctx.scratch();
        let mut dst = ctx.alloc_ct(P.k);
        let wm = m_mul_ct(a.meta(), b.meta(), dst.max_k().as_usize()).unwrap();
        let res_offset = (a.log_budget().min(b.log_budget()) - da.max(db) + da.min(db)).saturating_sub(dst.max_k().as_usize());
        let cnv_offset = a.log_budget().max(b.log_budget()) + da.max(db) + res_offset;
        let layout = GLWELayout {
            n: P.n.into(),
            base2k: P.base2k.into(),
            k: a.max_k().max(b.max_k()),
            rank: Rank(1),
        };
        let mut tmp = GLWETensor::alloc_from_infos(&layout);
        ctx.module.glwe_tensor_apply(
            cnv_offset,
            &mut tmp,
            &a.to_ref(),
            a.effective_k(),
            &b.to_ref(),
            b.effective_k(),
            scratch.borrow(),
        );
        ctx.module
            .glwe_tensor_relinearize(&mut dst.to_mut(), &tmp, &ctx.tsk, ctx.tsk.size(), scratch.borrow());
        dst.set_meta_checked(wm).unwrap();
        if let Err(e) = check(ctx, &dst, &want, wm, 8.0 * unit(da.min(db))) {
            fails.push(format!("a={:?} b={:?}: {e}", a.meta(), b.meta()));
        }
    }
    assert!(fails.is_empty(), "{} failures:\n{}", fails.len(), fails.join("\n"));
}

// ------------------------------------------------------------------------------------------------
// Directed: composite operations (add_many, mul_many, dot products) on operands with unequal
// log_budget / limb counts, natural / smaller / larger destinations.
// ------------------------------------------------------------------------------------------------
static JUDGED: std::sync::Mutex<[usize; 3]> = std::sync::Mutex::new([0; 3]);

fn judge_value_only(ctx: &Ctx, label: String, o: Outcome, dst: &Ct, want: &[(F, F)], tol: f64, fails: &mut Vec<String>) {
    {
        let mut j = JUDGED.lock().unwrap();
        match &o {
            Outcome::Ok => j[0] += 1,
            Outcome::Err(_, _) => j[1] += 1,
            _ => j[2] += 1,
        }
    }
    match o {
        Outcome::Ok => {
            let wm = dst.meta();
            if !Engine::mag_ok(want, wm) {
                return;
            }
            if let Err(e) = check(ctx, dst, want, wm, tol) {
                fails.push(format!("{label}: {e}"));
            }
        }
        Outcome::Err(_, _) => {}
        o => fails.push(format!("{label}: {o:?}")),
    }
}

#[test]
fn composite_ops_unequal_operands() {
    let ctx = &*CTX;
    let d = P.log_delta;
    let b2k = P.base2k;
    let mut src = Source::new([53u8; 32]);
    let mut fails = Vec::new();
    let mut scratch = ctx.scratch();
    // same log_delta, different budgets / limb counts (all compact)
    let ks = [P.k, P.k - 3, P.k - b2k, P.k - b2k - 7, P.k - 2 * b2k + 1, P.k - 1];
    let zs: Vec<Vec<(F, F)>> = ks.iter().map(|_| rand_slots(&mut src, 0.9)).collect();
    let cts: Vec<Ct> = ks.iter().zip(&zs).enumerate().map(|(i, (k, z))| ctx.encrypt(z, d, *k, 20 + i as u8)).collect();
    let m = P.n / 2;

    for n in 1..=6usize {
        for rot_start in 0..3usize {
            let idx: Vec<usize> = (0..n).map(|i| (i + rot_start * 2) % ks.len()).collect();
            let refs: Vec<&Ct> = idx.iter().map(|&i| &cts[i]).collect();
            let min_eff = refs.iter().map(|c| c.effective_k()).min().unwrap();
            // ---- add_many
            let want_sum: Vec<(F, F)> = (0..m).map(|j| idx.iter().fold((F::zero(), F::zero()), |acc, &i| cadd(acc, zs[i][j]))).collect();
            for kd in [min_eff, min_eff - b2k - 1, P.k + b2k] {
                let mut dst = ctx.alloc_ct_dirty(kd, &mut src);
                let (o, _) = run(|| ctx.module.ckks_add_many(&mut dst, &refs, scratch.borrow()));
                // metadata model: fold of the documented binary rules
                if matches!(o, Outcome::Ok) {
                    let mut mm = if n == 1 {
                        m_unary(refs[0].meta(), dst.max_k().as_usize())
                    } else {
                        m_bin_into(refs[0].meta(), refs[1].meta(), dst.max_k().as_usize())
                    };
                    for r in refs.iter().skip(2) {
                        mm = mm.and_then(|x| m_bin_assign(x, r.meta()));
                    }
                    if mm != Some(dst.meta()) {
                        fails.push(format!("add_many n={n} idx={idx:?} dst_k={kd}: meta {:?} model {mm:?}", dst.meta()));
                    }
                }
                judge_value_only(ctx, format!("add_many n={n} idx={idx:?} dst_k={kd}"), o, &dst, &want_sum, (n as f64) * 8.0 * unit(d), &mut fails);
            }
            // ---- mul_many (needs budget: depth ceil(log2 n))
            let want_prod: Vec<(F, F)> = (0..m).map(|j| idx.iter().fold((f(1.0), F::zero()), |acc, &i| cmul(acc, zs[i][j]))).collect();
            for kd in [P.k, min_eff.saturating_sub(3 * d).max(b2k), b2k] {
                let mut dst = ctx.alloc_ct_dirty(kd, &mut src);
                let (o, _) = run(|| ctx.module.ckks_mul_many(&mut dst, &refs, &ctx.tsk, scratch.borrow()));
                judge_value_only(ctx, format!("mul_many n={n} idx={idx:?} dst_k={kd}"), o, &dst, &want_prod, (n as f64) * 64.0 * unit(d), &mut fails);
            }
            // ---- dot_product_ct  sum a_i * b_i with b = reversed selection
            let idx_b: Vec<usize> = idx.iter().rev().cloned().collect();
            let refs_b: Vec<&Ct> = idx_b.iter().map(|&i| &cts[i]).collect();
            let want_dot: Vec<(F, F)> = (0..m)
                .map(|j| idx.iter().zip(&idx_b).fold((F::zero(), F::zero()), |acc, (&i, &k)| cadd(acc, cmul(zs[i][j], zs[k][j]))))
                .collect();
            for kd in [P.k, min_eff - d, min_eff - d - b2k - 2] {
                let mut dst = ctx.alloc_ct_dirty(kd, &mut src);
                let (o, _) = run(|| ctx.module.ckks_dot_product_ct(&mut dst, &refs, &refs_b, &ctx.tsk, scratch.borrow()));
                judge_value_only(ctx, format!("dot_product_ct n={n} idx={idx:?} dst_k={kd}"), o, &dst, &want_dot, (n as f64) * 64.0 * unit(d), &mut fails);
            }
            // ---- dot products with plaintext weights
            let pm = meta(d - 4, 3);
            let ws: Vec<Vec<(F, F)>> = (0..n).map(|_| rand_slots(&mut src, 0.9)).collect();
            let pts: Vec<CKKSPlaintextVecZnx<Vec<u8>>> = ws.iter().map(|w| ctx.encode_znx(w, pm)).collect();
            let rnxs: Vec<CKKSPlaintextVecRnx<F>> = ws.iter().map(|w| ctx.encode_rnx(w)).collect();
            let wq: Vec<Vec<(F, F)>> = pts.iter().map(|p| ctx.decode_znx(p)).collect();
            let want_dpt: Vec<(F, F)> = (0..m)
                .map(|j| idx.iter().enumerate().fold((F::zero(), F::zero()), |acc, (t, &i)| cadd(acc, cmul(zs[i][j], wq[t][j]))))
                .collect();
            let pt_refs: Vec<&CKKSPlaintextVecZnx<Vec<u8>>> = pts.iter().collect();
            let rnx_refs: Vec<&CKKSPlaintextVecRnx<F>> = rnxs.iter().collect();
            for kd in [P.k, min_eff - (d - 4), min_eff - d - b2k] {
                let mut dst = ctx.alloc_ct_dirty(kd, &mut src);
                let (o, _) = run(|| ctx.module.ckks_dot_product_pt_vec_znx(&mut dst, &refs, &pt_refs, scratch.borrow()));
                judge_value_only(ctx, format!("dot_product_pt_vec_znx n={n} idx={idx:?} dst_k={kd}"), o, &dst, &want_dpt, (n as f64) * 64.0 * unit(d - 4), &mut fails);
                let mut dst = ctx.alloc_ct_dirty(kd, &mut src);
                let (o, _) = run(|| ctx.module.ckks_dot_product_pt_vec_rnx(&mut dst, &refs, &rnx_refs, pm, scratch.borrow()));
                judge_value_only(ctx, format!("dot_product_pt_vec_rnx n={n} idx={idx:?} dst_k={kd}"), o, &dst, &want_dpt, (n as f64) * 64.0 * unit(d - 4), &mut fails);
            }
            // constants
            let cs: Vec<(f64, f64)> = (0..n).map(|_| (src.next_f64(-1.0, 1.0), src.next_f64(-1.0, 1.0))).collect();
            let csts: Vec<CKKSPlaintextCstRnx<F>> = cs.iter().map(|c| CKKSPlaintextCstRnx::new(Some(f(c.0)), Some(f(c.1)))).collect();
            let cst_refs: Vec<&CKKSPlaintextCstRnx<F>> = csts.iter().collect();
            let want_dc: Vec<(F, F)> = (0..m)
                .map(|j| {
                    idx.iter().enumerate().fold((F::zero(), F::zero()), |acc, (t, &i)| {
                        cadd(acc, cmul(zs[i][j], (quant(cs[t].0, d - 4), quant(cs[t].1, d - 4))))
                    })
                })
                .collect();
            for kd in [P.k, min_eff - d - b2k] {
                let mut dst = ctx.alloc_ct_dirty(kd, &mut src);
                let (o, _) = run(|| ctx.module.ckks_dot_product_pt_const_rnx(&mut dst, &refs, &cst_refs, pm, scratch.borrow()));
                judge_value_only(ctx, format!("dot_product_pt_const_rnx n={n} idx={idx:?} dst_k={kd}"), o, &dst, &want_dc, (n as f64) * 64.0 * unit(d - 4), &mut fails);
            }
        }
    }
    println!("composite: [ok, err, panic] = {:?}", JUDGED.lock().unwrap());
    let total = fails.len();
    fails.truncate(40);
    assert!(total == 0, "{total} failures:\n{}", fails.join("\n"));
}

#[test]
fn dot_product_ct_mixed_meta() {
    let ctx = &*CTX;
    let d = P.log_delta;
    let mut src = Source::new([59u8; 32]);
    let mut scratch = ctx.scratch();
    let mut fails = Vec::new();
    let m = P.n / 2;
    // a_i all (d, k-?) ; b_i all (d-7, k): larger delta has the smaller budget
    for n in [1usize, 2, 3] {
        let za: Vec<Vec<(F, F)>> = (0..n).map(|_| rand_slots(&mut src, 0.9)).collect();
        let zb: Vec<Vec<(F, F)>> = (0..n).map(|_| rand_slots(&mut src, 0.9)).collect();
        let a: Vec<Ct> = za.iter().enumerate().map(|(i, z)| ctx.encrypt(z, d, P.k, 30 + i as u8)).collect();
        let b: Vec<Ct> = zb.iter().enumerate().map(|(i, z)| ctx.encrypt(z, d - 7, P.k, 40 + i as u8)).collect();
        let ar: Vec<&Ct> = a.iter().collect();
        let br: Vec<&Ct> = b.iter().collect();
        let want: Vec<(F, F)> = (0..m)
            .map(|j| (0..n).fold((F::zero(), F::zero()), |acc, i| cadd(acc, cmul(za[i][j], zb[i][j]))))
            .collect();
        let mut dst = ctx.alloc_ct(P.k);
        let (o, _) = run(|| ctx.module.ckks_dot_product_ct(&mut dst, &ar, &br, &ctx.tsk, scratch.borrow()));
        judge_value_only(ctx, format!("dot_product_ct n={n} a=({d},{}) b=({},{})", a[0].log_budget(), d - 7, b[0].log_budget()), o, &dst, &want, (n as f64) * 64.0 * unit(d - 7), &mut fails);
    }
    assert!(fails.is_empty(), "{} failures:\n{}", fails.len(), fails.join("\n"));
}

// ------------------------------------------------------------------------------------------------
// Directed: encoding identity, both element types, up to the element precision.
// ------------------------------------------------------------------------------------------------
#[test]
fn encoding_roundtrip_precision() {
    let ctx = &*CTX;
    let mut src = Source::new([61u8; 32]);
    let max_prec = <CKKSPlaintextVecRnx<F> as CKKSPlaintextConversion>::max_log_delta_prec();
    let eps = to64(F::epsilon());
    let mut fails = Vec::new();
    for mag in [1.0f64, 1e-3, 1000.0] {
        let z = rand_slots(&mut src, mag);
        // slot -> coefficients -> slot (no quantisation)
        let rnx = ctx.encode_rnx(&z);
        let m = P.n / 2;
        let mut re = vec![F::zero(); m];
        let mut im = vec![F::zero(); m];
        ctx.enc.decode_reim(&rnx, &mut re, &mut im).unwrap();
        let got: Vec<(F, F)> = re.into_iter().zip(im).collect();
        let e = max_err(&got, &z);
        if e > 64.0 * eps * mag * (P.n as f64) {
            fails.push(format!("encode_reim/decode_reim mag={mag}: err {e:e} eps {eps:e}"));
        }
        // with quantisation at several precisions, including the largest supported one
        for ld in [4usize, P.log_delta, max_prec - 3, max_prec] {
            for lb in [12usize, P.base2k + 1] {
                if ld + lb > 120 {
                    continue;
                }
                if (mag * 4.0).log2() > lb as f64 - 1.0 {
                    continue;
                }
                let pm = meta(ld, lb);
                let (o, r) = run(|| {
                    let pt = ctx.encode_znx(&z, pm);
                    Ok(ctx.decode_znx(&pt))
                });
                match (o, r) {
                    (Outcome::Ok, Some(got)) => {
                        let e = max_err(&got, &z);
                        // half an ulp of 2^-ld per coefficient, spread over n coefficients by the FFT, plus float error
                        let tol = (P.n as f64) * (-(ld as f64)).exp2() + 64.0 * eps * mag * (P.n as f64);
                        if e > tol {
                            fails.push(format!("to_znx/decode_from_znx meta {pm:?} mag={mag}: err {e:e} tol {tol:e}"));
                        }
                    }
                    (o, _) => fails.push(format!("to_znx/decode_from_znx meta {pm:?} mag={mag}: {o:?}")),
                }
            }
        }
    }
    assert!(fails.is_empty(), "{} failures:\n{}", fails.len(), fails.join("\n"));
}

// ------------------------------------------------------------------------------------------------
// Directed: values right below the magnitude limit 2^(log_budget-1) survive the linear operations.
// A constant slot vector v + 0i has the single non-zero coefficient v, so the limit is hit exactly.
// ------------------------------------------------------------------------------------------------
#[test]
fn values_near_magnitude_limit() {
    let ctx = &*CTX;
    let d = P.log_delta;
    let m = P.n / 2;
    let mut scratch = ctx.scratch();
    let mut fails = Vec::new();
    for lb in [0usize, 1, 3, 10] {
        let k = d + lb;
        let limit = ((lb as f64) - 1.0).exp2();
        for sign in [1.0f64, -1.0] {
            let v = sign * limit * 0.96;
            let z: Vec<(F, F)> = vec![(f(v), F::zero()); m];
            let (o, ct) = run(|| Ok(ctx.encrypt_small_budget(&z, d, lb, 7)));
            let ct = match (o, ct) {
                (Outcome::Ok, Some(ct)) => ct,
                (o, _) => {
                    fails.push(format!("encrypt lb={lb} v={v}: {o:?}"));
                    continue;
                }
            };
            if ct.meta() != meta(d, lb) {
                fails.push(format!("encrypt lb={lb}: meta {:?}", ct.meta()));
            }
            let tol = 8.0 * unit(d);
            if let Err(e) = check(ctx, &ct, &z, meta(d, lb), tol) {
                fails.push(format!("fresh lb={lb} v={v}: {e}"));
                continue;
            }
            // neg
            let zn: Vec<(F, F)> = z.iter().map(|x| cneg(*x)).collect();
            let k = k.max(1);
            let mut dst = ctx.alloc_ct(k);
            let (o, _) = run(|| ctx.module.ckks_neg_into(&mut dst, &ct, scratch.borrow()));
            if !matches!(o, Outcome::Ok) {
                fails.push(format!("neg lb={lb} v={v}: {o:?}"));
            } else if let Err(e) = check(ctx, &dst, &zn, meta(d, lb), tol) {
                fails.push(format!("neg lb={lb} v={v}: {e}"));
            }
            // rotate and conjugate
            let mut dst = ctx.alloc_ct(k);
            let (o, _) = run(|| ctx.module.ckks_rotate_into(&mut dst, &ct, 3, &ctx.atks, scratch.borrow()));
            if !matches!(o, Outcome::Ok) {
                fails.push(format!("rotate lb={lb} v={v}: {o:?}"));
            } else if let Err(e) = check(ctx, &dst, &z, meta(d, lb), tol) {
                fails.push(format!("rotate lb={lb} v={v}: {e}"));
            }
            let mut dst = ctx.alloc_ct(k);
            let (o, _) = run(|| ctx.module.ckks_conjugate_into(&mut dst, &ct, &ctx.atks[&-1], scratch.borrow()));
            if !matches!(o, Outcome::Ok) {
                fails.push(format!("conjugate lb={lb} v={v}: {o:?}"));
            } else if let Err(e) = check(ctx, &dst, &z, meta(d, lb), tol) {
                fails.push(format!("conjugate lb={lb} v={v}: {e}"));
            }
            // x - x/2  (sub of a plaintext vector of half the size: stays in range)
            let half: Vec<(F, F)> = z.iter().map(|x| cscale(*x, f(0.5))).collect();
            let pt = ctx.encode_znx(&half, meta(d, lb.max(1)));
            let mut dst = ctx.alloc_ct(k);
            let (o, _) = run(|| ctx.module.ckks_sub_pt_vec_znx_into(&mut dst, &ct, &pt, scratch.borrow()));
            match o {
                Outcome::Ok => {
                    if let Err(e) = check(ctx, &dst, &half, meta(d, lb), tol) {
                        fails.push(format!("sub_pt_vec lb={lb} v={v}: {e}"));
                    }
                }
                Outcome::Err(_, true) => {} // alignment impossible for the smallest budgets
                o => fails.push(format!("sub_pt_vec lb={lb} v={v}: {o:?}")),
            }
            // x - x
            let zero: Vec<(F, F)> = vec![(F::zero(), F::zero()); m];
            let mut dst = ctx.alloc_ct(k);
            let (o, _) = run(|| ctx.module.ckks_sub_into(&mut dst, &ct, &ct, scratch.borrow()));
            if !matches!(o, Outcome::Ok) {
                fails.push(format!("sub lb={lb} v={v}: {o:?}"));
            } else if let Err(e) = check(ctx, &dst, &zero, meta(d, lb), tol) {
                fails.push(format!("sub lb={lb} v={v}: {e}"));
            }
            // const add of -v/2
            let cst = CKKSPlaintextCstRnx::<F>::new(Some(f(-v / 2.0)), None);
            let mut dst = ctx.alloc_ct(k);
            let (o, _) = run(|| ctx.module.ckks_add_pt_const_rnx_into(&mut dst, &ct, &cst, meta(d, 0), scratch.borrow()));
            if !matches!(o, Outcome::Ok) {
                fails.push(format!("add_const lb={lb} v={v}: {o:?}"));
            } else if let Err(e) = check(ctx, &dst, &half, meta(d, lb), tol) {
                fails.push(format!("add_const lb={lb} v={v}: {e}"));
            }
        }
    }
    assert!(fails.is_empty(), "{} failures:\n{}", fails.len(), fails.join("\n"));
}

// ------------------------------------------------------------------------------------------------
// Directed: decryption into plaintexts with other metadata than the ciphertext.
// ------------------------------------------------------------------------------------------------
#[test]
fn decrypt_into_other_meta() {
    let ctx = &*CTX;
    let d = P.log_delta;
    let mut src = Source::new([67u8; 32]);
    let z = rand_slots(&mut src, 1.0);
    let mut fails = Vec::new();
    for lb in [5usize, P.base2k + 3, P.k - d] {
        let ct = ctx.encrypt_small_budget(&z, d, lb, 3);
        for pd in [d - 9, d, (d + 9).min(<CKKSPlaintextVecRnx<F> as CKKSPlaintextConversion>::max_log_delta_prec())] {
            for pb in [0usize, 3, ct.log_budget(), ct.log_budget() + 1, ct.log_budget() + P.base2k] {
                if pd + pb > 120 {
                    continue;
                }
                let mut scratch = ctx.scratch();
                let mut pt = CKKSPlaintextVecZnx::alloc(P.n.into(), P.base2k.into(), meta(pd, pb));
                let (o, _) = run(|| ctx.module.ckks_decrypt(&mut pt, &ct, &ctx.sk, scratch.borrow()));
                let expect_ok = pb <= ct.log_budget();
                match (o, expect_ok) {
                    (Outcome::Ok, true) => {
                        if pb < 3 {
                            continue; // message (|z|<=1.5) does not fit such a plaintext: not judged
                        }
                        let got = ctx.decode_znx(&pt);
                        let e = max_err(&got, &z);
                        let tol = 8.0 * unit(pd.min(d));
                        if e > tol {
                            fails.push(format!("decrypt ct {:?} into pt ({pd},{pb}): err {e:e} tol {tol:e}", ct.meta()));
                        }
                    }
                    (Outcome::Err(_, true), false) => {}
                    (o, _) => fails.push(format!("decrypt ct {:?} into pt ({pd},{pb}): {o:?} expect_ok={expect_ok}", ct.meta())),
                }
            }
        }
    }
    assert!(fails.is_empty(), "{} failures:\n{}", fails.len(), fails.join("\n"));
}

// ------------------------------------------------------------------------------------------------
// Directed: every operation run with a scratch buffer of exactly the size its *_tmp_bytes reports
// (destination = natural size and one limb smaller). An under-estimate shows up as a panic.
// ------------------------------------------------------------------------------------------------
#[test]
fn exact_size_scratch() {
    use poulpy_core::layouts::GGLWEInfos;
    let ctx = &*CTX;
    let d = P.log_delta;
    let b2k = P.base2k;
    let mut src = Source::new([71u8; 32]);
    let za = rand_slots(&mut src, 1.0);
    let zb = rand_slots(&mut src, 1.0);
    let a = ctx.encrypt(&za, d, P.k, 3);
    let b = ctx.encrypt(&zb, d, P.k - b2k, 4);
    let pm = meta(d, 3);
    let pt = ctx.encode_znx(&zb, pm);
    let rnx = ctx.encode_rnx(&zb);
    let cst = CKKSPlaintextCstRnx::<F>::new(Some(f(0.25)), Some(f(-0.5)));
    let m = &ctx.module;
    let tsk_infos = tsk_layout();
    let atk_infos = atk_layout();
    let mut fails = Vec::new();
    let mut record = |label: &str, bytes: usize, o: Outcome| {
        if let Outcome::Panic(p) = o {
            fails.push(format!("{label} with exactly {bytes} scratch bytes: panic: {}", p.lines().next().unwrap_or("")));
        }
    };
    for shrink in [0usize, b2k + 1, 3 * b2k] {
        let kd = P.k - shrink;
        let dl = glwe_layout(kd);
        macro_rules! go {
            ($label:expr, $bytes:expr, |$dst:ident, $s:ident| $call:expr) => {{
                let bytes: usize = $bytes;
                let mut scratch = ScratchOwned::<BE>::alloc(bytes);
                let mut $dst = ctx.alloc_ct(kd);
                let (o, _) = run(|| {
                    let $s = scratch.borrow();
                    $call
                });
                record(&format!("{} (dst k={kd})", $label), bytes, o);
            }};
        }
        go!("add_into", m.ckks_add_tmp_bytes(), |dst, s| m.ckks_add_into(&mut dst, &a, &b, s));
        go!("sub_into", m.ckks_sub_tmp_bytes(), |dst, s| m.ckks_sub_into(&mut dst, &a, &b, s));
        go!("add_pt_vec_znx_into", m.ckks_add_pt_vec_znx_tmp_bytes(), |dst, s| m
            .ckks_add_pt_vec_znx_into(&mut dst, &a, &pt, s));
        go!("sub_pt_vec_znx_into", m.ckks_sub_pt_vec_znx_tmp_bytes(), |dst, s| m
            .ckks_sub_pt_vec_znx_into(&mut dst, &a, &pt, s));
        go!("add_pt_vec_rnx_into", m.ckks_add_pt_vec_rnx_tmp_bytes(&dl, &a, &pm), |dst, s| m
            .ckks_add_pt_vec_rnx_into(&mut dst, &a, &rnx, pm, s));
        go!("sub_pt_vec_rnx_into", m.ckks_sub_pt_vec_rnx_tmp_bytes(&dl, &a, &pm), |dst, s| m
            .ckks_sub_pt_vec_rnx_into(&mut dst, &a, &rnx, pm, s));
        go!("add_pt_const_rnx_into", m.ckks_add_pt_const_tmp_bytes(), |dst, s| m
            .ckks_add_pt_const_rnx_into(&mut dst, &a, &cst, pm, s));
        go!("sub_pt_const_rnx_into", m.ckks_sub_pt_const_tmp_bytes(), |dst, s| m
            .ckks_sub_pt_const_rnx_into(&mut dst, &a, &cst, pm, s));
        go!("neg_into", m.ckks_neg_tmp_bytes(), |dst, s| m.ckks_neg_into(&mut dst, &a, s));
        go!("mul_pow2_into", m.ckks_mul_pow2_tmp_bytes(), |dst, s| m.ckks_mul_pow2_into(&mut dst, &a, 5, s));
        go!("div_pow2_into", m.ckks_div_pow2_tmp_bytes(), |dst, s| m.ckks_div_pow2_into(&mut dst, &a, 5, s));
        go!("rescale_into", m.ckks_rescale_tmp_bytes(), |dst, s| m.ckks_rescale_into(&mut dst, shrink + 1, &a, s));
        go!("rotate_into", m.ckks_rotate_tmp_bytes(&a, &atk_infos), |dst, s| m
            .ckks_rotate_into(&mut dst, &a, 2, &ctx.atks, s));
        go!("conjugate_into", m.ckks_conjugate_tmp_bytes(&a, &atk_infos), |dst, s| m
            .ckks_conjugate_into(&mut dst, &a, &ctx.atks[&-1], s));
        // multiplication family: tmp_bytes evaluated on the destination layout (the `res` argument)
        go!("mul_into [tmp_bytes(res=dst)]", m.ckks_mul_tmp_bytes(&dl, &tsk_infos), |dst, s| m
            .ckks_mul_into(&mut dst, &a, &b, &ctx.tsk, s));
        go!("square_into [tmp_bytes(res=dst)]", m.ckks_square_tmp_bytes(&dl, &tsk_infos), |dst, s| m
            .ckks_square_into(&mut dst, &a, &ctx.tsk, s));
        // ... and on the largest layout involved
        go!("mul_into [tmp_bytes(res=max layout)]", m.ckks_mul_tmp_bytes(&glwe_layout(P.k), &tsk_infos), |dst, s| m
            .ckks_mul_into(&mut dst, &a, &b, &ctx.tsk, s));
        go!("square_into [tmp_bytes(res=max layout)]", m.ckks_square_tmp_bytes(&glwe_layout(P.k), &tsk_infos), |dst, s| m
            .ckks_square_into(&mut dst, &a, &ctx.tsk, s));
        go!("mul_pt_vec_znx_into", m.ckks_mul_pt_vec_znx_tmp_bytes(&dl, &a, &pm), |dst, s| m
            .ckks_mul_pt_vec_znx_into(&mut dst, &a, &pt, s));
        go!("mul_pt_vec_rnx_into", m.ckks_mul_pt_vec_rnx_tmp_bytes(&dl, &a, &pm), |dst, s| m
            .ckks_mul_pt_vec_rnx_into(&mut dst, &a, &rnx, pm, s));
        go!("mul_pt_const_rnx_into", m.ckks_mul_pt_const_tmp_bytes(&dl, &a, &pm), |dst, s| m
            .ckks_mul_pt_const_rnx_into(&mut dst, &a, &cst, pm, s));
        // composite: destination first receives `a`, then accumulates
        go!("mul_add_ct_into [res=dst]", m.ckks_mul_add_ct_tmp_bytes(&dl, &tsk_infos), |dst, s| {
            m.ckks_neg_into(&mut dst, &a, s)?;
            m.ckks_mul_add_ct_into(&mut dst, &a, &b, &ctx.tsk, s)
        });
        go!("mul_add_ct_into [res=max layout]", m.ckks_mul_add_ct_tmp_bytes(&glwe_layout(P.k), &tsk_infos), |dst, s| {
            m.ckks_neg_into(&mut dst, &a, s)?;
            m.ckks_mul_add_ct_into(&mut dst, &a, &b, &ctx.tsk, s)
        });
        go!("mul_sub_pt_vec_znx_into", m.ckks_mul_sub_pt_vec_znx_tmp_bytes(&dl, &a, &pm), |dst, s| {
            m.ckks_neg_into(&mut dst, &a, s)?;
            m.ckks_mul_sub_pt_vec_znx_into(&mut dst, &a, &pt, s)
        });
        go!("mul_add_pt_vec_rnx_into", m.ckks_mul_add_pt_vec_rnx_tmp_bytes(&dl, &a, &pm), |dst, s| {
            m.ckks_neg_into(&mut dst, &a, s)?;
            m.ckks_mul_add_pt_vec_rnx_into(&mut dst, &a, &rnx, pm, s)
        });
        go!("mul_add_pt_const_rnx_into", m.ckks_mul_add_pt_const_tmp_bytes(&dl, &a, &pm), |dst, s| {
            m.ckks_neg_into(&mut dst, &a, s)?;
            m.ckks_mul_add_pt_const_rnx_into(&mut dst, &a, &cst, pm, s)
        });
        go!("add_many(3)", m.ckks_add_many_tmp_bytes(), |dst, s| m.ckks_add_many(&mut dst, &[&a, &b, &a], s));
        for n in [2usize, 3, 5] {
            let refs: Vec<&Ct> = (0..n).map(|i| if i % 2 == 0 { &a } else { &b }).collect();
            go!(
                format!("mul_many({n}) [res=max layout]"),
                m.ckks_mul_many_tmp_bytes(n, &glwe_layout(P.k), &tsk_infos),
                |dst, s| m.ckks_mul_many(&mut dst, &refs, &ctx.tsk, s)
            );
            go!(
                format!("dot_product_ct({n}) [res=max layout]"),
                m.ckks_dot_product_ct_tmp_bytes(n, &glwe_layout(P.k), &tsk_infos),
                |dst, s| m.ckks_dot_product_ct(&mut dst, &refs, &refs, &ctx.tsk, s)
            );
        }
    }
    // in-place forms, encryption and decryption
    {
        let mut c = clone_ct(&a);
        let bytes = m.ckks_mul_tmp_bytes(&a, &tsk_infos);
        let mut scratch = ScratchOwned::<BE>::alloc(bytes);
        let (o, _) = run(|| m.ckks_mul_assign(&mut c, &b, &ctx.tsk, scratch.borrow()));
        record("mul_assign", bytes, o);
        let mut c = clone_ct(&a);
        let bytes = m.ckks_square_tmp_bytes(&a, &tsk_infos);
        let mut scratch = ScratchOwned::<BE>::alloc(bytes);
        let (o, _) = run(|| m.ckks_square_assign(&mut c, &ctx.tsk, scratch.borrow()));
        record("square_assign", bytes, o);
        let mut c = clone_ct(&a);
        let bytes = m.ckks_rotate_tmp_bytes(&a, &atk_infos);
        let mut scratch = ScratchOwned::<BE>::alloc(bytes);
        let (o, _) = run(|| m.ckks_rotate_assign(&mut c, 3, &ctx.atks, scratch.borrow()));
        record("rotate_assign", bytes, o);
        let mut c = clone_ct(&a);
        let bytes = m.ckks_mul_pt_vec_znx_tmp_bytes(&a, &a, &pm);
        let mut scratch = ScratchOwned::<BE>::alloc(bytes);
        let (o, _) = run(|| m.ckks_mul_pt_vec_znx_assign(&mut c, &pt, scratch.borrow()));
        record("mul_pt_vec_znx_assign", bytes, o);
        let mut c = clone_ct(&a);
        let bytes = m.ckks_mul_pt_const_tmp_bytes(&a, &a, &pm);
        let mut scratch = ScratchOwned::<BE>::alloc(bytes);
        let (o, _) = run(|| m.ckks_mul_pt_const_rnx_assign(&mut c, &cst, pm, scratch.borrow()));
        record("mul_pt_const_rnx_assign", bytes, o);
        let mut c = clone_ct(&a);
        let bytes = m.ckks_align_tmp_bytes();
        let mut scratch = ScratchOwned::<BE>::alloc(bytes);
        let mut c2 = clone_ct(&b);
        let (o, _) = run(|| m.ckks_align_assign(&mut c, &mut c2, scratch.borrow()));
        record("align_assign", bytes, o);

        let bytes = m.ckks_encrypt_sk_tmp_bytes(&glwe_layout(P.k));
        let mut scratch = ScratchOwned::<BE>::alloc(bytes);
        let mut c = ctx.alloc_ct(P.k);
        let mut xa = Source::new([1u8; 32]);
        let mut xe = Source::new([2u8; 32]);
        let pt0 = ctx.encode_znx(&za, meta(d, 0));
        let (o, _) = run(|| m.ckks_encrypt_sk(&mut c, &pt0, &ctx.sk, &glwe_layout(P.k), &mut xa, &mut xe, scratch.borrow()));
        record("encrypt_sk", bytes, o);
        let bytes = m.ckks_decrypt_tmp_bytes(&a);
        let mut scratch = ScratchOwned::<BE>::alloc(bytes);
        let mut p = CKKSPlaintextVecZnx::alloc(P.n.into(), P.base2k.into(), meta(d, 5));
        let (o, _) = run(|| m.ckks_decrypt(&mut p, &a, &ctx.sk, scratch.borrow()));
        record("decrypt", bytes, o);
    }
    let _ = atk_infos.n();
    assert!(fails.is_empty(), "{} failures:\n{}", fails.len(), fails.join("\n"));
}
