// Shared body of the C16 audit. `include!`d into a module that defines
//   type BE = <backend>;  type F = <scalar>;  const P: super::Params = ...;
//
// Everything here is concrete in BE / F so that no trait-bound plumbing is needed.

use std::collections::HashMap;
use std::panic::{AssertUnwindSafe, catch_unwind};

use poulpy_ckks::{
    CKKSCompositionError, CKKSInfos, CKKSMeta,
    encoding::Encoder,
    layouts::{
        CKKSCiphertext, CKKSConstPlaintextConversion, CKKSMaintainOps, CKKSPlaintextConversion, CKKSPlaintextCstRnx,
        CKKSPlaintextVecRnx, CKKSPlaintextVecZnx,
    },
    leveled::api::{
        CKKSAddManyOps, CKKSAddOps, CKKSAllOpsTmpBytes, CKKSConjugateOps, CKKSDecrypt, CKKSDotProductOps, CKKSEncrypt,
        CKKSMulAddOps, CKKSMulManyOps, CKKSMulOps, CKKSMulSubOps, CKKSNegOps, CKKSPow2Ops, CKKSRescaleOps, CKKSRotateOps,
        CKKSSubOps,
    },
};
use poulpy_core::{
    EncryptionLayout, GLWEAutomorphismKeyEncryptSk, GLWETensorKeyEncryptSk,
    layouts::{
        GLWEAutomorphismKey, GLWEAutomorphismKeyLayout, GLWEAutomorphismKeyPrepared, GLWEAutomorphismKeyPreparedFactory,
        GLWEInfos, GLWELayout, GLWESecret, GLWESecretPreparedFactory, GLWETensorKey, GLWETensorKeyLayout, GLWETensorKeyPrepared,
        GLWETensorKeyPreparedFactory, LWEInfos, Rank, prepared::GLWESecretPrepared,
    },
};
use poulpy_hal::{
    api::{ModuleNew, ScratchOwnedAlloc, ScratchOwnedBorrow},
    layouts::{DeviceBuf, GaloisElement, Module, ScratchOwned, ZnxViewMut},
    source::Source,
};
use rand_distr::num_traits::{Float, FromPrimitive, ToPrimitive, Zero};

#[allow(dead_code)]
type Ct = CKKSCiphertext<Vec<u8>>;
#[allow(dead_code)]
type Atk = GLWEAutomorphismKeyPrepared<DeviceBuf<BE>, BE>;

#[allow(dead_code)]
pub struct Ctx {
    pub module: Module<BE>,
    pub enc: Encoder<F>,
    pub sk: GLWESecretPrepared<DeviceBuf<BE>, BE>,
    pub tsk: GLWETensorKeyPrepared<DeviceBuf<BE>, BE>,
    pub atks: HashMap<i64, Atk>,
    pub scratch_bytes: usize,
}

#[allow(dead_code)]
fn f(x: f64) -> F {
    F::from_f64(x).unwrap()
}
#[allow(dead_code)]
fn to64(x: F) -> f64 {
    x.to_f64().unwrap()
}

#[allow(dead_code)]
fn glwe_layout(k: usize) -> EncryptionLayout<GLWELayout> {
    EncryptionLayout::new_from_default_sigma(GLWELayout {
        n: P.n.into(),
        base2k: P.base2k.into(),
        k: k.into(),
        rank: Rank(1),
    })
    .unwrap()
}

#[allow(dead_code)]
fn tsk_layout() -> EncryptionLayout<GLWETensorKeyLayout> {
    let k = P.k + P.dsize * P.base2k;
    let dnum = P.k.div_ceil(P.dsize * P.base2k);
    EncryptionLayout::new_from_default_sigma(GLWETensorKeyLayout {
        n: P.n.into(),
        base2k: P.base2k.into(),
        k: k.into(),
        rank: Rank(1),
        dsize: P.dsize.into(),
        dnum: dnum.into(),
    })
    .unwrap()
}

#[allow(dead_code)]
fn atk_layout() -> EncryptionLayout<GLWEAutomorphismKeyLayout> {
    let k = P.k + P.dsize * P.base2k;
    let dnum = P.k.div_ceil(P.dsize * P.base2k);
    EncryptionLayout::new_from_default_sigma(GLWEAutomorphismKeyLayout {
        n: P.n.into(),
        base2k: P.base2k.into(),
        k: k.into(),
        rank: Rank(1),
        dsize: P.dsize.into(),
        dnum: dnum.into(),
    })
    .unwrap()
}

#[allow(dead_code)]
impl Ctx {
    /// `rotations`: slot rotation indices for which a key is generated (conjugation key -1 always added).
    pub fn new(rotations: &[i64]) -> Self {
        let module = Module::<BE>::new(P.n as u64);
        let m = P.n / 2;
        let gl = glwe_layout(P.k);
        let tl = tsk_layout();
        let al = atk_layout();
        let prec = CKKSMeta {
            log_delta: P.log_delta,
            log_budget: P.base2k,
        };
        let scratch_bytes = 4 * module.ckks_all_ops_with_atk_tmp_bytes(&gl, &tl, &al, &prec) + (1 << 20);
        let mut scratch = ScratchOwned::<BE>::alloc(scratch_bytes);

        let mut xs = Source::new([0u8; 32]);
        let mut xa = Source::new([1u8; 32]);
        let mut xe = Source::new([2u8; 32]);

        let mut sk_raw = GLWESecret::alloc_from_infos(&gl);
        sk_raw.fill_ternary_hw(P.hw, &mut xs);
        let mut sk = module.glwe_secret_prepared_alloc_from_infos(&gl);
        module.glwe_secret_prepare(&mut sk, &sk_raw);

        let mut tsk = GLWETensorKey::alloc_from_infos(&tl);
        module.glwe_tensor_key_encrypt_sk(&mut tsk, &sk_raw, &tl, &mut xa, &mut xe, scratch.borrow());
        let mut tsk_p = module.alloc_tensor_key_prepared_from_infos(&tl);
        module.prepare_tensor_key(&mut tsk_p, &tsk, scratch.borrow());

        let mut idx: Vec<i64> = rotations.to_vec();
        idx.push(-1);
        idx.sort();
        idx.dedup();
        let mut atks = HashMap::new();
        for &i in &idx {
            let mut atk = GLWEAutomorphismKey::alloc_from_infos(&al);
            // index -1 = conjugation (X -> X^-1); a negative slot rotation -r is the positive rotation m-r
            let g = if i == -1 { -1 } else { module.galois_element(i.rem_euclid(m as i64)) };
            module.glwe_automorphism_key_encrypt_sk(&mut atk, g, &sk_raw, &al, &mut xa, &mut xe, scratch.borrow());
            let mut atk_p = module.glwe_automorphism_key_prepared_alloc_from_infos(&al);
            module.glwe_automorphism_key_prepare(&mut atk_p, &atk, scratch.borrow());
            atks.insert(i, atk_p);
        }

        Self {
            module,
            enc: Encoder::<F>::new(m).unwrap(),
            sk,
            tsk: tsk_p,
            atks,
            scratch_bytes,
        }
    }

    pub fn scratch(&self) -> ScratchOwned<BE> {
        ScratchOwned::<BE>::alloc(self.scratch_bytes)
    }

    pub fn alloc_ct(&self, k: usize) -> Ct {
        CKKSCiphertext::alloc(P.n.into(), k.into(), P.base2k.into())
    }

    /// Allocates a ciphertext whose limbs are filled with normalized garbage.
    pub fn alloc_ct_dirty(&self, k: usize, src: &mut Source) -> Ct {
        let mut ct = self.alloc_ct(k);
        let size = ct.size();
        let bound = 1i64 << (P.base2k - 1);
        for col in 0..2 {
            for limb in 0..size {
                for x in ct.data_mut().at_mut(col, limb).iter_mut() {
                    *x = src.next_i64() % bound;
                }
            }
        }
        ct
    }

    pub fn encode_rnx(&self, z: &[(F, F)]) -> CKKSPlaintextVecRnx<F> {
        let re: Vec<F> = z.iter().map(|c| c.0).collect();
        let im: Vec<F> = z.iter().map(|c| c.1).collect();
        let mut pt = CKKSPlaintextVecRnx::<F>::alloc(P.n).unwrap();
        self.enc.encode_reim(&mut pt, &re, &im).unwrap();
        pt
    }

    pub fn encode_znx(&self, z: &[(F, F)], meta: CKKSMeta) -> CKKSPlaintextVecZnx<Vec<u8>> {
        let rnx = self.encode_rnx(z);
        let mut znx = CKKSPlaintextVecZnx::alloc(P.n.into(), P.base2k.into(), meta);
        rnx.to_znx(&mut znx).unwrap();
        znx
    }

    pub fn decode_znx(&self, pt: &CKKSPlaintextVecZnx<Vec<u8>>) -> Vec<(F, F)> {
        let mut rnx = CKKSPlaintextVecRnx::<F>::alloc(P.n).unwrap();
        rnx.decode_from_znx(pt).unwrap();
        let m = P.n / 2;
        let mut re = vec![F::zero(); m];
        let mut im = vec![F::zero(); m];
        self.enc.decode_reim(&rnx, &mut re, &mut im).unwrap();
        re.into_iter().zip(im).collect()
    }

    /// Encrypts `z` with scaling `log_delta` into a ciphertext of torus precision `k`
    /// (encryption noise at `k`, so the fresh metadata is (log_delta, k - log_delta)).
    pub fn encrypt(&self, z: &[(F, F)], log_delta: usize, k: usize, seed: u8) -> Ct {
        let mut scratch = self.scratch();
        let pt = self.encode_znx(
            z,
            CKKSMeta {
                log_delta,
                log_budget: 0,
            },
        );
        let mut ct = self.alloc_ct(k);
        let mut xa = Source::new([seed; 32]);
        let mut xe = Source::new([seed.wrapping_add(101); 32]);
        self.module
            .ckks_encrypt_sk(&mut ct, &pt, &self.sk, &glwe_layout(k), &mut xa, &mut xe, scratch.borrow())
            .unwrap();
        ct
    }

    /// Fresh ciphertext with an arbitrary (possibly tiny) log_budget: encrypted two limbs higher with a
    /// plaintext that can hold the value, then rescaled down and compacted.
    pub fn encrypt_small_budget(&self, z: &[(F, F)], log_delta: usize, log_budget: usize, seed: u8) -> Ct {
        let mut scratch = self.scratch();
        let pad = 2 * P.base2k;
        let k = log_delta + log_budget + pad;
        let pt = self.encode_znx(
            z,
            CKKSMeta {
                log_delta,
                log_budget: log_budget + 2,
            },
        );
        let mut ct = self.alloc_ct(k);
        let mut xa = Source::new([seed; 32]);
        let mut xe = Source::new([seed.wrapping_add(101); 32]);
        self.module
            .ckks_encrypt_sk(&mut ct, &pt, &self.sk, &glwe_layout(k), &mut xa, &mut xe, scratch.borrow())
            .unwrap();
        self.module.ckks_rescale_assign(&mut ct, pad, scratch.borrow()).unwrap();
        self.module.ckks_compact_limbs(&mut ct).unwrap();
        ct
    }

    /// Decrypts at the ciphertext's own metadata (log_delta, min(log_budget, cap)) and decodes.
    pub fn decrypt(&self, ct: &Ct) -> anyhow::Result<Vec<(F, F)>> {
        let mut scratch = self.scratch();
        // the plaintext buffer must be decodable: log_delta + log_budget <= 127 and, for F, log_delta bounded.
        let cap = 120usize.saturating_sub(ct.log_delta());
        let meta = CKKSMeta {
            log_delta: ct.log_delta(),
            log_budget: ct.log_budget().min(cap),
        };
        let mut pt = CKKSPlaintextVecZnx::alloc(P.n.into(), P.base2k.into(), meta);
        self.module.ckks_decrypt(&mut pt, ct, &self.sk, scratch.borrow())?;
        Ok(self.decode_znx(&pt))
    }
}

// ---------- complex helpers ----------
#[allow(dead_code)]
fn cadd(a: (F, F), b: (F, F)) -> (F, F) {
    (a.0 + b.0, a.1 + b.1)
}
#[allow(dead_code)]
fn csub(a: (F, F), b: (F, F)) -> (F, F) {
    (a.0 - b.0, a.1 - b.1)
}
#[allow(dead_code)]
fn cmul(a: (F, F), b: (F, F)) -> (F, F) {
    (a.0 * b.0 - a.1 * b.1, a.0 * b.1 + a.1 * b.0)
}
#[allow(dead_code)]
fn cneg(a: (F, F)) -> (F, F) {
    (-a.0, -a.1)
}
#[allow(dead_code)]
fn cscale(a: (F, F), s: F) -> (F, F) {
    (a.0 * s, a.1 * s)
}
#[allow(dead_code)]
fn max_err(a: &[(F, F)], b: &[(F, F)]) -> f64 {
    a.iter()
        .zip(b)
        .map(|(x, y)| to64((x.0 - y.0).abs()).max(to64((x.1 - y.1).abs())))
        .fold(0.0, f64::max)
}
#[allow(dead_code)]
fn max_mag(a: &[(F, F)]) -> f64 {
    a.iter().map(|x| to64(x.0.abs()).max(to64(x.1.abs()))).fold(0.0, f64::max)
}
#[allow(dead_code)]
fn rand_slots(src: &mut Source, mag: f64) -> Vec<(F, F)> {
    (0..P.n / 2)
        .map(|_| (f(src.next_f64(-mag, mag)), f(src.next_f64(-mag, mag))))
        .collect()
}
#[allow(dead_code)]
fn rot(z: &[(F, F)], k: i64) -> Vec<(F, F)> {
    let m = z.len() as i64;
    (0..m).map(|j| z[((j + k).rem_euclid(m)) as usize]).collect()
}
#[allow(dead_code)]
fn eff_limbs(ct: &Ct) -> usize {
    ct.effective_k().div_ceil(P.base2k)
}
#[allow(dead_code)]
fn is_ckks_err(e: &anyhow::Error) -> bool {
    e.downcast_ref::<CKKSCompositionError>().is_some()
}

// ---------- outcome helpers ----------
#[allow(dead_code)]
#[derive(Debug)]
pub enum Outcome {
    Ok,
    Err(String, bool), // message, is CKKSCompositionError
    Panic(String),
}

thread_local! {
    static QUIET: std::cell::Cell<bool> = const { std::cell::Cell::new(false) };
}
static HOOK: std::sync::Once = std::sync::Once::new();

#[allow(dead_code)]
pub fn run<R>(fun: impl FnOnce() -> anyhow::Result<R>) -> (Outcome, Option<R>) {
    HOOK.call_once(|| {
        let prev = std::panic::take_hook();
        std::panic::set_hook(Box::new(move |info| {
            if !QUIET.with(|q| q.get()) {
                prev(info);
            }
        }));
    });
    QUIET.with(|q| q.set(true));
    let r = catch_unwind(AssertUnwindSafe(fun));
    QUIET.with(|q| q.set(false));
    match r {
        Ok(Ok(r)) => (Outcome::Ok, Some(r)),
        Ok(Err(e)) => (Outcome::Err(format!("{e}"), is_ckks_err(&e)), None),
        Err(p) => {
            let msg = if let Some(s) = p.downcast_ref::<String>() {
                s.clone()
            } else if let Some(s) = p.downcast_ref::<&str>() {
                s.to_string()
            } else {
                "<non-string panic>".to_string()
            };
            (Outcome::Panic(msg), None)
        }
    }
}

#[allow(dead_code)]
pub fn meta(log_delta: usize, log_budget: usize) -> CKKSMeta {
    CKKSMeta { log_delta, log_budget }
}

/// tolerance unit: n * 64 * 2^-log_delta
#[allow(dead_code)]
pub fn unit(log_delta: usize) -> f64 {
    (P.n as f64) * 64.0 * (-(log_delta as f64)).exp2()
}

/// Checks invariant + meta + decrypted value. Returns a description of the first violation.
#[allow(dead_code)]
pub fn check(ctx: &Ctx, ct: &Ct, want: &[(F, F)], want_meta: CKKSMeta, tol: f64) -> Result<(), String> {
    if ct.meta() != want_meta {
        return Err(format!("META got {:?} want {:?}", ct.meta(), want_meta));
    }
    if ct.effective_k() > ct.max_k().as_usize() {
        return Err(format!(
            "INVARIANT effective_k {} > max_k {}",
            ct.effective_k(),
            ct.max_k().as_usize()
        ));
    }
    match run(|| ctx.decrypt(ct)) {
        (Outcome::Ok, Some(got)) => {
            let e = max_err(&got, want);
            if !(e <= tol) {
                return Err(format!(
                    "VALUE max_err {e:e} > tol {tol:e} (log2 err {:.1}, |want| {:.3e}, meta {:?}, size {} max_k {})",
                    e.log2(),
                    max_mag(want),
                    ct.meta(),
                    ct.size(),
                    ct.max_k().as_usize()
                ));
            }
            Ok(())
        }
        (o, _) => Err(format!("DECRYPT failed: {o:?} (meta {:?})", ct.meta())),
    }
}
