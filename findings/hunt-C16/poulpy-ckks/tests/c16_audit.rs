#![allow(unused_imports, dead_code, clippy::all)]
//! C16 audit: CKKS evaluator tracks values and precision metadata through any program.
//!
//! The body (tests/c16_inc/*.rs) is instantiated for FFT64Ref/f64, NTT120Ref/f64 and NTT120Ref/f128.

#[derive(Clone, Copy, Debug)]
pub struct Params {
    pub n: usize,
    pub base2k: usize,
    /// maximum ciphertext torus precision (keys are sized for it)
    pub k: usize,
    /// default scaling factor
    pub log_delta: usize,
    pub hw: usize,
    pub dsize: usize,
}

mod fft64_f64 {
    #[allow(dead_code)]
    type BE = poulpy_cpu_ref::FFT64Ref;
    #[allow(dead_code)]
    type F = f64;
    const P: super::Params = super::Params {
        n: 32,
        base2k: 19,
        k: 8 * 19,
        log_delta: 30,
        hw: 16,
        dsize: 1,
    };
    include!("c16_inc/body.rs");
    include!("c16_inc/engine.rs");
    include!("c16_inc/tests.rs");
}

mod ntt120_f64 {
    #[allow(dead_code)]
    type BE = poulpy_cpu_ref::NTT120Ref;
    #[allow(dead_code)]
    type F = f64;
    const P: super::Params = super::Params {
        n: 32,
        base2k: 52,
        k: 6 * 52,
        log_delta: 40,
        hw: 16,
        dsize: 1,
    };
    include!("c16_inc/body.rs");
    include!("c16_inc/engine.rs");
    include!("c16_inc/tests.rs");
}

mod ntt120_f128 {
    #[allow(dead_code)]
    type BE = poulpy_cpu_ref::NTT120Ref;
    #[allow(dead_code)]
    type F = f128::f128;
    const P: super::Params = super::Params {
        n: 32,
        base2k: 52,
        k: 8 * 52,
        log_delta: 80,
        hw: 16,
        dsize: 1,
    };
    include!("c16_inc/body.rs");
    include!("c16_inc/engine.rs");
    include!("c16_inc/tests.rs");
}

// Odd parameter sets: k not a multiple of base2k, dsize = 2, other ring degree.
mod fft64_b17 {
    #[allow(dead_code)]
    type BE = poulpy_cpu_ref::FFT64Ref;
    #[allow(dead_code)]
    type F = f64;
    const P: super::Params = super::Params {
        n: 64,
        base2k: 17,
        k: 140,
        log_delta: 26,
        hw: 24,
        dsize: 2,
    };
    include!("c16_inc/body.rs");
    include!("c16_inc/engine.rs");
    include!("c16_inc/tests.rs");
}

mod ntt120_b45 {
    #[allow(dead_code)]
    type BE = poulpy_cpu_ref::NTT120Ref;
    #[allow(dead_code)]
    type F = f128::f128;
    const P: super::Params = super::Params {
        n: 16,
        base2k: 45,
        k: 400,
        log_delta: 61,
        hw: 8,
        dsize: 2,
    };
    include!("c16_inc/body.rs");
    include!("c16_inc/engine.rs");
    include!("c16_inc/tests.rs");
}
