//! C19: seed-compressed objects expand to exactly what full encryption would produce.
//!
//! Oracle: an exact integer model (arithmetic mod 2^K, K = size * base2k <= 120) of
//!   cell = ( canon( pt_term + e - sum_i a_i * s_i ), a_1, .., a_rank )
//! where the mask a_i is regenerated *independently of the library* from ChaCha8(seed_cell), the error e is the
//! replayed error stream (HAL `vec_znx_add_normal` on a zero vector), s is a replica of the secret and `canon` is the
//! balanced base-2^base2k digit decomposition.
#![allow(clippy::too_many_arguments, clippy::needless_range_loop)]

use poulpy_hal::{
    layouts::{DataRef, NoiseInfos, VecZnx, ZnxInfos, ZnxView},
    source::Source,
};

pub const SIGMA: f64 = 3.2;
pub const BOUND: f64 = 6.0 * SIGMA;

pub fn mask_bits(k: usize) -> u128 {
    if k >= 128 { u128::MAX } else { (1u128 << k) - 1 }
}

/// Value mod 2^K of column `col` of `v` (limbs beyond `size_k` are ignored, missing limbs are zero).
pub fn col_val<D: DataRef>(v: &VecZnx<D>, col: usize, base2k: usize, size_k: usize) -> Vec<u128> {
    let k = size_k * base2k;
    assert!(k <= 128);
    let n = v.n();
    let mut out = vec![0u128; n];
    for j in 0..v.size().min(size_k) {
        let shift = (k - (j + 1) * base2k) as u32;
        let limb = v.at(col, j);
        for i in 0..n {
            out[i] = out[i].wrapping_add((limb[i] as i128 as u128).wrapping_shl(shift));
        }
    }
    out
}

pub fn negacyclic(a: &[u128], s: &[i64]) -> Vec<u128> {
    let n = a.len();
    assert_eq!(s.len(), n);
    let mut out = vec![0u128; n];
    for i in 0..n {
        for j in 0..n {
            let p = a[i].wrapping_mul(s[j] as i128 as u128);
            if i + j < n {
                out[i + j] = out[i + j].wrapping_add(p);
            } else {
                out[i + j - n] = out[i + j - n].wrapping_sub(p);
            }
        }
    }
    out
}

pub fn add(a: &[u128], b: &[u128]) -> Vec<u128> {
    a.iter().zip(b).map(|(x, y)| x.wrapping_add(*y)).collect()
}
pub fn sub(a: &[u128], b: &[u128]) -> Vec<u128> {
    a.iter().zip(b).map(|(x, y)| x.wrapping_sub(*y)).collect()
}

/// Balanced digits (as produced by the library normalisation) of `v` mod 2^(size*base2k): [limb][coeff].
pub fn canon_limbs(v: &[u128], base2k: usize, size: usize) -> Vec<Vec<i64>> {
    let k = size * base2k;
    let mut out = vec![vec![0i64; v.len()]; size];
    for (i, &vi) in v.iter().enumerate() {
        let mut x: i128 = (vi & mask_bits(k)) as i128;
        for j in (0..size).rev() {
            let low: i128 = x & ((1i128 << base2k) - 1);
            let d: i128 = if low >= (1i128 << (base2k - 1)) { low - (1i128 << base2k) } else { low };
            out[j][i] = d as i64;
            x = (x - d) >> base2k;
        }
    }
    out
}

/// Independent regeneration of the mask: [col-1][limb][coeff].
pub fn mask_oracle(seed: [u8; 32], n: usize, rank: usize, size: usize, base2k: usize) -> Vec<Vec<Vec<i64>>> {
    use rand_core_shim::next_u64;
    let mut src = Source::new(seed);
    let pow2k: u64 = 1u64 << base2k;
    let mask: u64 = pow2k - 1;
    let half: i64 = (pow2k >> 1) as i64;
    let mut out = Vec::new();
    for _ in 0..rank {
        let mut col = Vec::new();
        for _ in 0..size {
            let mut limb = vec![0i64; n];
            for x in limb.iter_mut() {
                let mut r = next_u64(&mut src) & mask;
                while r >= pow2k {
                    r = next_u64(&mut src) & mask;
                }
                *x = r as i64 - half;
            }
            col.push(limb);
        }
        out.push(col);
    }
    out
}

mod rand_core_shim {
    use poulpy_hal::source::Source;
    // `Source::next_u64n(max, mask)` draws one u64 per iteration: with max = 2^b and mask = 2^b - 1 it never rejects,
    // so one call == one raw u64 draw masked to b bits.
    pub fn next_u64(src: &mut Source) -> u64 {
        src.next_u64n(u64::MAX, u64::MAX)
    }
}

pub fn noise(k: usize) -> NoiseInfos {
    NoiseInfos::new(k, SIGMA, BOUND).unwrap()
}

pub fn scale_pt(p: &[i64], shift: usize) -> Vec<u128> {
    p.iter().map(|&c| (c as i128 as u128).wrapping_shl(shift as u32)).collect()
}

/// X^i -> X^(i*g) on Z[X]/(X^n+1).
pub fn automorphism(a: &[i64], g: i64) -> Vec<i64> {
    let n = a.len() as i64;
    let two_n = 2 * n;
    let g = g.rem_euclid(two_n);
    let mut out = vec![0i64; a.len()];
    for i in 0..n {
        let e = (i * g).rem_euclid(two_n);
        if e < n {
            out[e as usize] += a[i as usize];
        } else {
            out[(e - n) as usize] -= a[i as usize];
        }
    }
    out
}

pub fn negacyclic_i64(a: &[i64], b: &[i64]) -> Vec<i64> {
    let n = a.len();
    let mut out = vec![0i64; n];
    for i in 0..n {
        for j in 0..n {
            if i + j < n {
                out[i + j] += a[i] * b[j];
            } else {
                out[i + j - n] -= a[i] * b[j];
            }
        }
    }
    out
}

macro_rules! c19_backend {
    ($modname:ident, $BE:ty) => {
        pub mod $modname {
            use super::*;
            use poulpy_core::{
                GGLWECompressedEncryptSk, GGLWEEncryptSk, GGLWEToGGSWKeyCompressedEncryptSk, GGLWEToGGSWKeyEncryptSk,
                GGSWCompressedEncryptSk, GGSWEncryptSk, GLWEAutomorphismKeyCompressedEncryptSk, GLWEAutomorphismKeyEncryptSk,
                GLWECompressedEncryptSk, GLWEEncryptSk, GLWESwitchingKeyCompressedEncryptSk, GLWESwitchingKeyEncryptSk,
                GLWETensorKeyCompressedEncryptSk, GLWETensorKeyEncryptSk,
                layouts::{
                    Base2K, Degree, Dnum, Dsize, GGLWE, GGLWEInfos, GGLWEToGGSWKey, GGLWEToGGSWKeyCompressed,
                    GGLWEToGGSWKeyDecompress, GGLWEToRef, GGSW, GLWE, GLWEAutomorphismKey,
                    GLWEAutomorphismKeyDecompress, GLWEInfos, GLWEPlaintext, GLWESecret, GLWESecretPreparedFactory,
                    GLWESwitchingKey, GLWESwitchingKeyDecompress, GLWETensorKey, GLWETensorKeyDecompress, LWEInfos, Rank,
                    TorusPrecision,
                    compressed::{
                        GGLWECompressed, GGLWECompressedSeed, GGLWECompressedToRef, GGLWEDecompress, GGSWCompressed,
                        GGSWCompressedSeed, GGSWDecompress, GLWEAutomorphismKeyCompressed, GLWECompressed, GLWECompressedSeed,
                        GLWEDecompress, GLWESwitchingKeyCompressed, GLWETensorKeyCompressed,
                    },
                    prepared::GLWESecretPrepared,
                },
            };
            use poulpy_hal::{
                api::{ModuleNew, ScratchOwnedAlloc, ScratchOwnedBorrow, VecZnxAddNormal, VecZnxFillUniform},
                layouts::{
                    DeviceBuf, FillUniform, GaloisElement, Module, ReaderFrom, ScalarZnx, ScratchOwned, WriterTo, ZnxViewMut,
                },
            };

            pub type BE = $BE;

            pub fn scratch(bytes: usize, dirty: u8) -> ScratchOwned<BE> {
                let mut s: ScratchOwned<BE> = ScratchOwned::alloc(bytes);
                s.data.as_mut().iter_mut().for_each(|b| *b = dirty);
                s
            }

            /// A secret and a replica of its coefficients.
            pub fn make_sk(n: usize, rank: usize, seed: [u8; 32]) -> (GLWESecret<Vec<u8>>, Vec<Vec<i64>>) {
                let mut sk = GLWESecret::alloc(Degree(n as u32), Rank(rank as u32));
                sk.fill_ternary_prob(0.5, &mut Source::new(seed));
                let mut rep = ScalarZnx::alloc(n, rank);
                let mut src = Source::new(seed);
                for i in 0..rank {
                    rep.fill_ternary_prob(i, 0.5, &mut src);
                }
                let coeffs = (0..rank).map(|i| rep.at(i, 0).to_vec()).collect();
                (sk, coeffs)
            }

            pub fn prepare(module: &Module<BE>, sk: &GLWESecret<Vec<u8>>) -> GLWESecretPrepared<DeviceBuf<BE>, BE> {
                let mut p = module.glwe_secret_prepared_alloc(sk.rank());
                module.glwe_secret_prepare(&mut p, sk);
                p
            }

            pub fn next_err(module: &Module<BE>, base2k: usize, size: usize, ni: NoiseInfos, src: &mut Source) -> Vec<u128> {
                let mut v = VecZnx::alloc(module.n(), 1, size);
                module.vec_znx_add_normal(base2k, &mut v, 0, ni, src);
                col_val(&v, 0, base2k, size)
            }

            pub fn phase(cell: &GLWE<&[u8]>, s: &[Vec<i64>]) -> Vec<u128> {
                let base2k = cell.base2k().as_usize();
                let size = cell.size();
                let mut ph = col_val(cell.data(), 0, base2k, size);
                for i in 0..cell.rank().as_usize() {
                    ph = add(&ph, &negacyclic(&col_val(cell.data(), i + 1, base2k, size), &s[i]));
                }
                ph
            }

            /// Standard (non compressed) cell: only the phase is pinned.
            pub fn check_phase(tag: &str, cell: &GLWE<&[u8]>, s: &[Vec<i64>], want_phase: &[u128]) {
                let k = cell.size() * cell.base2k().as_usize();
                let have = phase(cell, s);
                for i in 0..have.len() {
                    assert_eq!(
                        have[i] & mask_bits(k),
                        want_phase[i] & mask_bits(k),
                        "{tag}: [standard] phase differs from model at coeff {i}"
                    );
                }
            }

            /// Decompressed cell: mask == ChaCha8(seed) stream, body == canon(phase - <a, s>).
            pub fn check_cell(tag: &str, cell: &GLWE<&[u8]>, seed: [u8; 32], s: &[Vec<i64>], want_phase: &[u128]) {
                let base2k = cell.base2k().as_usize();
                let size = cell.size();
                let rank = cell.rank().as_usize();
                let n = cell.n().as_usize();
                assert_eq!(s.len(), rank, "{tag}");
                let mask = mask_oracle(seed, n, rank, size, base2k);
                let mut body = want_phase.to_vec();
                for c in 0..rank {
                    for j in 0..size {
                        assert_eq!(cell.data().at(c + 1, j), &mask[c][j][..], "{tag}: mask col {} limb {j}", c + 1);
                    }
                    body = sub(&body, &negacyclic(&col_val(cell.data(), c + 1, base2k, size), &s[c]));
                }
                let want = canon_limbs(&body, base2k, size);
                for j in 0..size {
                    assert_eq!(cell.data().at(0, j), &want[j][..], "{tag}: body limb {j}");
                }
            }

            pub fn bytes_of<T: WriterTo>(x: &T) -> Vec<u8> {
                let mut v = Vec::new();
                x.write_to(&mut v).unwrap();
                v
            }

            // ------------------------------------------------------------------------------------------------
            // GLWE
            // ------------------------------------------------------------------------------------------------
            pub fn glwe_case(
                n: usize,
                base2k: usize,
                k: usize,
                k_pt: usize,
                k_noise: usize,
                rank: usize,
                seed: [u8; 32],
                extra_scratch: usize,
            ) -> Vec<u8> {
                let tag = format!("glwe n={n} b={base2k} k={k} k_pt={k_pt} kn={k_noise} rank={rank}");
                let module: Module<BE> = Module::<BE>::new(n as u64);
                let size = k.div_ceil(base2k);
                let ni = noise(k_noise);
                let (sk, s) = make_sk(n, rank, [7u8; 32]);
                let skp = prepare(&module, &sk);

                let mut pt = GLWEPlaintext::alloc(Degree(n as u32), Base2K(base2k as u32), TorusPrecision(k_pt as u32));
                module.vec_znx_fill_uniform(base2k, pt.data_mut(), 0, &mut Source::new([3u8; 32]));

                let mut ct = GLWECompressed::alloc(
                    Degree(n as u32),
                    Base2K(base2k as u32),
                    TorusPrecision(k as u32),
                    Rank(rank as u32),
                );
                ct.fill_uniform(base2k, &mut Source::new([9u8; 32])); // dirty receiver
                let mut sc = scratch(module.glwe_compressed_encrypt_sk_tmp_bytes(&ct) + extra_scratch, 0xA5);
                let xe_seed = [11u8; 32];
                module.glwe_compressed_encrypt_sk(&mut ct, &pt, &skp, seed, &ni, &mut Source::new(xe_seed), sc.borrow());
                assert_eq!(ct.seed(), &seed, "{tag}: stored seed");

                // serialisation round trip into a dirty receiver
                let bytes = bytes_of(&ct);
                let mut ct2 = GLWECompressed::alloc(
                    Degree(n as u32),
                    Base2K(base2k as u32),
                    TorusPrecision(k as u32),
                    Rank(rank as u32),
                );
                ct2.fill_uniform(base2k, &mut Source::new([10u8; 32]));
                ct2.read_from(&mut &bytes[..]).unwrap();
                assert!(ct == ct2, "{tag}: serialisation round trip");

                let want_phase = add(
                    &col_val(pt.data(), 0, base2k, size),
                    &next_err(&module, base2k, size, ni, &mut Source::new(xe_seed)),
                );

                for src in [&ct, &ct2] {
                    let mut out = GLWE::alloc(
                        Degree(n as u32),
                        Base2K(base2k as u32),
                        TorusPrecision(k as u32),
                        Rank(rank as u32),
                    );
                    out.fill_uniform(base2k, &mut Source::new([12u8; 32]));
                    module.decompress_glwe(&mut out, src);
                    check_cell(&tag, &out.to_ref_glwe(), seed, &s, &want_phase);

                    // sibling: standard encryption with the mask stream seeded by the stored seed
                    let mut std = GLWE::alloc(
                        Degree(n as u32),
                        Base2K(base2k as u32),
                        TorusPrecision(k as u32),
                        Rank(rank as u32),
                    );
                    let mut sc2 = scratch(module.glwe_encrypt_sk_tmp_bytes(&std), 0x5A);
                    module.glwe_encrypt_sk(
                        &mut std,
                        &pt,
                        &skp,
                        &ni,
                        &mut Source::new(xe_seed),
                        &mut Source::new(seed),
                        sc2.borrow(),
                    );
                    assert!(std == out, "{tag}: decompressed != standard encryption");
                }
                bytes
            }

            pub trait ToRefGlwe {
                fn to_ref_glwe(&self) -> GLWE<&[u8]>;
            }
            impl ToRefGlwe for GLWE<Vec<u8>> {
                fn to_ref_glwe(&self) -> GLWE<&[u8]> {
                    use poulpy_core::layouts::GLWEToRef;
                    self.to_ref()
                }
            }

            // ------------------------------------------------------------------------------------------------
            // GGLWE family: generic checker on a decompressed GGLWE
            // ------------------------------------------------------------------------------------------------

            /// `pt[c]`: plaintext polynomial of input column c; `s`: output secret.
            pub fn gglwe_want_phases(
                module: &Module<BE>,
                base2k: usize,
                size: usize,
                dnum: usize,
                dsize: usize,
                pt: &[Vec<i64>],
                ni: NoiseInfos,
                xe: &mut Source,
            ) -> Vec<Vec<Vec<u128>>> {
                // [col][row]
                let k = size * base2k;
                let mut out = Vec::new();
                for p in pt {
                    let mut rows = Vec::new();
                    for row in 0..dnum {
                        let e = next_err(module, base2k, size, ni, xe);
                        rows.push(add(&scale_pt(p, k - (row + 1) * dsize * base2k), &e));
                    }
                    out.push(rows);
                }
                out
            }

            pub fn check_gglwe_decompressed(
                tag: &str,
                out: &GGLWE<&[u8]>,
                seeds: &[[u8; 32]],
                seeds_rank_in: usize,
                s: &[Vec<i64>],
                want: &[Vec<Vec<u128>>],
            ) {
                for col in 0..out.rank_in().as_usize() {
                    for row in 0..out.dnum().as_usize() {
                        check_cell(
                            &format!("{tag} cell(row={row},col={col})"),
                            &out.at(row, col),
                            seeds[row * seeds_rank_in + col],
                            s,
                            &want[col][row],
                        );
                    }
                }
            }

            pub fn check_gglwe_standard(tag: &str, out: &GGLWE<&[u8]>, s: &[Vec<i64>], want: &[Vec<Vec<u128>>]) {
                for col in 0..out.rank_in().as_usize() {
                    for row in 0..out.dnum().as_usize() {
                        check_phase(
                            &format!("{tag} cell(row={row},col={col})"),
                            &out.at(row, col),
                            s,
                            &want[col][row],
                        );
                    }
                }
            }

            pub fn assert_seeds_distinct(tag: &str, seeds: &[[u8; 32]]) {
                for i in 0..seeds.len() {
                    for j in 0..i {
                        assert_ne!(seeds[i], seeds[j], "{tag}: seeds {i} and {j} coincide");
                    }
                }
            }

            pub fn gglwe_case(
                n: usize,
                base2k: usize,
                k: usize,
                k_noise: usize,
                rank_in: usize,
                rank_out: usize,
                dnum: usize,
                dsize: usize,
                seed: [u8; 32],
                big_pt: bool,
            ) -> Vec<u8> {
                let tag =
                    format!("gglwe n={n} b={base2k} k={k} rin={rank_in} rout={rank_out} dnum={dnum} dsize={dsize} big={big_pt}");
                let module: Module<BE> = Module::<BE>::new(n as u64);
                let size = k.div_ceil(base2k);
                let ni = noise(k_noise);
                let (sk, s) = make_sk(n, rank_out, [7u8; 32]);
                let skp = prepare(&module, &sk);

                let mut pt = ScalarZnx::alloc(n, rank_in);
                let mut src = Source::new([5u8; 32]);
                for c in 0..rank_in {
                    pt.fill_ternary_prob(c, 0.5, &mut src);
                    if big_pt {
                        // coefficients that do not fit one limb: the plaintext limb has to be normalised
                        for (i, x) in pt.at_mut(c, 0).iter_mut().enumerate() {
                            *x = (*x) * ((1i64 << base2k) + 3 * i as i64 + 1);
                        }
                    }
                }
                let ptv: Vec<Vec<i64>> = (0..rank_in).map(|c| pt.at(c, 0).to_vec()).collect();

                let alloc_c = || {
                    GGLWECompressed::alloc(
                        Degree(n as u32),
                        Base2K(base2k as u32),
                        TorusPrecision(k as u32),
                        Rank(rank_in as u32),
                        Rank(rank_out as u32),
                        Dnum(dnum as u32),
                        Dsize(dsize as u32),
                    )
                };
                let alloc_s = |dn: usize| {
                    GGLWE::alloc(
                        Degree(n as u32),
                        Base2K(base2k as u32),
                        TorusPrecision(k as u32),
                        Rank(rank_in as u32),
                        Rank(rank_out as u32),
                        Dnum(dn as u32),
                        Dsize(dsize as u32),
                    )
                };

                let mut ct = alloc_c();
                ct.fill_uniform(base2k, &mut Source::new([9u8; 32]));
                let xe_seed = [11u8; 32];
                let mut sc = scratch(module.gglwe_compressed_encrypt_sk_tmp_bytes(&ct), 0xA5);
                module.gglwe_compressed_encrypt_sk(&mut ct, &pt, &skp, seed, &ni, &mut Source::new(xe_seed), sc.borrow());

                let want = gglwe_want_phases(&module, base2k, size, dnum, dsize, &ptv, ni, &mut Source::new(xe_seed));

                // model validation on the standard routine (same error stream, unrelated mask stream)
                let mut std = alloc_s(dnum);
                let mut sc2 = scratch(module.gglwe_encrypt_sk_tmp_bytes(&std), 0x5A);
                module.gglwe_encrypt_sk(
                    &mut std,
                    &pt,
                    &skp,
                    &ni,
                    &mut Source::new(xe_seed),
                    &mut Source::new([77u8; 32]),
                    sc2.borrow(),
                );
                check_gglwe_standard(&tag, &std.to_ref(), &s, &want);

                let seeds: Vec<[u8; 32]> = ct.seed().clone();
                assert_eq!(seeds.len(), dnum * rank_in, "{tag}");
                assert_seeds_distinct(&tag, &seeds);

                let bytes = bytes_of(&ct);
                let mut ct2 = alloc_c();
                ct2.fill_uniform(base2k, &mut Source::new([10u8; 32]));
                ct2.read_from(&mut &bytes[..]).unwrap();
                assert!(ct == ct2, "{tag}: serialisation round trip");

                for src in [&ct, &ct2] {
                    // full and row-truncated receivers
                    for dn in (1..=dnum).rev() {
                        let mut out = alloc_s(dn);
                        out.fill_uniform(base2k, &mut Source::new([12u8; 32]));
                        module.decompress_gglwe(&mut out, src);
                        check_gglwe_decompressed(&format!("{tag} res.dnum={dn}"), &out.to_ref(), &seeds, rank_in, &s, &want);

                        // sibling: per cell standard GLWE encryption
                        if dn == dnum {
                            let mut xe = Source::new(xe_seed);
                            for col in 0..rank_in {
                                for row in 0..dnum {
                                    let mut cell_pt = GLWEPlaintext::alloc(
                                        Degree(n as u32),
                                        Base2K(base2k as u32),
                                        TorusPrecision((size * base2k) as u32),
                                    );
                                    let limb = (dsize - 1) + row * dsize;
                                    let lim = canon_limbs(&scale_pt(&ptv[col], size * base2k - (limb + 1) * base2k), base2k, size);
                                    for j in 0..size {
                                        cell_pt.data_mut().at_mut(0, j).copy_from_slice(&lim[j]);
                                    }
                                    let mut cell = GLWE::alloc(
                                        Degree(n as u32),
                                        Base2K(base2k as u32),
                                        TorusPrecision(k as u32),
                                        Rank(rank_out as u32),
                                    );
                                    let mut sc3 = scratch(module.glwe_encrypt_sk_tmp_bytes(&cell), 0x33);
                                    module.glwe_encrypt_sk(
                                        &mut cell,
                                        &cell_pt,
                                        &skp,
                                        &ni,
                                        &mut xe,
                                        &mut Source::new(seeds[row * rank_in + col]),
                                        sc3.borrow(),
                                    );
                                    let got = out.at(row, col);
                                    for c in 0..rank_out + 1 {
                                        for j in 0..size {
                                            assert_eq!(
                                                got.data().at(c, j),
                                                cell.data().at(c, j),
                                                "{tag}: cell(row={row},col={col}) != standard glwe_encrypt_sk at col {c} limb {j}"
                                            );
                                        }
                                    }
                                }
                            }
                        }
                    }
                }
                bytes
            }

            // ------------------------------------------------------------------------------------------------
            // GGSW
            // ------------------------------------------------------------------------------------------------
            pub fn ggsw_want_phases(
                module: &Module<BE>,
                base2k: usize,
                size: usize,
                dnum: usize,
                dsize: usize,
                pt: &[i64],
                s: &[Vec<i64>],
                ni: NoiseInfos,
                xe: &mut Source,
            ) -> Vec<Vec<Vec<u128>>> {
                // [row][col]
                let k = size * base2k;
                let mut out = Vec::new();
                for row in 0..dnum {
                    let m = scale_pt(pt, k - (row + 1) * dsize * base2k);
                    let mut cols = Vec::new();
                    for col in 0..s.len() + 1 {
                        let e = next_err(module, base2k, size, ni, xe);
                        let term = if col == 0 { m.clone() } else { negacyclic(&m, &s[col - 1]) };
                        cols.push(add(&term, &e));
                    }
                    out.push(cols);
                }
                out
            }

            pub fn ggsw_case(
                n: usize,
                base2k: usize,
                k: usize,
                k_noise: usize,
                rank: usize,
                dnum: usize,
                dsize: usize,
                seed: [u8; 32],
                pt_kind: usize,
            ) -> Vec<u8> {
                let tag = format!("ggsw n={n} b={base2k} k={k} rank={rank} dnum={dnum} dsize={dsize} pt_kind={pt_kind}");
                let module: Module<BE> = Module::<BE>::new(n as u64);
                let size = k.div_ceil(base2k);
                let ni = noise(k_noise);
                let (sk, s) = make_sk(n, rank, [7u8; 32]);
                let skp = prepare(&module, &sk);

                let mut pt = ScalarZnx::alloc(n, 1);
                match pt_kind {
                    0 => pt.fill_ternary_prob(0, 0.5, &mut Source::new([5u8; 32])),
                    1 => pt.at_mut(0, 0)[0] = 1,
                    2 => {}
                    _ => {
                        for (i, x) in pt.at_mut(0, 0).iter_mut().enumerate() {
                            *x = (1i64 << base2k) + 5 * i as i64 - 7;
                        }
                    }
                }
                let ptv: Vec<i64> = pt.at(0, 0).to_vec();

                let alloc_c = || {
                    GGSWCompressed::alloc(
                        Degree(n as u32),
                        Base2K(base2k as u32),
                        TorusPrecision(k as u32),
                        Rank(rank as u32),
                        Dnum(dnum as u32),
                        Dsize(dsize as u32),
                    )
                };
                let alloc_s = |dn: usize| {
                    GGSW::alloc(
                        Degree(n as u32),
                        Base2K(base2k as u32),
                        TorusPrecision(k as u32),
                        Rank(rank as u32),
                        Dnum(dn as u32),
                        Dsize(dsize as u32),
                    )
                };
                let mut ct = alloc_c();
                ct.fill_uniform(base2k, &mut Source::new([9u8; 32]));
                let xe_seed = [11u8; 32];
                let mut sc = scratch(module.ggsw_compressed_encrypt_sk_tmp_bytes(&ct), 0xA5);
                module.ggsw_compressed_encrypt_sk(&mut ct, &pt, &skp, seed, &ni, &mut Source::new(xe_seed), sc.borrow());

                let want = ggsw_want_phases(&module, base2k, size, dnum, dsize, &ptv, &s, ni, &mut Source::new(xe_seed));

                let mut std = alloc_s(dnum);
                let mut sc2 = scratch(module.ggsw_encrypt_sk_tmp_bytes(&std), 0x5A);
                module.ggsw_encrypt_sk(
                    &mut std,
                    &pt,
                    &skp,
                    &ni,
                    &mut Source::new(xe_seed),
                    &mut Source::new([77u8; 32]),
                    sc2.borrow(),
                );
                for row in 0..dnum {
                    for col in 0..rank + 1 {
                        check_phase(&format!("{tag} cell({row},{col})"), &std.at(row, col), &s, &want[row][col]);
                    }
                }

                let seeds: Vec<[u8; 32]> = ct.seed().clone();
                assert_eq!(seeds.len(), dnum * (rank + 1), "{tag}");
                assert_seeds_distinct(&tag, &seeds);

                let bytes = bytes_of(&ct);
                let mut ct2 = alloc_c();
                ct2.fill_uniform(base2k, &mut Source::new([10u8; 32]));
                ct2.read_from(&mut &bytes[..]).unwrap();
                assert!(ct == ct2, "{tag}: serialisation round trip");

                for src in [&ct, &ct2] {
                    for dn in (1..=dnum).rev() {
                        let mut out = alloc_s(dn);
                        out.fill_uniform(base2k, &mut Source::new([12u8; 32]));
                        module.decompress_ggsw(&mut out, src);
                        for row in 0..dn {
                            for col in 0..rank + 1 {
                                check_cell(
                                    &format!("{tag} res.dnum={dn} cell({row},{col})"),
                                    &out.at(row, col),
                                    seeds[row * (rank + 1) + col],
                                    &s,
                                    &want[row][col],
                                );
                            }
                        }
                        // first cell: the standard routine seeded with the first cell seed must agree bit for bit
                        if dn == dnum {
                            let mut std0 = alloc_s(dnum);
                            module.ggsw_encrypt_sk(
                                &mut std0,
                                &pt,
                                &skp,
                                &ni,
                                &mut Source::new(xe_seed),
                                &mut Source::new(seeds[0]),
                                sc2.borrow(),
                            );
                            assert!(std0.at(0, 0) == out.at(0, 0), "{tag}: first cell != standard ggsw_encrypt_sk");
                        }
                    }
                }
                bytes
            }

            // ------------------------------------------------------------------------------------------------
            // Keys
            // ------------------------------------------------------------------------------------------------
            fn switch_ring_up(a: &[i64], n: usize) -> Vec<i64> {
                let gap = n / a.len();
                let mut out = vec![0i64; n];
                for (i, x) in a.iter().enumerate() {
                    out[i * gap] = *x;
                }
                out
            }

            pub fn swk_case(
                n: usize,
                n_in: usize,
                n_out: usize,
                base2k: usize,
                k: usize,
                rank_in: usize,
                rank_out: usize,
                dnum: usize,
                dsize: usize,
                seed: [u8; 32],
            ) -> Vec<u8> {
                let tag = format!(
                    "swk n={n} n_in={n_in} n_out={n_out} b={base2k} k={k} rin={rank_in} rout={rank_out} dnum={dnum} dsize={dsize}"
                );
                let module: Module<BE> = Module::<BE>::new(n as u64);
                let size = k.div_ceil(base2k);
                let ni = noise(k);
                let (sk_in, s_in) = make_sk(n_in, rank_in, [6u8; 32]);
                let (sk_out, s_out) = make_sk(n_out, rank_out, [7u8; 32]);
                let s_in: Vec<Vec<i64>> = s_in.iter().map(|x| switch_ring_up(x, n)).collect();
                let s_out: Vec<Vec<i64>> = s_out.iter().map(|x| switch_ring_up(x, n)).collect();

                let alloc_c = || {
                    GLWESwitchingKeyCompressed::alloc(
                        Degree(n as u32),
                        Base2K(base2k as u32),
                        TorusPrecision(k as u32),
                        Rank(rank_in as u32),
                        Rank(rank_out as u32),
                        Dnum(dnum as u32),
                        Dsize(dsize as u32),
                    )
                };
                let alloc_s = || {
                    GLWESwitchingKey::alloc(
                        Degree(n as u32),
                        Base2K(base2k as u32),
                        TorusPrecision(k as u32),
                        Rank(rank_in as u32),
                        Rank(rank_out as u32),
                        Dnum(dnum as u32),
                        Dsize(dsize as u32),
                    )
                };
                let mut ct = alloc_c();
                ct.fill_uniform(base2k, &mut Source::new([9u8; 32]));
                let xe_seed = [11u8; 32];
                let mut sc = scratch(module.glwe_switching_key_compressed_encrypt_sk_tmp_bytes(&ct), 0xA5);
                module.glwe_switching_key_compressed_encrypt_sk(
                    &mut ct,
                    &sk_in,
                    &sk_out,
                    seed,
                    &ni,
                    &mut Source::new(xe_seed),
                    sc.borrow(),
                );
                let want = gglwe_want_phases(&module, base2k, size, dnum, dsize, &s_in, ni, &mut Source::new(xe_seed));

                let mut std = alloc_s();
                let mut sc2 = scratch(module.glwe_switching_key_encrypt_sk_tmp_bytes(&std), 0x5A);
                module.glwe_switching_key_encrypt_sk(
                    &mut std,
                    &sk_in,
                    &sk_out,
                    &ni,
                    &mut Source::new(xe_seed),
                    &mut Source::new([77u8; 32]),
                    sc2.borrow(),
                );
                check_gglwe_standard(&tag, &std.to_ref(), &s_out, &want);

                let seeds: Vec<[u8; 32]> = ct.to_ref().seed().clone();
                assert_seeds_distinct(&tag, &seeds);

                let bytes = bytes_of(&ct);
                let mut ct2 = alloc_c();
                ct2.fill_uniform(base2k, &mut Source::new([10u8; 32]));
                ct2.read_from(&mut &bytes[..]).unwrap();
                assert!(ct == ct2, "{tag}: serialisation round trip");

                for src in [&ct, &ct2] {
                    let mut out = alloc_s();
                    out.fill_uniform(base2k, &mut Source::new([12u8; 32]));
                    module.decompress_glwe_switching_key(&mut out, src);
                    check_gglwe_decompressed(&tag, &out.to_ref(), &seeds, rank_in, &s_out, &want);
                    use poulpy_core::layouts::GLWESwitchingKeyDegrees;
                    assert_eq!(out.input_degree().as_usize(), n_in, "{tag}");
                    assert_eq!(out.output_degree().as_usize(), n_out, "{tag}");
                }
                bytes
            }

            pub fn atk_case(n: usize, base2k: usize, k: usize, rank: usize, dnum: usize, dsize: usize, p: i64, seed: [u8; 32]) -> Vec<u8> {
                let tag = format!("atk n={n} b={base2k} k={k} rank={rank} dnum={dnum} dsize={dsize} p={p}");
                let module: Module<BE> = Module::<BE>::new(n as u64);
                let size = k.div_ceil(base2k);
                let ni = noise(k);
                let (sk, s) = make_sk(n, rank, [7u8; 32]);
                let g_inv = module.galois_element_inv(p);
                let s_out: Vec<Vec<i64>> = s.iter().map(|x| automorphism(x, g_inv)).collect();

                let alloc_c = || {
                    GLWEAutomorphismKeyCompressed::alloc(
                        Degree(n as u32),
                        Base2K(base2k as u32),
                        TorusPrecision(k as u32),
                        Rank(rank as u32),
                        Dnum(dnum as u32),
                        Dsize(dsize as u32),
                    )
                };
                let alloc_s = || {
                    GLWEAutomorphismKey::alloc(
                        Degree(n as u32),
                        Base2K(base2k as u32),
                        TorusPrecision(k as u32),
                        Rank(rank as u32),
                        Dnum(dnum as u32),
                        Dsize(dsize as u32),
                    )
                };
                let mut ct = alloc_c();
                ct.fill_uniform(base2k, &mut Source::new([9u8; 32]));
                let xe_seed = [11u8; 32];
                let mut sc = scratch(module.glwe_automorphism_key_compressed_encrypt_sk_tmp_bytes(&ct), 0xA5);
                module.glwe_automorphism_key_compressed_encrypt_sk(
                    &mut ct,
                    p,
                    &sk,
                    seed,
                    &ni,
                    &mut Source::new(xe_seed),
                    sc.borrow(),
                );
                let want = gglwe_want_phases(&module, base2k, size, dnum, dsize, &s, ni, &mut Source::new(xe_seed));

                let mut std = alloc_s();
                let mut sc2 = scratch(module.glwe_automorphism_key_encrypt_sk_tmp_bytes(&std), 0x5A);
                module.glwe_automorphism_key_encrypt_sk(
                    &mut std,
                    p,
                    &sk,
                    &ni,
                    &mut Source::new(xe_seed),
                    &mut Source::new([77u8; 32]),
                    sc2.borrow(),
                );
                check_gglwe_standard(&tag, &std.to_ref(), &s_out, &want);

                let seeds: Vec<[u8; 32]> = ct.to_ref().seed().clone();
                assert_seeds_distinct(&tag, &seeds);

                let bytes = bytes_of(&ct);
                let mut ct2 = alloc_c();
                ct2.fill_uniform(base2k, &mut Source::new([10u8; 32]));
                ct2.read_from(&mut &bytes[..]).unwrap();
                assert!(ct == ct2, "{tag}: serialisation round trip");

                for src in [&ct, &ct2] {
                    let mut out = alloc_s();
                    out.fill_uniform(base2k, &mut Source::new([12u8; 32]));
                    module.decompress_automorphism_key(&mut out, src);
                    check_gglwe_decompressed(&tag, &out.to_ref(), &seeds, rank, &s_out, &want);
                    assert_eq!(out.p(), p, "{tag}");
                }
                bytes
            }

            fn tensor_pairs(s: &[Vec<i64>]) -> Vec<Vec<i64>> {
                let mut out = Vec::new();
                for i in 0..s.len() {
                    for j in i..s.len() {
                        out.push(negacyclic_i64(&s[i], &s[j]));
                    }
                }
                out
            }

            pub fn tsk_case(n: usize, base2k: usize, k: usize, rank: usize, dnum: usize, dsize: usize, seed: [u8; 32]) -> Vec<u8> {
                let tag = format!("tsk n={n} b={base2k} k={k} rank={rank} dnum={dnum} dsize={dsize}");
                let module: Module<BE> = Module::<BE>::new(n as u64);
                let size = k.div_ceil(base2k);
                let ni = noise(k);
                let (sk, s) = make_sk(n, rank, [7u8; 32]);
                let pt = tensor_pairs(&s);

                let alloc_c = || {
                    GLWETensorKeyCompressed::alloc(
                        Degree(n as u32),
                        Base2K(base2k as u32),
                        TorusPrecision(k as u32),
                        Rank(rank as u32),
                        Dnum(dnum as u32),
                        Dsize(dsize as u32),
                    )
                };
                let alloc_s = || {
                    GLWETensorKey::alloc(
                        Degree(n as u32),
                        Base2K(base2k as u32),
                        TorusPrecision(k as u32),
                        Rank(rank as u32),
                        Dnum(dnum as u32),
                        Dsize(dsize as u32),
                    )
                };
                let mut ct = alloc_c();
                ct.fill_uniform(base2k, &mut Source::new([9u8; 32]));
                assert_eq!(ct.rank_in().as_usize(), pt.len(), "{tag}");
                let xe_seed = [11u8; 32];
                let mut sc = scratch(module.glwe_tensor_key_compressed_encrypt_sk_tmp_bytes(&ct), 0xA5);
                module.glwe_tensor_key_compressed_encrypt_sk(&mut ct, &sk, seed, &ni, &mut Source::new(xe_seed), sc.borrow());
                let want = gglwe_want_phases(&module, base2k, size, dnum, dsize, &pt, ni, &mut Source::new(xe_seed));

                let mut std = alloc_s();
                let mut sc2 = scratch(module.glwe_tensor_key_encrypt_sk_tmp_bytes(&std), 0x5A);
                module.glwe_tensor_key_encrypt_sk(
                    &mut std,
                    &sk,
                    &ni,
                    &mut Source::new(xe_seed),
                    &mut Source::new([77u8; 32]),
                    sc2.borrow(),
                );
                check_gglwe_standard(&tag, &std.to_ref(), &s, &want);

                let seeds: Vec<[u8; 32]> = ct.to_ref().seed().clone();
                assert_seeds_distinct(&tag, &seeds);

                let bytes = bytes_of(&ct);
                let mut ct2 = alloc_c();
                ct2.fill_uniform(base2k, &mut Source::new([10u8; 32]));
                ct2.read_from(&mut &bytes[..]).unwrap();
                assert!(ct == ct2, "{tag}: serialisation round trip");

                for src in [&ct, &ct2] {
                    let mut out = alloc_s();
                    out.fill_uniform(base2k, &mut Source::new([12u8; 32]));
                    module.decompress_tensor_key(&mut out, src);
                    check_gglwe_decompressed(&tag, &out.to_ref(), &seeds, pt.len(), &s, &want);
                }
                bytes
            }

            pub fn g2g_case(n: usize, base2k: usize, k: usize, rank: usize, dnum: usize, dsize: usize, seed: [u8; 32]) -> Vec<u8> {
                let tag = format!("gglwe_to_ggsw n={n} b={base2k} k={k} rank={rank} dnum={dnum} dsize={dsize}");
                let module: Module<BE> = Module::<BE>::new(n as u64);
                let size = k.div_ceil(base2k);
                let ni = noise(k);
                let (sk, s) = make_sk(n, rank, [7u8; 32]);

                let alloc_c = || {
                    GGLWEToGGSWKeyCompressed::alloc(
                        Degree(n as u32),
                        Base2K(base2k as u32),
                        TorusPrecision(k as u32),
                        Rank(rank as u32),
                        Dnum(dnum as u32),
                        Dsize(dsize as u32),
                    )
                };
                let alloc_s = || {
                    GGLWEToGGSWKey::alloc(
                        Degree(n as u32),
                        Base2K(base2k as u32),
                        TorusPrecision(k as u32),
                        Rank(rank as u32),
                        Dnum(dnum as u32),
                        Dsize(dsize as u32),
                    )
                };
                let mut ct = alloc_c();
                ct.fill_uniform(base2k, &mut Source::new([9u8; 32]));
                let xe_seed = [11u8; 32];
                let mut sc = scratch(
                    GGLWEToGGSWKeyCompressedEncryptSk::gglwe_to_ggsw_key_encrypt_sk_tmp_bytes(&module, &ct),
                    0xA5,
                );
                GGLWEToGGSWKeyCompressedEncryptSk::gglwe_to_ggsw_key_encrypt_sk(
                    &module,
                    &mut ct,
                    &sk,
                    seed,
                    &ni,
                    &mut Source::new(xe_seed),
                    sc.borrow(),
                );

                let mut xe = Source::new(xe_seed);
                let mut want = Vec::new();
                for i in 0..rank {
                    let pt: Vec<Vec<i64>> = (0..rank).map(|j| negacyclic_i64(&s[i], &s[j])).collect();
                    want.push(gglwe_want_phases(&module, base2k, size, dnum, dsize, &pt, ni, &mut xe));
                }

                let mut std = alloc_s();
                let mut sc2 = scratch(
                    GGLWEToGGSWKeyEncryptSk::gglwe_to_ggsw_key_encrypt_sk_tmp_bytes(&module, &std),
                    0x5A,
                );
                GGLWEToGGSWKeyEncryptSk::gglwe_to_ggsw_key_encrypt_sk(
                    &module,
                    &mut std,
                    &sk,
                    &ni,
                    &mut Source::new(xe_seed),
                    &mut Source::new([77u8; 32]),
                    sc2.borrow(),
                );
                for i in 0..rank {
                    check_gglwe_standard(&format!("{tag} key {i}"), &std.at(i).to_ref(), &s, &want[i]);
                }

                let mut all_seeds: Vec<[u8; 32]> = Vec::new();
                for i in 0..rank {
                    all_seeds.extend_from_slice(ct.at(i).seed());
                }
                assert_eq!(all_seeds.len(), rank * rank * dnum, "{tag}");
                assert_seeds_distinct(&tag, &all_seeds);

                let bytes = bytes_of(&ct);
                let mut ct2 = alloc_c();
                ct2.fill_uniform(base2k, &mut Source::new([10u8; 32]));
                ct2.read_from(&mut &bytes[..]).unwrap();
                assert!(ct == ct2, "{tag}: serialisation round trip");

                for src in [&ct, &ct2] {
                    let mut out = alloc_s();
                    out.fill_uniform(base2k, &mut Source::new([12u8; 32]));
                    module.decompress_gglwe_to_ggsw_key(&mut out, src);
                    for i in 0..rank {
                        check_gglwe_decompressed(
                            &format!("{tag} key {i}"),
                            &out.at(i).to_ref(),
                            src.at(i).seed(),
                            rank,
                            &s,
                            &want[i],
                        );
                    }
                }
                bytes
            }

            pub fn seeds() -> Vec<[u8; 32]> {
                let mut s3 = [0u8; 32];
                for (i, x) in s3.iter_mut().enumerate() {
                    *x = (i * 37 + 1) as u8;
                }
                vec![[0u8; 32], [0xFFu8; 32], s3]
            }

            /// (base2k, k) pairs with K = ceil(k/base2k)*base2k <= 120
            pub fn radices() -> Vec<(usize, usize)> {
                vec![(4, 16), (7, 27), (12, 48), (17, 69), (19, 95)]
            }

            pub fn run_glwe() -> Vec<Vec<u8>> {
                let mut out = Vec::new();
                for n in [8usize, 32] {
                    for (base2k, k) in [(5usize, 5usize), (5, 13), (12, 48), (17, 69), (19, 95), (30, 60), (30, 91)] {
                        for rank in 1..=3 {
                            let size = k.div_ceil(base2k);
                            for k_pt in [base2k, k, (size + 2) * base2k] {
                                for k_noise in [k, size * base2k, base2k.max(k / 2)] {
                                    for (si, seed) in seeds().into_iter().enumerate() {
                                        if si > 0 && n == 32 {
                                            continue;
                                        }
                                        out.push(glwe_case(n, base2k, k, k_pt, k_noise, rank, seed, 0));
                                    }
                                }
                            }
                        }
                    }
                }
                // non exact scratch (larger)
                out.push(glwe_case(16, 12, 40, 24, 40, 2, [42u8; 32], 4096));
                out
            }

            pub fn grid(size: usize) -> Vec<(usize, usize)> {
                // (dnum, dsize) with dnum*dsize <= size and dsize < size
                let mut v = Vec::new();
                for dsize in 1..=3usize {
                    if dsize >= size {
                        continue;
                    }
                    for dnum in 1..=size / dsize {
                        v.push((dnum, dsize));
                    }
                }
                v
            }

            pub fn run_gglwe() -> Vec<Vec<u8>> {
                let mut out = Vec::new();
                for (base2k, k) in radices() {
                    let size = k.div_ceil(base2k);
                    for (dnum, dsize) in grid(size) {
                        for rank_in in 1..=3 {
                            for rank_out in 1..=3 {
                                let seed = seeds()[(dnum + dsize + rank_in + rank_out) % 3];
                                out.push(gglwe_case(8, base2k, k, k, rank_in, rank_out, dnum, dsize, seed, false));
                            }
                        }
                    }
                }
                for big in [false, true] {
                    out.push(gglwe_case(16, 6, 36, 30, 2, 2, 3, 2, [1u8; 32], big));
                    out.push(gglwe_case(16, 13, 52, 52, 3, 1, 2, 2, [1u8; 32], big));
                    out.push(gglwe_case(32, 11, 55, 50, 1, 3, 1, 3, [1u8; 32], big));
                }
                out
            }

            pub fn run_ggsw() -> Vec<Vec<u8>> {
                let mut out = Vec::new();
                for (base2k, k) in radices() {
                    let size = k.div_ceil(base2k);
                    for (dnum, dsize) in grid(size) {
                        for rank in 1..=3 {
                            let seed = seeds()[(dnum + dsize + rank) % 3];
                            out.push(ggsw_case(8, base2k, k, k, rank, dnum, dsize, seed, (dnum + rank) % 4));
                        }
                    }
                }
                for kind in 0..4 {
                    out.push(ggsw_case(16, 6, 36, 30, 2, 3, 2, [1u8; 32], kind));
                    out.push(ggsw_case(32, 11, 55, 50, 3, 1, 3, [1u8; 32], kind));
                }
                out
            }

            pub fn run_keys() -> Vec<Vec<u8>> {
                let mut out = Vec::new();
                for (base2k, k) in [(7usize, 27usize), (12, 48), (17, 69)] {
                    let size = k.div_ceil(base2k);
                    for (dnum, dsize) in grid(size) {
                        for rank in 1..=3 {
                            let seed = seeds()[(dnum + dsize + rank) % 3];
                            for p in [-5i64, 3, -1, 1, 7] {
                                out.push(atk_case(8, base2k, k, rank, dnum, dsize, p, seed));
                            }
                            out.push(tsk_case(8, base2k, k, rank, dnum, dsize, seed));
                            out.push(g2g_case(8, base2k, k, rank, dnum, dsize, seed));
                            for rank_in in 1..=3 {
                                out.push(swk_case(8, 8, 8, base2k, k, rank_in, rank, dnum, dsize, seed));
                            }
                        }
                    }
                }
                // secrets living in smaller rings
                out.push(swk_case(16, 8, 16, 12, 48, 2, 2, 2, 2, [3u8; 32]));
                out.push(swk_case(16, 16, 4, 12, 48, 1, 3, 3, 1, [3u8; 32]));
                out.push(swk_case(16, 2, 8, 12, 48, 3, 1, 1, 3, [3u8; 32]));
                out.push(atk_case(32, 10, 50, 2, 2, 2, 5 * 5 * 5, [3u8; 32]));
                out.push(tsk_case(32, 10, 50, 3, 2, 2, [3u8; 32]));
                out.push(g2g_case(32, 10, 50, 3, 2, 2, [3u8; 32]));
                out
            }

            #[test]
            fn glwe() {
                run_glwe();
            }
            #[test]
            fn gglwe() {
                run_gglwe();
            }
            #[test]
            fn ggsw() {
                run_ggsw();
            }
            #[test]
            fn keys() {
                run_keys();
            }
        }
    };
}

c19_backend!(fft64, poulpy_cpu_ref::FFT64Ref);
c19_backend!(ntt120, poulpy_cpu_ref::NTT120Ref);

#[test]
fn cross_backend_glwe() {
    assert!(fft64::run_glwe() == ntt120::run_glwe());
}
#[test]
fn cross_backend_gglwe() {
    assert!(fft64::run_gglwe() == ntt120::run_gglwe());
}
#[test]
fn cross_backend_ggsw() {
    assert!(fft64::run_ggsw() == ntt120::run_ggsw());
}
#[test]
fn cross_backend_keys() {
    assert!(fft64::run_keys() == ntt120::run_keys());
}

mod ntt120_large_radix {
    use super::ntt120::*;
    #[test]
    fn large_radix() {
        for (base2k, k) in [(40usize, 120usize), (50, 100), (52, 104), (58, 116)] {
            let size = k.div_ceil(base2k);
            for rank in 1..=3 {
                glwe_case(8, base2k, k, k, k, rank, [4u8; 32], 0);
                glwe_case(16, base2k, k, base2k, k - 3, rank, [4u8; 32], 0);
                for (dnum, dsize) in grid(size) {
                    gglwe_case(8, base2k, k, k, rank, 4 - rank, dnum, dsize, [4u8; 32], false);
                    ggsw_case(8, base2k, k, k, rank, dnum, dsize, [4u8; 32], rank % 4);
                    atk_case(8, base2k, k, rank, dnum, dsize, -5, [4u8; 32]);
                    tsk_case(8, base2k, k, rank, dnum, dsize, [4u8; 32]);
                    g2g_case(8, base2k, k, rank, dnum, dsize, [4u8; 32]);
                    swk_case(8, 4, 8, base2k, k, rank, 4 - rank, dnum, dsize, [4u8; 32]);
                }
            }
        }
    }
}

#[test]
fn larger_n() {
    for n in [64usize, 256] {
        let a = (
            fft64::glwe_case(n, 14, 56, 30, 50, 2, [4u8; 32], 0),
            fft64::gglwe_case(n, 14, 56, 56, 2, 3, 2, 2, [4u8; 32], false),
            fft64::ggsw_case(n, 14, 56, 56, 2, 2, 2, [4u8; 32], 0),
            fft64::atk_case(n, 14, 56, 2, 2, 2, -5, [4u8; 32]),
            fft64::tsk_case(n, 14, 56, 2, 2, 2, [4u8; 32]),
            fft64::g2g_case(n, 14, 56, 2, 2, 2, [4u8; 32]),
            fft64::swk_case(n, n / 2, n, 14, 56, 2, 1, 2, 2, [4u8; 32]),
        );
        let b = (
            ntt120::glwe_case(n, 14, 56, 30, 50, 2, [4u8; 32], 0),
            ntt120::gglwe_case(n, 14, 56, 56, 2, 3, 2, 2, [4u8; 32], false),
            ntt120::ggsw_case(n, 14, 56, 56, 2, 2, 2, [4u8; 32], 0),
            ntt120::atk_case(n, 14, 56, 2, 2, 2, -5, [4u8; 32]),
            ntt120::tsk_case(n, 14, 56, 2, 2, 2, [4u8; 32]),
            ntt120::g2g_case(n, 14, 56, 2, 2, 2, [4u8; 32]),
            ntt120::swk_case(n, n / 2, n, 14, 56, 2, 1, 2, 2, [4u8; 32]),
        );
        assert!(a == b, "cross backend n={n}");
    }
}

#[test]
fn tiny_rings_and_low_noise_limb() {
    for n in [2usize, 4] {
        let a = (
            fft64::glwe_case(n, 12, 48, 24, 5, 2, [4u8; 32], 0),
            fft64::gglwe_case(n, 12, 48, 7, 2, 3, 2, 2, [4u8; 32], false),
            fft64::ggsw_case(n, 12, 48, 12, 2, 2, 2, [4u8; 32], 0),
            fft64::atk_case(n, 12, 48, 2, 2, 2, 3, [4u8; 32]),
            fft64::tsk_case(n, 12, 48, 3, 4, 1, [4u8; 32]),
            fft64::g2g_case(n, 12, 48, 3, 1, 3, [4u8; 32]),
        );
        let b = (
            ntt120::glwe_case(n, 12, 48, 24, 5, 2, [4u8; 32], 0),
            ntt120::gglwe_case(n, 12, 48, 7, 2, 3, 2, 2, [4u8; 32], false),
            ntt120::ggsw_case(n, 12, 48, 12, 2, 2, 2, [4u8; 32], 0),
            ntt120::atk_case(n, 12, 48, 2, 2, 2, 3, [4u8; 32]),
            ntt120::tsk_case(n, 12, 48, 3, 4, 1, [4u8; 32]),
            ntt120::g2g_case(n, 12, 48, 3, 1, 3, [4u8; 32]),
        );
        assert!(a == b, "cross backend n={n}");
    }
}
