//! C19 for the seed-compressed blind rotation key (CGGI): every GGSW cell must match the exact model
//! (mask from ChaCha8(seed_cell), replayed error stream, plaintext = LWE secret bit).
//! `BlindRotationKeyCompressed` exposes neither its GGSWs nor a decompression routine: the cells are recovered by
//! parsing the serialised form.
#![allow(clippy::too_many_arguments, clippy::needless_range_loop, dead_code)]

use poulpy_hal::{
    layouts::{DataRef, NoiseInfos, VecZnx, ZnxInfos, ZnxView},
    source::Source,
};

pub const SIGMA: f64 = 3.2;
pub const BOUND: f64 = 6.0 * SIGMA;

pub fn mask_bits(k: usize) -> u128 {
    if k >= 128 { u128::MAX } else { (1u128 << k) - 1 }
}

/// Value mod 2^K of column `col` of `v` (limbs beyond `size_k` are ignored, missing limbs are zero).
pub fn col_val<D: DataRef>(v: &VecZnx<D>, col: usize, base2k: usize, size_k: usize) -> Vec<u128> {
    let k = size_k * base2k;
    assert!(k <= 120);
    let n = v.n();
    let mut out = vec![0u128; n];
    for j in 0..v.size().min(size_k) {
        let shift = (k - (j + 1) * base2k) as u32;
        let limb = v.at(col, j);
        for i in 0..n {
            out[i] = out[i].wrapping_add((limb[i] as i128 as u128).wrapping_shl(shift));
        }
    }
    out
}

pub fn negacyclic(a: &[u128], s: &[i64]) -> Vec<u128> {
    let n = a.len();
    assert_eq!(s.len(), n);
    let mut out = vec![0u128; n];
    for i in 0..n {
        for j in 0..n {
            let p = a[i].wrapping_mul(s[j] as i128 as u128);
            if i + j < n {
                out[i + j] = out[i + j].wrapping_add(p);
            } else {
                out[i + j - n] = out[i + j - n].wrapping_sub(p);
            }
        }
    }
    out
}

pub fn add(a: &[u128], b: &[u128]) -> Vec<u128> {
    a.iter().zip(b).map(|(x, y)| x.wrapping_add(*y)).collect()
}
pub fn sub(a: &[u128], b: &[u128]) -> Vec<u128> {
    a.iter().zip(b).map(|(x, y)| x.wrapping_sub(*y)).collect()
}

/// Balanced digits (as produced by the library normalisation) of `v` mod 2^(size*base2k): [limb][coeff].
pub fn canon_limbs(v: &[u128], base2k: usize, size: usize) -> Vec<Vec<i64>> {
    let k = size * base2k;
    let mut out = vec![vec![0i64; v.len()]; size];
    for (i, &vi) in v.iter().enumerate() {
        let mut x: i128 = (vi & mask_bits(k)) as i128;
        for j in (0..size).rev() {
            let low: i128 = x & ((1i128 << base2k) - 1);
            let d: i128 = if low >= (1i128 << (base2k - 1)) { low - (1i128 << base2k) } else { low };
            out[j][i] = d as i64;
            x = (x - d) >> base2k;
        }
    }
    out
}

/// Independent regeneration of the mask: [col-1][limb][coeff].
pub fn mask_oracle(seed: [u8; 32], n: usize, rank: usize, size: usize, base2k: usize) -> Vec<Vec<Vec<i64>>> {
    use rand_core_shim::next_u64;
    let mut src = Source::new(seed);
    let pow2k: u64 = 1u64 << base2k;
    let mask: u64 = pow2k - 1;
    let half: i64 = (pow2k >> 1) as i64;
    let mut out = Vec::new();
    for _ in 0..rank {
        let mut col = Vec::new();
        for _ in 0..size {
            let mut limb = vec![0i64; n];
            for x in limb.iter_mut() {
                let mut r = next_u64(&mut src) & mask;
                while r >= pow2k {
                    r = next_u64(&mut src) & mask;
                }
                *x = r as i64 - half;
            }
            col.push(limb);
        }
        out.push(col);
    }
    out
}

mod rand_core_shim {
    use poulpy_hal::source::Source;
    // `Source::next_u64n(max, mask)` draws one u64 per iteration: with max = 2^b and mask = 2^b - 1 it never rejects,
    // so one call == one raw u64 draw masked to b bits.
    pub fn next_u64(src: &mut Source) -> u64 {
        src.next_u64n(u64::MAX, u64::MAX)
    }
}

pub fn noise(k: usize) -> NoiseInfos {
    NoiseInfos::new(k, SIGMA, BOUND).unwrap()
}

pub fn scale_pt(p: &[i64], shift: usize) -> Vec<u128> {
    p.iter().map(|&c| (c as i128 as u128).wrapping_shl(shift as u32)).collect()
}

/// X^i -> X^(i*g) on Z[X]/(X^n+1).
pub fn automorphism(a: &[i64], g: i64) -> Vec<i64> {
    let n = a.len() as i64;
    let two_n = 2 * n;
    let g = g.rem_euclid(two_n);
    let mut out = vec![0i64; a.len()];
    for i in 0..n {
        let e = (i * g).rem_euclid(two_n);
        if e < n {
            out[e as usize] += a[i as usize];
        } else {
            out[(e - n) as usize] -= a[i as usize];
        }
    }
    out
}

pub fn negacyclic_i64(a: &[i64], b: &[i64]) -> Vec<i64> {
    let n = a.len();
    let mut out = vec![0i64; n];
    for i in 0..n {
        for j in 0..n {
            if i + j < n {
                out[i + j] += a[i] * b[j];
            } else {
                out[i + j - n] -= a[i] * b[j];
            }
        }
    }
    out
}


macro_rules! brk_backend {
    ($modname:ident, $BE:ty) => {
        pub mod $modname {
            use super::*;
            use poulpy_bin_fhe::blind_rotation::{
                BlindRotationKey, BlindRotationKeyCompressed, BlindRotationKeyCompressedEncryptSk, BlindRotationKeyEncryptSk,
                BlindRotationKeyLayout, CGGI,
            };
            use poulpy_core::{
                Distribution,
                layouts::{
                    Base2K, Degree, Dnum, Dsize, GGSW, GLWE, GLWEInfos, GLWESecret, GLWESecretPreparedFactory, LWEInfos,
                    LWESecret, Rank, TorusPrecision,
                    compressed::{GGSWCompressed, GGSWCompressedSeed, GGSWDecompress},
                },
            };
            use poulpy_hal::{
                api::{ModuleNew, ScratchOwnedAlloc, ScratchOwnedBorrow, VecZnxAddNormal},
                layouts::{FillUniform, Module, ReaderFrom, ScalarZnx, ScratchOwned, WriterTo},
            };
            use std::io::Read;

            pub type BE = $BE;

            fn scratch(bytes: usize, dirty: u8) -> ScratchOwned<BE> {
                let mut s: ScratchOwned<BE> = ScratchOwned::alloc(bytes);
                s.data.as_mut().iter_mut().for_each(|b| *b = dirty);
                s
            }

            fn next_err(module: &Module<BE>, base2k: usize, size: usize, ni: NoiseInfos, src: &mut Source) -> Vec<u128> {
                let mut v = VecZnx::alloc(module.n(), 1, size);
                module.vec_znx_add_normal(base2k, &mut v, 0, ni, src);
                col_val(&v, 0, base2k, size)
            }

            fn phase(cell: &GLWE<&[u8]>, s: &[Vec<i64>]) -> Vec<u128> {
                let base2k = cell.base2k().as_usize();
                let size = cell.size();
                let mut ph = col_val(cell.data(), 0, base2k, size);
                for i in 0..cell.rank().as_usize() {
                    ph = add(&ph, &negacyclic(&col_val(cell.data(), i + 1, base2k, size), &s[i]));
                }
                ph
            }

            fn check_cell(tag: &str, cell: &GLWE<&[u8]>, seed: [u8; 32], s: &[Vec<i64>], want_phase: &[u128]) {
                let base2k = cell.base2k().as_usize();
                let size = cell.size();
                let rank = cell.rank().as_usize();
                let n = cell.n().as_usize();
                let mask = mask_oracle(seed, n, rank, size, base2k);
                let mut body = want_phase.to_vec();
                for c in 0..rank {
                    for j in 0..size {
                        assert_eq!(cell.data().at(c + 1, j), &mask[c][j][..], "{tag}: mask col {} limb {j}", c + 1);
                    }
                    body = sub(&body, &negacyclic(&col_val(cell.data(), c + 1, base2k, size), &s[c]));
                }
                let want = canon_limbs(&body, base2k, size);
                for j in 0..size {
                    assert_eq!(cell.data().at(0, j), &want[j][..], "{tag}: body limb {j}");
                }
            }

            pub fn brk_case(
                n: usize,
                n_lwe: usize,
                base2k: usize,
                k: usize,
                rank: usize,
                dnum: usize,
                lwe_kind: usize,
                seed: [u8; 32],
            ) -> Vec<u8> {
                let tag = format!("brk n={n} n_lwe={n_lwe} b={base2k} k={k} rank={rank} dnum={dnum} lwe_kind={lwe_kind}");
                let module: Module<BE> = Module::<BE>::new(n as u64);
                let size = k.div_ceil(base2k);
                let ni = noise(k);
                let layout = BlindRotationKeyLayout {
                    n_glwe: Degree(n as u32),
                    n_lwe: Degree(n_lwe as u32),
                    base2k: Base2K(base2k as u32),
                    k: TorusPrecision(k as u32),
                    dnum: Dnum(dnum as u32),
                    rank: Rank(rank as u32),
                };

                let mut sk = GLWESecret::alloc(Degree(n as u32), Rank(rank as u32));
                sk.fill_ternary_prob(0.5, &mut Source::new([7u8; 32]));
                let mut rep = ScalarZnx::alloc(n, rank);
                let mut src = Source::new([7u8; 32]);
                for i in 0..rank {
                    rep.fill_ternary_prob(i, 0.5, &mut src);
                }
                let s: Vec<Vec<i64>> = (0..rank).map(|i| rep.at(i, 0).to_vec()).collect();
                let mut skp = module.glwe_secret_prepared_alloc(Rank(rank as u32));
                module.glwe_secret_prepare(&mut skp, &sk);

                let mut sk_lwe = LWESecret::alloc(Degree(n_lwe as u32));
                match lwe_kind {
                    0 => sk_lwe.fill_binary_prob(0.5, &mut Source::new([8u8; 32])),
                    1 => sk_lwe.fill_binary_hw(n_lwe.div_ceil(2), &mut Source::new([8u8; 32])),
                    2 => sk_lwe.fill_binary_block(1, &mut Source::new([8u8; 32])),
                    _ => sk_lwe.fill_zero(),
                }
                let bits: Vec<i64> = sk_lwe.raw().to_vec();

                let mut brk: BlindRotationKeyCompressed<Vec<u8>, CGGI> = BlindRotationKeyCompressed::alloc(&layout);
                brk.fill_uniform(base2k, &mut Source::new([9u8; 32]));
                let xe_seed = [11u8; 32];
                let mut sc = scratch(
                    BlindRotationKeyCompressedEncryptSk::<BE, CGGI>::blind_rotation_key_compressed_encrypt_sk_tmp_bytes(
                        &module, &layout,
                    ),
                    0xA5,
                );
                module.blind_rotation_key_compressed_encrypt_sk(
                    &mut brk,
                    &skp,
                    &sk_lwe,
                    seed,
                    &ni,
                    &mut Source::new(xe_seed),
                    sc.borrow(),
                );

                // expected phases [key][row][col]
                let kk = size * base2k;
                let mut xe = Source::new(xe_seed);
                let mut want = Vec::new();
                for i in 0..n_lwe {
                    let mut pt = vec![0i64; n];
                    pt[0] = bits[i];
                    let mut rows = Vec::new();
                    for row in 0..dnum {
                        let m = scale_pt(&pt, kk - (row + 1) * base2k);
                        let mut cols = Vec::new();
                        for col in 0..rank + 1 {
                            let e = next_err(&module, base2k, size, ni, &mut xe);
                            let term = if col == 0 { m.clone() } else { negacyclic(&m, &s[col - 1]) };
                            cols.push(add(&term, &e));
                        }
                        rows.push(cols);
                    }
                    want.push(rows);
                }

                // standard key, same error stream: validates the model
                let mut std: BlindRotationKey<Vec<u8>, CGGI> = BlindRotationKey::alloc(&layout);
                let mut sc2 = scratch(
                    BlindRotationKeyEncryptSk::<CGGI, BE>::blind_rotation_key_encrypt_sk_tmp_bytes(&module, &layout),
                    0x5A,
                );
                module.blind_rotation_key_encrypt_sk(
                    &mut std,
                    &skp,
                    &sk_lwe,
                    &ni,
                    &mut Source::new(xe_seed),
                    &mut Source::new([77u8; 32]),
                    sc2.borrow(),
                );
                {
                    let mut b = Vec::new();
                    std.write_to(&mut b).unwrap();
                    let mut r = &b[..];
                    let _ = Distribution::read_from(&mut r).unwrap();
                    let mut len = [0u8; 8];
                    r.read_exact(&mut len).unwrap();
                    assert_eq!(u64::from_le_bytes(len) as usize, n_lwe);
                    for i in 0..n_lwe {
                        let mut g = GGSW::alloc(
                            Degree(n as u32),
                            Base2K(base2k as u32),
                            TorusPrecision(k as u32),
                            Rank(rank as u32),
                            Dnum(dnum as u32),
                            Dsize(1),
                        );
                        g.read_from(&mut r).unwrap();
                        for row in 0..dnum {
                            for col in 0..rank + 1 {
                                let have = phase(&g.at(row, col), &s);
                                for c in 0..n {
                                    assert_eq!(
                                        have[c] & mask_bits(kk),
                                        want[i][row][col][c] & mask_bits(kk),
                                        "{tag}: [standard] key {i} cell({row},{col}) coeff {c}"
                                    );
                                }
                            }
                        }
                    }
                }

                // compressed key: serialise, round trip, parse
                let mut bytes = Vec::new();
                brk.write_to(&mut bytes).unwrap();
                let mut brk2: BlindRotationKeyCompressed<Vec<u8>, CGGI> = BlindRotationKeyCompressed::alloc(&layout);
                brk2.fill_uniform(base2k, &mut Source::new([10u8; 32]));
                brk2.read_from(&mut &bytes[..]).unwrap();
                assert!(brk == brk2, "{tag}: serialisation round trip");
                let mut bytes2 = Vec::new();
                brk2.write_to(&mut bytes2).unwrap();
                assert_eq!(bytes, bytes2, "{tag}");

                let mut r = &bytes[..];
                let dist = Distribution::read_from(&mut r).unwrap();
                assert!(dist == sk_lwe.dist(), "{tag}: dist");
                let mut len = [0u8; 8];
                r.read_exact(&mut len).unwrap();
                assert_eq!(u64::from_le_bytes(len) as usize, n_lwe);
                let mut all_seeds: Vec<[u8; 32]> = Vec::new();
                for i in 0..n_lwe {
                    let mut g = GGSWCompressed::alloc(
                        Degree(n as u32),
                        Base2K(base2k as u32),
                        TorusPrecision(k as u32),
                        Rank(rank as u32),
                        Dnum(dnum as u32),
                        Dsize(1),
                    );
                    g.read_from(&mut r).unwrap();
                    all_seeds.extend_from_slice(g.seed());
                    let mut out = GGSW::alloc(
                        Degree(n as u32),
                        Base2K(base2k as u32),
                        TorusPrecision(k as u32),
                        Rank(rank as u32),
                        Dnum(dnum as u32),
                        Dsize(1),
                    );
                    out.fill_uniform(base2k, &mut Source::new([12u8; 32]));
                    module.decompress_ggsw(&mut out, &g);
                    for row in 0..dnum {
                        for col in 0..rank + 1 {
                            check_cell(
                                &format!("{tag} key {i} cell({row},{col})"),
                                &out.at(row, col),
                                g.seed()[row * (rank + 1) + col],
                                &s,
                                &want[i][row][col],
                            );
                        }
                    }
                }
                assert!(r.is_empty(), "{tag}: trailing bytes");
                assert_eq!(all_seeds.len(), n_lwe * dnum * (rank + 1));
                for a in 0..all_seeds.len() {
                    for b in 0..a {
                        assert_ne!(all_seeds[a], all_seeds[b], "{tag}: seeds {a} and {b} coincide");
                    }
                }
                bytes
            }

            pub fn run() -> Vec<Vec<u8>> {
                let mut out = Vec::new();
                let mut s3 = [0u8; 32];
                for (i, x) in s3.iter_mut().enumerate() {
                    *x = (i * 37 + 1) as u8;
                }
                let seeds = [[0u8; 32], [0xFFu8; 32], s3];
                for (base2k, k) in [(7usize, 27usize), (12, 48), (17, 69), (19, 95)] {
                    let size = k.div_ceil(base2k);
                    for dnum in 1..=size {
                        for rank in 1..=3 {
                            for n_lwe in [1usize, 2, 5] {
                                for kind in 0..4 {
                                    out.push(brk_case(8, n_lwe, base2k, k, rank, dnum, kind, seeds[(dnum + rank + kind) % 3]));
                                }
                            }
                        }
                    }
                }
                out.push(brk_case(32, 9, 11, 44, 2, 3, 0, [5u8; 32]));
                out
            }

            #[test]
            fn brk() {
                run();
            }
        }
    };
}

brk_backend!(fft64, poulpy_cpu_ref::FFT64Ref);
brk_backend!(ntt120, poulpy_cpu_ref::NTT120Ref);

#[test]
fn cross_backend_brk() {
    assert!(fft64::run() == ntt120::run());
}
