//! C19 edge probes: receivers of another shape, deserialisation into larger receivers, mismatched secrets.
#![allow(clippy::too_many_arguments, clippy::needless_range_loop)]

use std::panic::{AssertUnwindSafe, catch_unwind};

use poulpy_core::{
    GGLWECompressedEncryptSk, GGSWCompressedEncryptSk, GLWECompressedEncryptSk, GLWEEncryptSk,
    layouts::{
        Base2K, Degree, Dnum, Dsize, GGLWE, GGLWEInfos, GGSW, GLWE, GLWEPlaintext, GLWESecret,
        GLWESecretPreparedFactory, LWEInfos, Rank, TorusPrecision,
        compressed::{
            GGLWECompressed, GGLWECompressedSeed, GGLWEDecompress, GGSWCompressed, GGSWDecompress, GLWECompressed, GLWEDecompress,
        },
        prepared::GLWESecretPrepared,
    },
};
use poulpy_cpu_ref::FFT64Ref;
use poulpy_hal::{
    api::{ModuleNew, ScratchOwnedAlloc, ScratchOwnedBorrow, VecZnxFillUniform},
    layouts::{DeviceBuf, FillUniform, Module, NoiseInfos, ReaderFrom, ScalarZnx, ScratchOwned, WriterTo, ZnxView},
    source::Source,
};

type BE = FFT64Ref;

fn noise(k: usize) -> NoiseInfos {
    NoiseInfos::new(k, 3.2, 19.2).unwrap()
}

fn sk(module: &Module<BE>, n: usize, rank: usize) -> (GLWESecret<Vec<u8>>, GLWESecretPrepared<DeviceBuf<BE>, BE>) {
    let mut sk = GLWESecret::alloc(Degree(n as u32), Rank(rank as u32));
    sk.fill_ternary_prob(0.5, &mut Source::new([7u8; 32]));
    let mut p = module.glwe_secret_prepared_alloc(Rank(rank as u32));
    module.glwe_secret_prepare(&mut p, &sk);
    (sk, p)
}

fn gglwe_c(n: usize, b: usize, k: usize, rin: usize, rout: usize, dnum: usize, dsize: usize) -> GGLWECompressed<Vec<u8>> {
    GGLWECompressed::alloc(
        Degree(n as u32),
        Base2K(b as u32),
        TorusPrecision(k as u32),
        Rank(rin as u32),
        Rank(rout as u32),
        Dnum(dnum as u32),
        Dsize(dsize as u32),
    )
}
fn gglwe_s(n: usize, b: usize, k: usize, rin: usize, rout: usize, dnum: usize, dsize: usize) -> GGLWE<Vec<u8>> {
    GGLWE::alloc(
        Degree(n as u32),
        Base2K(b as u32),
        TorusPrecision(k as u32),
        Rank(rin as u32),
        Rank(rout as u32),
        Dnum(dnum as u32),
        Dsize(dsize as u32),
    )
}

fn enc_gglwe(module: &Module<BE>, ct: &mut GGLWECompressed<Vec<u8>>, seed: [u8; 32]) {
    let n = module.n();
    let (_, skp) = sk(module, n, ct.rank_out().as_usize());
    let mut pt = ScalarZnx::alloc(n, ct.rank_in().as_usize());
    let mut src = Source::new([5u8; 32]);
    for c in 0..ct.rank_in().as_usize() {
        pt.fill_ternary_prob(c, 0.5, &mut src);
    }
    let mut sc: ScratchOwned<BE> = ScratchOwned::alloc(module.gglwe_compressed_encrypt_sk_tmp_bytes(ct));
    let k = ct.max_k().as_usize();
    module.gglwe_compressed_encrypt_sk(ct, &pt, &skp, seed, &noise(k), &mut Source::new([11u8; 32]), sc.borrow());
}

/// Deserialising into a receiver with a larger buffer / seed table is supported by `read_from`: the decompression of the
/// result must not depend on the receiver's former shape.
#[test]
fn gglwe_read_into_larger_receiver() {
    let n = 8;
    let module: Module<BE> = Module::<BE>::new(n as u64);
    for (rin, rout, dnum, dsize) in [(1usize, 1usize, 1usize, 1usize), (2, 1, 2, 1), (1, 2, 1, 2), (2, 3, 2, 2), (3, 2, 1, 3)] {
        let mut ct = gglwe_c(n, 12, 48, rin, rout, dnum, dsize);
        enc_gglwe(&module, &mut ct, [1u8; 32]);
        let mut bytes = Vec::new();
        ct.write_to(&mut bytes).unwrap();

        let mut want = gglwe_s(n, 12, 48, rin, rout, dnum, dsize);
        module.decompress_gglwe(&mut want, &ct);

        for (brin, brout, bdnum, bdsize, bk) in [(3usize, 3usize, 4usize, 1usize, 48usize), (3, 1, 2, 2, 60), (4, 2, 5, 1, 72)] {
            let mut big = gglwe_c(n, 12, bk, brin, brout, bdnum, bdsize);
            big.fill_uniform(12, &mut Source::new([2u8; 32]));
            enc_gglwe(&module, &mut big, [3u8; 32]);
            big.read_from(&mut &bytes[..]).unwrap();
            assert_eq!(big.seed(), ct.seed(), "seeds after read");
            assert_eq!(big.gglwe_layout(), ct.gglwe_layout(), "layout after read");
            let mut have = gglwe_s(n, 12, 48, rin, rout, dnum, dsize);
            have.data_mut().fill_uniform(12, &mut Source::new([4u8; 32]));
            module.decompress_gglwe(&mut have, &big);
            assert!(have == want, "decompression after reading into a larger receiver differs: {rin} {rout} {dnum} {dsize}");
            // and re-serialisation is stable
            let mut bytes2 = Vec::new();
            big.write_to(&mut bytes2).unwrap();
            assert_eq!(bytes, bytes2);
            // re-encrypt in place of the shrunken receiver
            enc_gglwe(&module, &mut big, [1u8; 32]);
            let mut bytes3 = Vec::new();
            big.write_to(&mut bytes3).unwrap();
            assert_eq!(bytes, bytes3, "re-encryption into a shrunken receiver");
        }
    }
}

#[test]
fn ggsw_glwe_read_into_larger_receiver() {
    let n = 8;
    let module: Module<BE> = Module::<BE>::new(n as u64);
    for (rank, dnum, dsize) in [(1usize, 1usize, 1usize), (2, 2, 1), (2, 1, 2), (3, 2, 2)] {
        let mk = |k: usize, rank: usize, dnum: usize, dsize: usize| {
            GGSWCompressed::alloc(
                Degree(n as u32),
                Base2K(12),
                TorusPrecision(k as u32),
                Rank(rank as u32),
                Dnum(dnum as u32),
                Dsize(dsize as u32),
            )
        };
        let (_, skp) = sk(&module, n, rank);
        let mut pt = ScalarZnx::alloc(n, 1);
        pt.fill_ternary_prob(0, 0.5, &mut Source::new([5u8; 32]));
        let mut ct = mk(48, rank, dnum, dsize);
        let mut sc: ScratchOwned<BE> = ScratchOwned::alloc(module.ggsw_compressed_encrypt_sk_tmp_bytes(&ct));
        module.ggsw_compressed_encrypt_sk(&mut ct, &pt, &skp, [1u8; 32], &noise(48), &mut Source::new([11u8; 32]), sc.borrow());
        let mut bytes = Vec::new();
        ct.write_to(&mut bytes).unwrap();
        let alloc_s = || {
            GGSW::alloc(
                Degree(n as u32),
                Base2K(12),
                TorusPrecision(48),
                Rank(rank as u32),
                Dnum(dnum as u32),
                Dsize(dsize as u32),
            )
        };
        let mut want = alloc_s();
        module.decompress_ggsw(&mut want, &ct);
        for (bk, brank, bdnum, bdsize) in [(60usize, 3usize, 5usize, 1usize), (72, 3, 3, 2)] {
            let mut big = mk(bk, brank, bdnum, bdsize);
            big.fill_uniform(12, &mut Source::new([2u8; 32]));
            big.read_from(&mut &bytes[..]).unwrap();
            let mut have = alloc_s();
            have.fill_uniform(12, &mut Source::new([4u8; 32]));
            module.decompress_ggsw(&mut have, &big);
            assert!(have == want, "ggsw: decompression after reading into a larger receiver differs");
            let mut bytes2 = Vec::new();
            big.write_to(&mut bytes2).unwrap();
            assert_eq!(bytes, bytes2);
        }
    }

    // GLWE
    for rank in 1..=3usize {
        let (_, skp) = sk(&module, n, rank);
        let mut pt = GLWEPlaintext::alloc(Degree(n as u32), Base2K(12), TorusPrecision(24));
        module.vec_znx_fill_uniform(12, pt.data_mut(), 0, &mut Source::new([3u8; 32]));
        let mut ct = GLWECompressed::alloc(Degree(n as u32), Base2K(12), TorusPrecision(48), Rank(rank as u32));
        let mut sc: ScratchOwned<BE> = ScratchOwned::alloc(module.glwe_compressed_encrypt_sk_tmp_bytes(&ct));
        module.glwe_compressed_encrypt_sk(&mut ct, &pt, &skp, [1u8; 32], &noise(48), &mut Source::new([11u8; 32]), sc.borrow());
        let mut bytes = Vec::new();
        ct.write_to(&mut bytes).unwrap();
        let mut want = GLWE::alloc(Degree(n as u32), Base2K(12), TorusPrecision(48), Rank(rank as u32));
        module.decompress_glwe(&mut want, &ct);
        // receiver with another rank, radix and more limbs
        let mut big = GLWECompressed::alloc(Degree(n as u32), Base2K(17), TorusPrecision(17 * 6), Rank(1));
        big.fill_uniform(17, &mut Source::new([2u8; 32]));
        big.read_from(&mut &bytes[..]).unwrap();
        let mut have = GLWE::alloc(Degree(n as u32), Base2K(12), TorusPrecision(48), Rank(rank as u32));
        module.decompress_glwe(&mut have, &big);
        assert!(have == want, "glwe: decompression after reading into a larger receiver differs");
    }
}

/// `decompress_gglwe` only pins `dsize` and `res.dnum() <= other.dnum()`; what happens with another `rank_in`?
#[test]
fn gglwe_decompress_other_rank_in() {
    let n = 8;
    let module: Module<BE> = Module::<BE>::new(n as u64);
    let mut ct = gglwe_c(n, 12, 48, 2, 2, 2, 1);
    enc_gglwe(&module, &mut ct, [1u8; 32]);
    let mut full = gglwe_s(n, 12, 48, 2, 2, 2, 1);
    module.decompress_gglwe(&mut full, &ct);

    // fewer input columns: must be the matching sub-matrix
    let mut sub = gglwe_s(n, 12, 48, 1, 2, 2, 1);
    module.decompress_gglwe(&mut sub, &ct);
    for row in 0..2 {
        assert!(sub.at(row, 0) == full.at(row, 0), "sub-matrix row {row}");
    }

    // more input columns than the source has
    let mut sup = gglwe_s(n, 12, 48, 3, 2, 2, 1);
    let r = catch_unwind(AssertUnwindSafe(|| module.decompress_gglwe(&mut sup, &ct)));
    println!("decompress_gglwe with res.rank_in=3 > other.rank_in=2: panicked={}", r.is_err());
    if r.is_ok() {
        for row in 0..2 {
            for col in 0..3 {
                let c = sup.at(row, col);
                println!("  cell({row},{col}) body limb0 = {:?}", &c.data().at(0, 0)[..4]);
            }
        }
    }
}

/// `glwe_compressed_encrypt_sk` does not compare the rank of the receiver with the rank of the secret
/// (its uncompressed sibling `glwe_encrypt_sk` does).
#[test]
fn glwe_compressed_rank_mismatch() {
    let n = 8;
    let module: Module<BE> = Module::<BE>::new(n as u64);
    let mut mismatches = Vec::new();
    for (rank_ct, rank_sk) in [(1usize, 2usize), (2, 3), (2, 1), (3, 1)] {
        let (_, skp) = sk(&module, n, rank_sk);
        let mut pt = GLWEPlaintext::alloc(Degree(n as u32), Base2K(12), TorusPrecision(24));
        module.vec_znx_fill_uniform(12, pt.data_mut(), 0, &mut Source::new([3u8; 32]));
        let mut ct = GLWECompressed::alloc(Degree(n as u32), Base2K(12), TorusPrecision(48), Rank(rank_ct as u32));
        let mut sc: ScratchOwned<BE> = ScratchOwned::alloc(module.glwe_compressed_encrypt_sk_tmp_bytes(&ct) + 4096);
        let r = catch_unwind(AssertUnwindSafe(|| {
            module.glwe_compressed_encrypt_sk(&mut ct, &pt, &skp, [1u8; 32], &noise(48), &mut Source::new([11u8; 32]), sc.borrow())
        }));
        let mut std = GLWE::alloc(Degree(n as u32), Base2K(12), TorusPrecision(48), Rank(rank_ct as u32));
        let mut sc2: ScratchOwned<BE> = ScratchOwned::alloc(module.glwe_encrypt_sk_tmp_bytes(&std) + 4096);
        let r2 = catch_unwind(AssertUnwindSafe(|| {
            module.glwe_encrypt_sk(
                &mut std,
                &pt,
                &skp,
                &noise(48),
                &mut Source::new([11u8; 32]),
                &mut Source::new([1u8; 32]),
                sc2.borrow(),
            )
        }));
        println!(
            "rank_ct={rank_ct} rank_sk={rank_sk}: compressed panicked={} standard panicked={}",
            r.is_err(),
            r2.is_err()
        );
        mismatches.push((rank_ct, rank_sk, r.is_err(), r2.is_err()));
    }
    assert!(
        mismatches.iter().all(|m| m.2 == m.3),
        "glwe_compressed_encrypt_sk accepts a secret of another rank that glwe_encrypt_sk rejects: (rank_ct, rank_sk, compressed panicked, standard panicked) = {mismatches:?}"
    );
}

// ----------------------------------------------------------------------------------------------------------------
// Reachability of the LWE-related compressed keys: `decompress_{glwe_to_lwe,lwe_switching,lwe_to_glwe}_key` ask for
// `O: GGLWECompressedToRef + GLWESwitchingKeyDegrees`; the `...Compressed` wrappers they are meant for do not implement
// `GLWESwitchingKeyDegrees` (their uncompressed siblings and `GLWESwitchingKeyCompressed` do).
// ----------------------------------------------------------------------------------------------------------------
mod reachability {
    use poulpy_core::layouts::{
        GGLWECompressedSeedMut, GLWESwitchingKeyCompressed, GLWESwitchingKeyDegrees, GLWESwitchingKeyDegreesMut, GLWEToLWEKey,
        GLWEToLWESwitchingKeyCompressed, LWESwitchingKey, LWESwitchingKeyCompressed, LWEToGLWEKey, LWEToGLWEKeyCompressed,
    };
    use std::marker::PhantomData;

    struct W<T>(PhantomData<T>);
    trait No {
        fn degrees(&self) -> bool {
            false
        }
        fn degrees_mut(&self) -> bool {
            false
        }
        fn seed_mut(&self) -> bool {
            false
        }
    }
    impl<T> No for W<T> {}
    impl<T: GLWESwitchingKeyDegrees> W<T> {
        fn degrees(&self) -> bool {
            true
        }
    }
    struct WM<T>(PhantomData<T>);
    impl<T> No for WM<T> {}
    impl<T: GLWESwitchingKeyDegreesMut> WM<T> {
        fn degrees_mut(&self) -> bool {
            true
        }
    }
    struct WS<T>(PhantomData<T>);
    impl<T> No for WS<T> {}
    impl<T: GGLWECompressedSeedMut> WS<T> {
        fn seed_mut(&self) -> bool {
            true
        }
    }

    #[test]
    fn lwe_related_compressed_keys_cannot_be_decompressed_nor_filled() {
        type V = Vec<u8>;
        // the uncompressed receivers and the generic compressed switching key are fine
        assert!(W::<GLWEToLWEKey<V>>(PhantomData).degrees());
        assert!(W::<LWESwitchingKey<V>>(PhantomData).degrees());
        assert!(W::<LWEToGLWEKey<V>>(PhantomData).degrees());
        assert!(W::<GLWESwitchingKeyCompressed<V>>(PhantomData).degrees());
        assert!(WM::<GLWESwitchingKeyCompressed<V>>(PhantomData).degrees_mut());
        assert!(WS::<GLWESwitchingKeyCompressed<V>>(PhantomData).seed_mut());

        let have = [
            W::<GLWEToLWESwitchingKeyCompressed<V>>(PhantomData).degrees(),
            W::<LWESwitchingKeyCompressed<V>>(PhantomData).degrees(),
            W::<LWEToGLWEKeyCompressed<V>>(PhantomData).degrees(),
            WM::<GLWEToLWESwitchingKeyCompressed<V>>(PhantomData).degrees_mut(),
            WM::<LWESwitchingKeyCompressed<V>>(PhantomData).degrees_mut(),
            WM::<LWEToGLWEKeyCompressed<V>>(PhantomData).degrees_mut(),
            WS::<GLWEToLWESwitchingKeyCompressed<V>>(PhantomData).seed_mut(),
            WS::<LWESwitchingKeyCompressed<V>>(PhantomData).seed_mut(),
            WS::<LWEToGLWEKeyCompressed<V>>(PhantomData).seed_mut(),
        ];
        println!("LWE-related compressed keys: [degrees x3, degrees_mut x3, seed_mut x3] = {have:?}");
        assert!(
            have.iter().all(|x| *x),
            "the LWE-related compressed keys miss the traits their own decompression / any compressed encryption require: {have:?}"
        );
    }
}
