//! C10, cross-family clause: FFT64 and NTT120 give bit-identical coefficient-domain results wherever both are
//! inside their magnitude domain. The two families implement `vec_znx_big_normalize*` with different code
//! (i64 kernels of `reference/vec_znx/normalize.rs` vs the i128 `nfc_*` pipeline of `reference/ntt120/vec_znx_big.rs`),
//! and svp / vmp / convolution with different transforms, so the comparison is a genuine differential oracle.
//!
//! Compared: FFT64Ref vs NTT120Ref (the AVX siblings are tied to them by the other c10_* tests) and, as a belt and
//! braces check, FFT64Avx vs NTT120Avx.
#![cfg(feature = "enable-avx")]
#![allow(clippy::too_many_arguments)]

use poulpy_cpu_avx::{FFT64Avx, NTT120Avx};
use poulpy_cpu_ref::{FFT64Ref, NTT120Ref};
use poulpy_hal::{
    api::*,
    layouts::{Backend, CnvPVecL, CnvPVecR, DeviceBuf, MatZnx, Module, ScalarZnx, ScratchOwned, SvpPPol, VecZnx, VecZnxBig, VecZnxDft, VmpPMat, ZnxInfos, ZnxView, ZnxViewMut},
};

struct Xs(u64);
impl Xs {
    fn next(&mut self) -> u64 {
        let mut x = self.0;
        x ^= x << 13;
        x ^= x >> 7;
        x ^= x << 17;
        self.0 = x;
        x
    }
    fn val(&mut self, bits: u32) -> i64 {
        let r = self.next();
        let sh = 64 - bits;
        match r & 15 {
            0 => (i64::MAX) >> sh,
            1 => (i64::MIN) >> sh,
            2 => 0,
            3 => -1,
            4 => 1,
            _ => (self.next() as i64) >> sh,
        }
    }
}

fn rand_vec_znx(rng: &mut Xs, n: usize, cols: usize, size: usize, bits: u32) -> VecZnx<Vec<u8>> {
    let mut v: VecZnx<Vec<u8>> = VecZnx::alloc(n, cols, size);
    for c in 0..cols {
        for l in 0..size {
            for x in v.at_mut(c, l).iter_mut() {
                *x = rng.val(bits);
            }
        }
    }
    v
}

fn diff(a: &VecZnx<Vec<u8>>, b: &VecZnx<Vec<u8>>) -> Option<String> {
    for c in 0..a.cols() {
        for l in 0..a.size() {
            if a.at(c, l) != b.at(c, l) {
                return Some(format!("col {c} limb {l}: fft64={:?} ntt120={:?}", a.at(c, l), b.at(c, l)));
            }
        }
    }
    None
}

/// conversion of the big scalar from i64 test data
trait FromI64: Copy {
    fn from_i64(x: i64) -> Self;
}
impl FromI64 for i64 {
    fn from_i64(x: i64) -> Self {
        x
    }
}
impl FromI64 for i128 {
    fn from_i64(x: i64) -> Self {
        x as i128
    }
}

#[derive(Clone, Copy, Debug)]
enum NormOp {
    Normalize,
    AddAssign,
    SubAssign,
    Negate,
}

/// runs one normalisation form on backend BE with big = `vals` (same integers on every backend)
fn run_norm<BE: Backend>(
    module: &Module<BE>,
    scratch: &mut ScratchOwned<BE>,
    op: NormOp,
    vals: &VecZnx<Vec<u8>>, // i64 data carrying the big integers
    res0: &VecZnx<Vec<u8>>,
    res_base2k: usize,
    a_base2k: usize,
    off: i64,
) -> VecZnx<Vec<u8>>
where
    BE::ScalarBig: FromI64,
    Module<BE>: VecZnxBigAlloc<BE> + VecZnxBigNormalize<BE>,
    ScratchOwned<BE>: ScratchOwnedBorrow<BE>,
    VecZnxBig<DeviceBuf<BE>, BE>: ZnxViewMut<Scalar = BE::ScalarBig>,
{
    let mut big: VecZnxBig<DeviceBuf<BE>, BE> = module.vec_znx_big_alloc(vals.cols(), vals.size());
    for c in 0..vals.cols() {
        for l in 0..vals.size() {
            let src = vals.at(c, l);
            for (d, s) in big.at_mut(c, l).iter_mut().zip(src.iter()) {
                *d = <BE::ScalarBig as FromI64>::from_i64(*s);
            }
        }
    }
    let mut res = res0.clone();
    match op {
        NormOp::Normalize => module.vec_znx_big_normalize(&mut res, res_base2k, off, 1, &big, a_base2k, 0, scratch.borrow()),
        NormOp::AddAssign => module.vec_znx_big_normalize_add_assign(&mut res, res_base2k, off, 1, &big, a_base2k, 0, scratch.borrow()),
        NormOp::SubAssign => module.vec_znx_big_normalize_sub_assign(&mut res, res_base2k, off, 1, &big, a_base2k, 0, scratch.borrow()),
        NormOp::Negate => module.vec_znx_big_normalize_negate(&mut res, res_base2k, off, 1, &big, a_base2k, 0, scratch.borrow()),
    }
    res
}

fn big_normalize_family_agreement(want_cross: bool) {
    let mut rng = Xs(0xfeed_beef_0000_0001);
    let mut fails: Vec<String> = Vec::new();
    let mut total = 0usize;
    let mut cats: std::collections::BTreeMap<String, usize> = Default::default();
    let (mut shown_same, mut shown_real) = (0usize, 0usize);
    for n in [2usize, 4, 8, 16] {
        let mf = Module::<FFT64Ref>::new(n as u64);
        let mn = Module::<NTT120Ref>::new(n as u64);
        let mfa = Module::<FFT64Avx>::new(n as u64);
        let mna = Module::<NTT120Avx>::new(n as u64);
        let mut sf = ScratchOwned::<FFT64Ref>::alloc(1 << 16);
        let mut sn = ScratchOwned::<NTT120Ref>::alloc(1 << 16);
        let mut sfa = ScratchOwned::<FFT64Avx>::alloc(1 << 16);
        let mut sna = ScratchOwned::<NTT120Avx>::alloc(1 << 16);
        let bases = [1usize, 2, 7, 12, 17, 31, 50];
        for rs in [1usize, 2, 3, 5] {
            for asz in [1usize, 2, 3, 5] {
                for &a_base in &bases {
                    // magnitude domain of the i64 (FFT64) pipeline: a big limb is the result of accumulating
                    // products of digits, |x| < 2^(2*base2k + log2(n*size)); stay well inside i64 so that neither
                    // family wraps: |x| < 2^(min(2*a_base+8, 62 - a_base) )
                    let in_bits = ((2 * a_base + 8).min(62usize.saturating_sub(a_base))).max(a_base + 1).min(62) as u32;
                    let vals = rand_vec_znx(&mut rng, n, 1, asz, in_bits);
                    let res0 = rand_vec_znx(&mut rng, n, 2, rs, 40);
                    let span = ((asz.max(rs) + 1) * a_base) as i64;
                    let mut offs: Vec<i64> = vec![0, 1, -1, a_base as i64, -(a_base as i64), a_base as i64 - 1, -(a_base as i64) + 1, span, -span];
                    for _ in 0..3 {
                        offs.push((rng.next() % (2 * span as u64 + 1)) as i64 - span);
                    }
                    offs.sort();
                    offs.dedup();
                    for &r_base in &bases {
                        let cross = r_base != a_base;
                        if cross != want_cross {
                            continue;
                        }
                        for &off in offs.iter().step_by(if cross { 3 } else { 1 }) {
                            for op in [NormOp::Normalize, NormOp::AddAssign, NormOp::SubAssign, NormOp::Negate] {
                                let f = run_norm(&mf, &mut sf, op, &vals, &res0, r_base, a_base, off);
                                let t = run_norm(&mn, &mut sn, op, &vals, &res0, r_base, a_base, off);
                                total += 1;
                                if let Some(d) = diff(&f, &t) {
                                    *cats.entry(format!("{op:?} cross={cross} res_base2k{}a_base2k", if r_base < a_base { "<" } else if r_base > a_base { ">" } else { "=" })).or_insert(0usize) += 1;
                                    if fails.len() < 15 || (!cross && shown_same < 10) || (cross && matches!(op, NormOp::Normalize) && r_base >= 12 && a_base >= 12 && shown_real < 10) {
                                        if !cross { shown_same += 1; }
                                        if cross && r_base >= 12 && a_base >= 12 { shown_real += 1; }
                                        fails.push(format!("{op:?} n={n} res_size={rs} a_size={asz} res_base2k={r_base} a_base2k={a_base} off={off} in_bits={in_bits}: {d}\n      a={:?}\n      res0(col1)={:?}", (0..asz).map(|l| vals.at(0, l).to_vec()).collect::<Vec<_>>(), (0..rs).map(|l| res0.at(1, l).to_vec()).collect::<Vec<_>>()));
                                    } else {
                                        fails.push(String::new());
                                    }
                                }
                                if off == 0 {
                                    let fa = run_norm(&mfa, &mut sfa, op, &vals, &res0, r_base, a_base, off);
                                    let ta = run_norm(&mna, &mut sna, op, &vals, &res0, r_base, a_base, off);
                                    assert!(diff(&f, &fa).is_none() && diff(&t, &ta).is_none(), "AVX siblings follow their reference");
                                }
                            }
                        }
                    }
                }
            }
        }
    }
    eprintln!("big_normalize_family_agreement(cross radix = {want_cross}): {total} comparisons, {} mismatches", fails.len());
    for (k, v) in &cats {
        eprintln!("  category {k}: {v}");
    }
    for f in fails.iter().filter(|f| !f.is_empty()) {
        eprintln!("  MISMATCH {f}");
    }
    assert!(fails.is_empty());
}

/// Same radix on both sides: the i64 pipeline (FFT64) and the i128 pipeline (NTT120) agree bit for bit.
#[test]
fn big_normalize_same_radix_family_agreement() {
    big_normalize_family_agreement(false);
}

/// DEFECT (cross-family): with `res_base2k != a_base2k` the NTT120 family floors the bits it discards
/// (`nfc_mul_pow2_assign`, poulpy-cpu-ref/src/reference/ntt120/vec_znx_big.rs:61-67, is a plain `>>`) whereas
/// the FFT64 family rounds them to nearest (`znx_mul_power_of_two_assign_ref`, reference/znx/mul.rs:29-49).
#[test]
fn big_normalize_cross_radix_family_agreement() {
    big_normalize_family_agreement(true);
}

/// Smallest cross-radix reproduction, with the exact rational value as the referee.
#[test]
fn big_normalize_cross_radix_minimal() {
    let n = 2;
    let (a_base2k, res_base2k) = (17usize, 12usize);
    // one limb: value = a / 2^17 on the torus; one result limb of 12 bits: exact result a / 2^5
    let mut vals: VecZnx<Vec<u8>> = VecZnx::alloc(n, 1, 1);
    vals.at_mut(0, 0).copy_from_slice(&[48, -48]); // 48/32 = 1.5 , -1.5
    let res0: VecZnx<Vec<u8>> = VecZnx::alloc(n, 2, 1);
    let mf = Module::<FFT64Ref>::new(n as u64);
    let mn = Module::<NTT120Ref>::new(n as u64);
    let mut sf = ScratchOwned::<FFT64Ref>::alloc(1 << 12);
    let mut sn = ScratchOwned::<NTT120Ref>::alloc(1 << 12);
    let f = run_norm(&mf, &mut sf, NormOp::Normalize, &vals, &res0, res_base2k, a_base2k, 0);
    let t = run_norm(&mn, &mut sn, NormOp::Normalize, &vals, &res0, res_base2k, a_base2k, 0);
    eprintln!("a=[48,-48] a_base2k=17 -> res_base2k=12: exact=[1.5,-1.5] FFT64Ref={:?} NTT120Ref={:?}", f.at(1, 0), t.at(1, 0));
    // values a whose discarded bits are zero agree
    let mut vals2: VecZnx<Vec<u8>> = VecZnx::alloc(n, 1, 1);
    vals2.at_mut(0, 0).copy_from_slice(&[64, -64]);
    assert_eq!(
        run_norm(&mf, &mut sf, NormOp::Normalize, &vals2, &res0, res_base2k, a_base2k, 0).at(1, 0),
        run_norm(&mn, &mut sn, NormOp::Normalize, &vals2, &res0, res_base2k, a_base2k, 0).at(1, 0)
    );
    assert_eq!(f.at(1, 0), t.at(1, 0), "FFT64Ref (round to nearest) vs NTT120Ref (floor)");
}

/// DEFECT (cross-family): `vmp_apply_dft_to_dft` with `limb_offset > 0` and `res.size() < pmat.size()`.
/// FFT64 keeps product limbs `limb_offset .. min(pmat.size, res.size)` (`col_max = ncols.min(res_size)`,
/// reference/fft64/vmp.rs:227), NTT120 keeps `limb_offset .. min(pmat.size, res.size + limb_offset)`
/// (`col_max = ncols.min(res_size + limb_offset)`, reference/ntt120/vmp.rs:190).
#[test]
fn vmp_limb_offset_window_family_agreement() {
    fn go<BE: Backend>(n: usize) -> VecZnx<Vec<u8>>
    where
        Module<BE>: ModuleNew<BE>
            + VecZnxBigAlloc<BE>
            + VecZnxBigNormalize<BE>
            + VecZnxDftAlloc<BE>
            + VecZnxDftApply<BE>
            + VecZnxIdftApply<BE>
            + VmpPMatAlloc<BE>
            + VmpPrepare<BE>
            + VmpApplyDftToDft<BE>,
        ScratchOwned<BE>: ScratchOwnedAlloc<BE> + ScratchOwnedBorrow<BE>,
    {
        let module = Module::<BE>::new(n as u64);
        let mut scratch = ScratchOwned::<BE>::alloc(1 << 16);
        // a = 1 (one limb), matrix row 0 = (limb0 = 3, limb1 = 5) as constant polynomials
        let mut a: VecZnx<Vec<u8>> = VecZnx::alloc(n, 1, 1);
        a.at_mut(0, 0)[0] = 1;
        let mut mat: MatZnx<Vec<u8>> = MatZnx::alloc(n, 1, 1, 1, 2);
        {
            let mut row = mat.at_mut(0, 0);
            row.at_mut(0, 0)[0] = 3;
            row.at_mut(0, 1)[0] = 5;
        }
        let mut pm: VmpPMat<DeviceBuf<BE>, BE> = module.vmp_pmat_alloc(1, 1, 1, 2);
        module.vmp_prepare(&mut pm, &mat, scratch.borrow());
        let mut a_dft: VecZnxDft<DeviceBuf<BE>, BE> = module.vec_znx_dft_alloc(1, 1);
        module.vec_znx_dft_apply(1, 0, &mut a_dft, 0, &a, 0);
        // result with ONE limb, reading the product from limb 1
        let mut r_dft: VecZnxDft<DeviceBuf<BE>, BE> = module.vec_znx_dft_alloc(1, 1);
        module.vmp_apply_dft_to_dft(&mut r_dft, &a_dft, &pm, 1, scratch.borrow());
        let mut big: VecZnxBig<DeviceBuf<BE>, BE> = module.vec_znx_big_alloc(1, 1);
        module.vec_znx_idft_apply(&mut big, 0, &r_dft, 0, scratch.borrow());
        let mut res: VecZnx<Vec<u8>> = VecZnx::alloc(n, 1, 1);
        module.vec_znx_big_normalize(&mut res, 17, 0, 0, &big, 17, 0, scratch.borrow());
        res
    }
    let n = 8;
    let (f, t) = (go::<FFT64Ref>(n), go::<NTT120Ref>(n));
    let (fa, ta) = (go::<FFT64Avx>(n), go::<NTT120Avx>(n));
    eprintln!("1 x [3, 5], res.size()=1, limb_offset=1: FFT64Ref={:?} NTT120Ref={:?}", f.at(0, 0)[0], t.at(0, 0)[0]);
    assert!(diff(&f, &fa).is_none() && diff(&t, &ta).is_none(), "AVX siblings follow their reference");
    assert_eq!(f.at(0, 0), t.at(0, 0), "FFT64 vs NTT120");
}

/// svp / vmp / convolution pipelines on both families, normalised with the same radix, must agree.
fn products<BE: Backend>(n: usize, base2k: usize, seed: u64) -> Vec<(String, VecZnx<Vec<u8>>)>
where
    Module<BE>: ModuleNew<BE>
        + VecZnxBigAlloc<BE>
        + VecZnxBigNormalize<BE>
        + VecZnxDftAlloc<BE>
        + VecZnxDftApply<BE>
        + VecZnxIdftApply<BE>
        + VecZnxDftAddAssign<BE>
        + VecZnxDftSubAssign<BE>
        + SvpPPolAlloc<BE>
        + SvpPrepare<BE>
        + SvpApplyDftToDft<BE>
        + VmpPMatAlloc<BE>
        + VmpPrepare<BE>
        + VmpApplyDftToDft<BE>
        + CnvPVecAlloc<BE>
        + Convolution<BE>,
    ScratchOwned<BE>: ScratchOwnedAlloc<BE> + ScratchOwnedBorrow<BE>,
    CnvPVecL<DeviceBuf<BE>, BE>: ZnxViewMut<Scalar = BE::ScalarPrep>,
    CnvPVecR<DeviceBuf<BE>, BE>: ZnxViewMut<Scalar = BE::ScalarPrep>,
{
    let mut rng = Xs(seed);
    let module = Module::<BE>::new(n as u64);
    let mut scratch = ScratchOwned::<BE>::alloc(1 << 20);
    let bits = base2k as u32;
    let mut out = Vec::new();

    let norm = |module: &Module<BE>, scratch: &mut ScratchOwned<BE>, dft: &VecZnxDft<DeviceBuf<BE>, BE>, cols: usize, size: usize| -> VecZnx<Vec<u8>> {
        let mut big: VecZnxBig<DeviceBuf<BE>, BE> = module.vec_znx_big_alloc(cols, size);
        let mut res: VecZnx<Vec<u8>> = VecZnx::alloc(n, cols, size + 1);
        for c in 0..cols {
            module.vec_znx_idft_apply(&mut big, c, dft, c, scratch.borrow());
            // offset = -base2k keeps the top carry inside the extra limb
            module.vec_znx_big_normalize(&mut res, base2k, -(base2k as i64), c, &big, base2k, c, scratch.borrow());
        }
        res
    };

    for (asz, rsz) in [(1usize, 1usize), (2, 3), (4, 4), (5, 3)] {
        let a = rand_vec_znx(&mut rng, n, 2, asz, bits);
        let mut a_dft: VecZnxDft<DeviceBuf<BE>, BE> = module.vec_znx_dft_alloc(2, asz);
        for c in 0..2 {
            module.vec_znx_dft_apply(1, 0, &mut a_dft, c, &a, c);
        }
        // svp
        let mut sc: ScalarZnx<Vec<u8>> = ScalarZnx::alloc(n, 1);
        for x in sc.at_mut(0, 0).iter_mut() {
            *x = rng.val(bits);
        }
        let mut pp: SvpPPol<DeviceBuf<BE>, BE> = module.svp_ppol_alloc(1);
        module.svp_prepare(&mut pp, 0, &sc, 0);
        let mut r_dft: VecZnxDft<DeviceBuf<BE>, BE> = module.vec_znx_dft_alloc(2, rsz);
        for c in 0..2 {
            module.svp_apply_dft_to_dft(&mut r_dft, c, &pp, 0, &a_dft, c);
        }
        // plus / minus another transform, to exercise the DFT-domain arithmetic too
        let b = rand_vec_znx(&mut rng, n, 2, rsz, bits);
        let mut b_dft: VecZnxDft<DeviceBuf<BE>, BE> = module.vec_znx_dft_alloc(2, rsz);
        for c in 0..2 {
            module.vec_znx_dft_apply(1, 0, &mut b_dft, c, &b, c);
        }
        module.vec_znx_dft_add_assign(&mut r_dft, 0, &b_dft, 1);
        module.vec_znx_dft_sub_assign(&mut r_dft, 1, &b_dft, 0);
        out.push((format!("svp+add/sub a_size={asz} res_size={rsz}"), norm(&module, &mut scratch, &r_dft, 2, rsz)));

        // vmp
        if n >= 8 {
            for (rows, psize) in [(asz, rsz), (3usize, 2usize)] {
                let (cols_in, cols_out) = (2usize, 2usize);
                let mut mat: MatZnx<Vec<u8>> = MatZnx::alloc(n, rows, cols_in, cols_out, psize);
                for r in 0..rows {
                    for ci in 0..cols_in {
                        let mut v = mat.at_mut(r, ci);
                        for co in 0..cols_out {
                            for l in 0..psize {
                                for x in v.at_mut(co, l).iter_mut() {
                                    *x = rng.val(bits);
                                }
                            }
                        }
                    }
                }
                let mut pm: VmpPMat<DeviceBuf<BE>, BE> = module.vmp_pmat_alloc(rows, cols_in, cols_out, psize);
                module.vmp_prepare(&mut pm, &mat, scratch.borrow());
                for limb_offset in 0..psize {
                    let mut r_dft: VecZnxDft<DeviceBuf<BE>, BE> = module.vec_znx_dft_alloc(cols_out, rsz);
                    module.vmp_apply_dft_to_dft(&mut r_dft, &a_dft, &pm, limb_offset, scratch.borrow());
                    out.push((
                        format!("vmp a_size={asz} rows={rows} pmat_size={psize} res_size={rsz} limb_offset={limb_offset}{}", if limb_offset > 0 && rsz < psize { " [window]" } else { "" }),
                        norm(&module, &mut scratch, &r_dft, cols_out, rsz),
                    ));
                }
            }
            // convolution
            let bsz = rsz;
            let bb = rand_vec_znx(&mut rng, n, 2, bsz, bits);
            let mut al: CnvPVecL<DeviceBuf<BE>, BE> = module.cnv_pvec_left_alloc(2, asz);
            let mut br: CnvPVecR<DeviceBuf<BE>, BE> = module.cnv_pvec_right_alloc(2, bsz);
            module.cnv_prepare_left(&mut al, &a, !0i64, scratch.borrow());
            module.cnv_prepare_right(&mut br, &bb, !0i64, scratch.borrow());
            let csz = asz + bsz;
            for cnv_offset in 0..csz {
                let mut r_dft: VecZnxDft<DeviceBuf<BE>, BE> = module.vec_znx_dft_alloc(1, csz);
                module.cnv_apply_dft(cnv_offset, &mut r_dft, 0, &al, 1, &br, 0, scratch.borrow());
                out.push((format!("cnv a_size={asz} b_size={bsz} cnv_offset={cnv_offset}"), norm(&module, &mut scratch, &r_dft, 1, csz)));
                let mut r_dft: VecZnxDft<DeviceBuf<BE>, BE> = module.vec_znx_dft_alloc(1, csz);
                module.cnv_pairwise_apply_dft(cnv_offset, &mut r_dft, 0, &al, &br, 0, 1, scratch.borrow());
                out.push((format!("cnv_pairwise a_size={asz} b_size={bsz} cnv_offset={cnv_offset}"), norm(&module, &mut scratch, &r_dft, 1, csz)));
                // by const
                let bconst: Vec<i64> = (0..bsz).map(|_| rng.val(bits)).collect();
                let mut big: VecZnxBig<DeviceBuf<BE>, BE> = module.vec_znx_big_alloc(1, csz);
                module.cnv_by_const_apply(cnv_offset, &mut big, 0, &a, 1, &bconst, scratch.borrow());
                let mut res: VecZnx<Vec<u8>> = VecZnx::alloc(n, 1, csz + 1);
                module.vec_znx_big_normalize(&mut res, base2k, -(base2k as i64), 0, &big, base2k, 0, scratch.borrow());
                out.push((format!("cnv_by_const a_size={asz} b_size={bsz} cnv_offset={cnv_offset}"), res));
            }
        }
    }
    out
}

#[test]
fn transform_products_family_agreement() {
    let mut total = 0;
    let mut window_mismatches = 0;
    for n in [2usize, 4, 8, 16, 64, 256] {
        // FFT64 exactness domain: n * size * 2^(2*base2k) well below 2^50
        for base2k in [8usize, 12, 17] {
            let seed = (n * 131 + base2k) as u64 | 1;
            let f = products::<FFT64Ref>(n, base2k, seed);
            let t = products::<NTT120Ref>(n, base2k, seed);
            let fa = products::<FFT64Avx>(n, base2k, seed);
            let ta = products::<NTT120Avx>(n, base2k, seed);
            assert_eq!(f.len(), t.len());
            for i in 0..f.len() {
                total += 1;
                assert_eq!(f[i].0, t[i].0);
                if f[i].0.ends_with("[window]") {
                    // known family divergence, asserted separately in `vmp_limb_offset_window_family_agreement`
                    if diff(&f[i].1, &t[i].1).is_some() {
                        window_mismatches += 1;
                    }
                    continue;
                }
                if let Some(d) = diff(&f[i].1, &t[i].1) {
                    panic!("n={n} base2k={base2k} {}: FFT64Ref vs NTT120Ref: {d}", f[i].0);
                }
                if let Some(d) = diff(&fa[i].1, &ta[i].1) {
                    panic!("n={n} base2k={base2k} {}: FFT64Avx vs NTT120Avx: {d}", f[i].0);
                }
                if let Some(d) = diff(&f[i].1, &fa[i].1) {
                    panic!("n={n} base2k={base2k} {}: FFT64Ref vs FFT64Avx: {d}", f[i].0);
                }
            }
        }
    }
    eprintln!("transform_products_family_agreement: {total} results compared across four backends ({window_mismatches} `limb_offset>0 && res_size<pmat_size` vmp cases differ between the families and are asserted elsewhere)");
}

// ──────────────────────────────────────────────────────────────────────────────
// Remaining vec_znx_dft / vec_znx_big / svp / vmp forms, family against family
// ──────────────────────────────────────────────────────────────────────────────

macro_rules! family_ops {
    ($fname:ident, $BE:ty) => {
        /// Runs a fixed program of HAL calls and returns every result normalised to a VecZnx of radix `base2k`.
        fn $fname(n: usize, base2k: usize, seed: u64) -> Vec<(String, VecZnx<Vec<u8>>)> {
            type BE = $BE;
            let mut rng = Xs(seed);
            let module = Module::<BE>::new(n as u64);
            let mut scratch = ScratchOwned::<BE>::alloc(1 << 20);
            let bits = base2k as u32;
            let mut out: Vec<(String, VecZnx<Vec<u8>>)> = Vec::new();

            let norm_big = |module: &Module<BE>, scratch: &mut ScratchOwned<BE>, big: &VecZnxBig<DeviceBuf<BE>, BE>| -> VecZnx<Vec<u8>> {
                let mut res: VecZnx<Vec<u8>> = VecZnx::alloc(n, big.cols(), big.size() + 1);
                for c in 0..big.cols() {
                    module.vec_znx_big_normalize(&mut res, base2k, -(base2k as i64), c, big, base2k, c, scratch.borrow());
                }
                res
            };
            let norm_dft = |module: &Module<BE>, scratch: &mut ScratchOwned<BE>, dft: &VecZnxDft<DeviceBuf<BE>, BE>| -> VecZnx<Vec<u8>> {
                let mut big: VecZnxBig<DeviceBuf<BE>, BE> = module.vec_znx_big_alloc(dft.cols(), dft.size());
                for c in 0..dft.cols() {
                    module.vec_znx_idft_apply(&mut big, c, dft, c, scratch.borrow());
                }
                let mut res: VecZnx<Vec<u8>> = VecZnx::alloc(n, big.cols(), big.size() + 1);
                for c in 0..big.cols() {
                    module.vec_znx_big_normalize(&mut res, base2k, -(base2k as i64), c, &big, base2k, c, scratch.borrow());
                }
                res
            };
            let mk_dft = |module: &Module<BE>, v: &VecZnx<Vec<u8>>, size: usize| -> VecZnxDft<DeviceBuf<BE>, BE> {
                let mut d: VecZnxDft<DeviceBuf<BE>, BE> = module.vec_znx_dft_alloc(v.cols(), size);
                for c in 0..v.cols() {
                    module.vec_znx_dft_apply(1, 0, &mut d, c, v, c);
                }
                d
            };
            let mk_big = |module: &Module<BE>, v: &VecZnx<Vec<u8>>, size: usize| -> VecZnxBig<DeviceBuf<BE>, BE> {
                let mut b: VecZnxBig<DeviceBuf<BE>, BE> = module.vec_znx_big_alloc(v.cols(), size);
                for c in 0..v.cols() {
                    module.vec_znx_big_from_small(&mut b, c, v, c);
                }
                b
            };

            for (rs, asz, bs) in [(1usize, 1usize, 1usize), (2, 3, 1), (3, 2, 4), (4, 4, 4), (5, 1, 3)] {
                let a = rand_vec_znx(&mut rng, n, 2, asz, bits);
                let b = rand_vec_znx(&mut rng, n, 2, bs, bits);
                let r0 = rand_vec_znx(&mut rng, n, 2, rs, bits);
                let tag = format!("rs={rs} as={asz} bs={bs}");

                // forward transform with step / offset, all inverse forms
                for step in 1..=3usize {
                    for offset in 0..=step {
                        let mut d = mk_dft(&module, &r0, rs);
                        module.vec_znx_dft_apply(step, offset, &mut d, 1, &a, 0);
                        out.push((format!("dft_apply step={step} offset={offset} {tag}"), norm_dft(&module, &mut scratch, &d)));
                        let mut big: VecZnxBig<DeviceBuf<BE>, BE> = module.vec_znx_big_alloc(2, rs);
                        let mut d2 = mk_dft(&module, &r0, rs);
                        module.vec_znx_dft_apply(step, offset, &mut d2, 1, &a, 0);
                        module.vec_znx_idft_apply_tmpa(&mut big, 0, &mut d2, 1);
                        module.vec_znx_idft_apply_tmpa(&mut big, 1, &mut d2, 0);
                        out.push((format!("idft_apply_tmpa step={step} offset={offset} {tag}"), norm_big(&module, &mut scratch, &big)));
                        let big = module.vec_znx_idft_apply_consume(d);
                        out.push((format!("idft_apply_consume step={step} offset={offset} {tag}"), norm_big(&module, &mut scratch, &big)));
                        let ad = mk_dft(&module, &a, asz);
                        let mut d = mk_dft(&module, &r0, rs);
                        module.vec_znx_dft_copy(step, offset, &mut d, 0, &ad, 1);
                        out.push((format!("dft_copy step={step} offset={offset} {tag}"), norm_dft(&module, &mut scratch, &d)));
                    }
                }
                // DFT-domain arithmetic
                let (ad, bd) = (mk_dft(&module, &a, asz), mk_dft(&module, &b, bs));
                macro_rules! dop {
                    ($name:expr, |$r:ident| $body:expr) => {{
                        let mut d = mk_dft(&module, &r0, rs);
                        {
                            let $r = &mut d;
                            $body;
                        }
                        out.push((format!("{} {tag}", $name), norm_dft(&module, &mut scratch, &d)));
                    }};
                }
                dop!("dft_add_into", |r| module.vec_znx_dft_add_into(r, 1, &ad, 0, &bd, 1));
                dop!("dft_sub", |r| module.vec_znx_dft_sub(r, 1, &ad, 0, &bd, 1));
                dop!("dft_add_assign", |r| module.vec_znx_dft_add_assign(r, 1, &ad, 0));
                dop!("dft_sub_assign", |r| module.vec_znx_dft_sub_assign(r, 1, &ad, 0));
                dop!("dft_sub_negate_assign", |r| module.vec_znx_dft_sub_negate_assign(r, 1, &ad, 0));
                dop!("dft_zero", |r| module.vec_znx_dft_zero(r, 1));
                for scale in [-3i64, -1, 0, 1, 2, 6] {
                    dop!(format!("dft_add_scaled_assign scale={scale}"), |r| module.vec_znx_dft_add_scaled_assign(r, 1, &ad, 0, scale));
                }
                // svp forms
                let mut sc: ScalarZnx<Vec<u8>> = ScalarZnx::alloc(n, 2);
                for c in 0..2 {
                    for x in sc.at_mut(c, 0).iter_mut() {
                        *x = rng.val(bits);
                    }
                }
                let mut pp: SvpPPol<DeviceBuf<BE>, BE> = module.svp_ppol_alloc(2);
                module.svp_prepare(&mut pp, 0, &sc, 1);
                module.svp_prepare(&mut pp, 1, &sc, 0);
                dop!("svp_apply_dft", |r| module.svp_apply_dft(r, 1, &pp, 0, &a, 1));
                dop!("svp_apply_dft_to_dft", |r| module.svp_apply_dft_to_dft(r, 0, &pp, 1, &ad, 0));
                dop!("svp_apply_dft_to_dft_assign", |r| module.svp_apply_dft_to_dft_assign(r, 1, &pp, 1));
                // vmp_apply_dft (coefficient-domain input)
                if n >= 8 {
                    let (rows, psize) = (asz.max(2), bs);
                    let mut mat: MatZnx<Vec<u8>> = MatZnx::alloc(n, rows, 2, 2, psize);
                    for r in 0..rows {
                        for ci in 0..2 {
                            let mut v = mat.at_mut(r, ci);
                            for co in 0..2 {
                                for l in 0..psize {
                                    for x in v.at_mut(co, l).iter_mut() {
                                        *x = rng.val(bits);
                                    }
                                }
                            }
                        }
                    }
                    let mut pm: VmpPMat<DeviceBuf<BE>, BE> = module.vmp_pmat_alloc(rows, 2, 2, psize);
                    module.vmp_prepare(&mut pm, &mat, scratch.borrow());
                    let mut d = mk_dft(&module, &r0, rs);
                    module.vmp_apply_dft(&mut d, &a, &pm, scratch.borrow());
                    out.push((format!("vmp_apply_dft rows={rows} pmat_size={psize} {tag}"), norm_dft(&module, &mut scratch, &d)));
                }

                // big arithmetic (values: small digits lifted, so that every family represents them exactly)
                let (ab, bb) = (mk_big(&module, &a, asz), mk_big(&module, &b, bs));
                macro_rules! bop {
                    ($name:expr, |$r:ident, $s:ident| $body:expr) => {{
                        let mut g = mk_big(&module, &r0, rs);
                        {
                            let $r = &mut g;
                            #[allow(unused_variables)]
                            let $s = scratch.borrow();
                            $body;
                        }
                        out.push((format!("{} {tag}", $name), norm_big(&module, &mut scratch, &g)));
                    }};
                }
                bop!("big_add_into", |r, s| module.vec_znx_big_add_into(r, 1, &ab, 0, &bb, 1));
                bop!("big_add_assign", |r, s| module.vec_znx_big_add_assign(r, 1, &ab, 0));
                bop!("big_add_small_into", |r, s| module.vec_znx_big_add_small_into(r, 1, &ab, 0, &b, 1));
                bop!("big_add_small_assign", |r, s| module.vec_znx_big_add_small_assign(r, 1, &a, 0));
                bop!("big_sub", |r, s| module.vec_znx_big_sub(r, 1, &ab, 0, &bb, 1));
                bop!("big_sub_assign", |r, s| module.vec_znx_big_sub_assign(r, 1, &ab, 0));
                bop!("big_sub_negate_assign", |r, s| module.vec_znx_big_sub_negate_assign(r, 1, &ab, 0));
                bop!("big_sub_small_a", |r, s| module.vec_znx_big_sub_small_a(r, 1, &a, 0, &bb, 1));
                bop!("big_sub_small_b", |r, s| module.vec_znx_big_sub_small_b(r, 1, &ab, 0, &b, 1));
                bop!("big_sub_small_assign", |r, s| module.vec_znx_big_sub_small_assign(r, 1, &a, 0));
                bop!("big_sub_small_negate_assign", |r, s| module.vec_znx_big_sub_small_negate_assign(r, 1, &a, 0));
                bop!("big_negate", |r, s| module.vec_znx_big_negate(r, 1, &ab, 0));
                bop!("big_negate_assign", |r, s| module.vec_znx_big_negate_assign(r, 1));
                bop!("big_from_small", |r, s| module.vec_znx_big_from_small(r, 1, &a, 0));
                for p in [-1i64, 3, 5, 2 * n as i64 - 1] {
                    bop!(format!("big_automorphism p={p}"), |r, s| module.vec_znx_big_automorphism(p, r, 1, &ab, 0));
                    bop!(format!("big_automorphism_assign p={p}"), |r, s| module.vec_znx_big_automorphism_assign(p, r, 1, s));
                }
            }
            out
        }
    };
}

family_ops!(ops_fft64_ref, FFT64Ref);
family_ops!(ops_ntt120_ref, NTT120Ref);
family_ops!(ops_fft64_avx, FFT64Avx);
family_ops!(ops_ntt120_avx, NTT120Avx);

#[test]
fn dft_big_svp_vmp_forms_family_agreement() {
    let mut total = 0;
    let mut fails = Vec::new();
    for n in [2usize, 4, 8, 16, 64] {
        for base2k in [8usize, 14] {
            let seed = (n * 977 + base2k) as u64 | 1;
            let f = ops_fft64_ref(n, base2k, seed);
            let t = ops_ntt120_ref(n, base2k, seed);
            let fa = ops_fft64_avx(n, base2k, seed);
            let ta = ops_ntt120_avx(n, base2k, seed);
            assert_eq!(f.len(), t.len());
            for i in 0..f.len() {
                total += 1;
                assert_eq!(f[i].0, t[i].0);
                if let Some(d) = diff(&f[i].1, &t[i].1) {
                    if fails.len() < 20 {
                        fails.push(format!("n={n} base2k={base2k} {}: FFT64Ref vs NTT120Ref: {d}", f[i].0));
                    } else {
                        fails.push(String::new());
                    }
                }
                assert!(diff(&f[i].1, &fa[i].1).is_none(), "FFT64Ref vs FFT64Avx: {}", f[i].0);
                assert!(diff(&t[i].1, &ta[i].1).is_none(), "NTT120Ref vs NTT120Avx: {}", f[i].0);
            }
        }
    }
    eprintln!("dft_big_svp_vmp_forms_family_agreement: {total} results, {} family mismatches", fails.len());
    for f in fails.iter().filter(|f| !f.is_empty()) {
        let f: String = f.chars().take(700).collect();
        eprintln!("  MISMATCH {f}");
    }
    assert!(fails.is_empty());
}
