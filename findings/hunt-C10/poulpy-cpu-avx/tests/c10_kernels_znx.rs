//! C10: bit-exact agreement of the coefficient-domain (i64) kernels of the AVX backends with the
//! reference backends, at every length 1..=19 (SIMD main loop + scalar tails, lengths below the lane count),
//! every radix 1..=63 x every admissible lsh, and 64-bit boundary values crossed with boundary carries.
//!
//! The reference kernels use plain `+`/`-`/`<<` so in a debug build an input that wraps panics in the
//! reference: such cases are skipped in debug builds (they are "excluded by the library's own checks")
//! and compared bit for bit in `--release` builds (where both sides wrap).
#![cfg(feature = "enable-avx")]

use std::panic::{AssertUnwindSafe, catch_unwind};

use poulpy_cpu_avx::{FFT64Avx, NTT120Avx};
use poulpy_cpu_ref::{
    FFT64Ref, NTT120Ref,
    reference::znx::{
        ZnxAdd, ZnxAddAssign, ZnxAutomorphism, ZnxCopy, ZnxExtractDigitAddMul, ZnxMulAddPowerOfTwo, ZnxMulPowerOfTwo,
        ZnxMulPowerOfTwoAssign, ZnxNegate, ZnxNegateAssign, ZnxNormalizeDigit, ZnxNormalizeFinalStep,
        ZnxNormalizeFinalStepAssign, ZnxNormalizeFinalStepSub, ZnxNormalizeFirstStep, ZnxNormalizeFirstStepAssign,
        ZnxNormalizeFirstStepCarryOnly, ZnxNormalizeMiddleStep, ZnxNormalizeMiddleStepAssign, ZnxNormalizeMiddleStepCarryOnly,
        ZnxNormalizeMiddleStepSub, ZnxRotate, ZnxSub, ZnxSubAssign, ZnxSubNegateAssign, ZnxSwitchRing, ZnxZero,
    },
};

pub trait AllZnx:
    ZnxAdd
    + ZnxAddAssign
    + ZnxAutomorphism
    + ZnxCopy
    + ZnxExtractDigitAddMul
    + ZnxMulAddPowerOfTwo
    + ZnxMulPowerOfTwo
    + ZnxMulPowerOfTwoAssign
    + ZnxNegate
    + ZnxNegateAssign
    + ZnxNormalizeDigit
    + ZnxNormalizeFinalStep
    + ZnxNormalizeFinalStepAssign
    + ZnxNormalizeFinalStepSub
    + ZnxNormalizeFirstStep
    + ZnxNormalizeFirstStepAssign
    + ZnxNormalizeFirstStepCarryOnly
    + ZnxNormalizeMiddleStep
    + ZnxNormalizeMiddleStepAssign
    + ZnxNormalizeMiddleStepCarryOnly
    + ZnxNormalizeMiddleStepSub
    + ZnxRotate
    + ZnxSub
    + ZnxSubAssign
    + ZnxSubNegateAssign
    + ZnxSwitchRing
    + ZnxZero
{
}
impl AllZnx for FFT64Ref {}
impl AllZnx for FFT64Avx {}
impl AllZnx for NTT120Ref {}
impl AllZnx for NTT120Avx {}

/// xorshift, deterministic
struct Rng(u64);
impl Rng {
    fn next(&mut self) -> u64 {
        let mut x = self.0;
        x ^= x << 13;
        x ^= x >> 7;
        x ^= x << 17;
        self.0 = x;
        x
    }
}

/// Boundary values around every power of two, plus extremes.
fn boundary_values(base2k: usize) -> Vec<i64> {
    let mut v: Vec<i64> = vec![0, 1, -1, 2, -2, i64::MAX, i64::MIN, i64::MAX - 1, i64::MIN + 1];
    for k in [base2k.saturating_sub(1), base2k, base2k + 1, 31, 32, 50, 51, 52, 53, 62, 63] {
        if k == 0 || k > 63 {
            continue;
        }
        let p: i64 = ((1u64 << k) as i64).wrapping_sub(0);
        for d in [-1i64, 0, 1] {
            v.push(p.wrapping_add(d));
            v.push(p.wrapping_neg().wrapping_add(d));
        }
        // half
        let h: i64 = 1i64 << (k - 1);
        for d in [-1i64, 0, 1] {
            v.push(h.wrapping_add(d));
            v.push(h.wrapping_neg().wrapping_add(d));
        }
    }
    v.sort();
    v.dedup();
    v
}

/// Restricts values to `|x| < 2^bits` (sign preserved) when bits < 64.
fn clamp_bits(x: i64, bits: u32) -> i64 {
    if bits >= 64 { x } else { x >> (64 - bits) }
}

fn fill(rng: &mut Rng, vals: &[i64], out: &mut [i64], bits: u32) {
    for o in out.iter_mut() {
        let r = rng.next();
        *o = if r & 3 == 0 {
            clamp_bits(rng.next() as i64, bits)
        } else {
            clamp_bits(vals[(r >> 8) as usize % vals.len()], bits)
        };
    }
}

const LENS: [usize; 14] = [1, 2, 3, 4, 5, 6, 7, 8, 9, 11, 12, 13, 16, 19];

/// Runs `f` on the reference; returns None if the reference panics (debug overflow check).
fn try_ref<T>(f: impl FnOnce() -> T) -> Option<T> {
    catch_unwind(AssertUnwindSafe(f)).ok()
}

fn silence_panics() {
    std::panic::set_hook(Box::new(|_| {}));
}

struct Stats {
    compared: u64,
    skipped: u64,
    mism: Vec<String>,
}
impl Stats {
    fn new() -> Self {
        Self {
            compared: 0,
            skipped: 0,
            mism: Vec::new(),
        }
    }
    fn push(&mut self, s: String) {
        if self.mism.len() < 40 {
            self.mism.push(s);
        } else {
            self.mism.push(String::new());
        }
    }
    fn finish(self, name: &str) {
        let _ = std::panic::take_hook();
        eprintln!(
            "{name}: compared={} skipped(ref panicked)={} mismatches={}",
            self.compared,
            self.skipped,
            self.mism.len()
        );
        for m in self.mism.iter().filter(|m| !m.is_empty()).take(40) {
            eprintln!("  MISMATCH {m}");
        }
        assert!(self.mism.is_empty(), "{name}: {} mismatches", self.mism.len());
        assert!(self.compared > 0);
    }
}

/// bit-widths of the inputs: full range, and ranges in which the reference never wraps
const BITS: [u32; 3] = [64, 62, 40];

fn normalization_kernels<R: AllZnx, T: AllZnx>(name: &str) {
    silence_panics();
    let mut st = Stats::new();
    let mut rng = Rng(0x9E3779B97F4A7C15);
    for base2k in 1..=63usize {
        let vals = boundary_values(base2k);
        for lsh in 0..base2k {
            // keep the run time reasonable: all lsh for small radices, boundary lsh for large ones
            if base2k > 8 && !(lsh <= 2 || lsh + 2 >= base2k || lsh == base2k / 2) {
                continue;
            }
            for &len in LENS.iter() {
                for &bits in BITS.iter() {
                    for extra in [0usize, 3] {
                        let mut a = vec![0i64; len];
                        let mut x = vec![0i64; len];
                        let mut c = vec![0i64; len + extra];
                        fill(&mut rng, &vals, &mut a, bits);
                        fill(&mut rng, &vals, &mut x, bits);
                        // carries: up to the input width minus the radix is what the callers produce,
                        // but exercise the full width too
                        fill(&mut rng, &vals, &mut c, bits);

                        macro_rules! cmp3 {
                            ($label:expr, $call:ident $(::<$ow:literal>)?, xa) => {{
                                let (mut xr, mut cr) = (x.clone(), c.clone());
                                let (mut xt, mut ct) = (x.clone(), c.clone());
                                let ok = try_ref(|| R::$call$(::<$ow>)?(base2k, lsh, &mut xr, &a, &mut cr));
                                if ok.is_some() {
                                    T::$call$(::<$ow>)?(base2k, lsh, &mut xt, &a, &mut ct);
                                    st.compared += 1;
                                    if xr != xt || cr != ct {
                                        st.push(format!("{} base2k={base2k} lsh={lsh} len={len} bits={bits} x={x:?} a={a:?} c={c:?}\n     ref x={xr:?} c={cr:?}\n     avx x={xt:?} c={ct:?}", $label));
                                    }
                                } else { st.skipped += 1; }
                            }};
                            ($label:expr, $call:ident, x) => {{
                                let (mut xr, mut cr) = (x.clone(), c.clone());
                                let (mut xt, mut ct) = (x.clone(), c.clone());
                                let ok = try_ref(|| R::$call(base2k, lsh, &mut xr, &mut cr));
                                if ok.is_some() {
                                    T::$call(base2k, lsh, &mut xt, &mut ct);
                                    st.compared += 1;
                                    if xr != xt || cr != ct {
                                        st.push(format!("{} base2k={base2k} lsh={lsh} len={len} bits={bits} x={x:?} c={c:?}\n     ref x={xr:?} c={cr:?}\n     avx x={xt:?} c={ct:?}", $label));
                                    }
                                } else { st.skipped += 1; }
                            }};
                            ($label:expr, $call:ident, ro) => {{
                                let mut cr = c.clone();
                                let mut ct = c.clone();
                                let ok = try_ref(|| R::$call(base2k, lsh, &x, &mut cr));
                                if ok.is_some() {
                                    T::$call(base2k, lsh, &x, &mut ct);
                                    st.compared += 1;
                                    if cr != ct {
                                        st.push(format!("{} base2k={base2k} lsh={lsh} len={len} bits={bits} x={x:?} c={c:?}\n     ref c={cr:?}\n     avx c={ct:?}", $label));
                                    }
                                } else { st.skipped += 1; }
                            }};
                        }

                        cmp3!("first_step<true>", znx_normalize_first_step::<true>, xa);
                        cmp3!("first_step<false>", znx_normalize_first_step::<false>, xa);
                        cmp3!("middle_step<true>", znx_normalize_middle_step::<true>, xa);
                        cmp3!("middle_step<false>", znx_normalize_middle_step::<false>, xa);
                        cmp3!("final_step<true>", znx_normalize_final_step::<true>, xa);
                        cmp3!("final_step<false>", znx_normalize_final_step::<false>, xa);
                        cmp3!("middle_step_sub", znx_normalize_middle_step_sub, xa);
                        cmp3!("final_step_sub", znx_normalize_final_step_sub, xa);
                        cmp3!("first_step_assign", znx_normalize_first_step_assign, x);
                        cmp3!("middle_step_assign", znx_normalize_middle_step_assign, x);
                        cmp3!("final_step_assign", znx_normalize_final_step_assign, x);
                        cmp3!("first_step_carry_only", znx_normalize_first_step_carry_only, ro);
                        cmp3!("middle_step_carry_only", znx_normalize_middle_step_carry_only, ro);

                        if extra == 0 {
                            // extract_digit_addmul(base2k, lsh, res, src): lsh is an independent shift here
                            let (mut rr, mut sr) = (x.clone(), a.clone());
                            let (mut rt, mut stt) = (x.clone(), a.clone());
                            if try_ref(|| R::znx_extract_digit_addmul(base2k, lsh, &mut rr, &mut sr)).is_some() {
                                T::znx_extract_digit_addmul(base2k, lsh, &mut rt, &mut stt);
                                st.compared += 1;
                                if rr != rt || sr != stt {
                                    st.push(format!("extract_digit_addmul base2k={base2k} lsh={lsh} len={len} res={x:?} src={a:?}\n     ref {rr:?} {sr:?}\n     avx {rt:?} {stt:?}"));
                                }
                            } else {
                                st.skipped += 1;
                            }
                            if lsh == 0 {
                                let (mut rr, mut sr) = (x.clone(), a.clone());
                                let (mut rt, mut stt) = (x.clone(), a.clone());
                                if try_ref(|| R::znx_normalize_digit(base2k, &mut rr, &mut sr)).is_some() {
                                    T::znx_normalize_digit(base2k, &mut rt, &mut stt);
                                    st.compared += 1;
                                    if rr != rt || sr != stt {
                                        st.push(format!("normalize_digit base2k={base2k} len={len} res={x:?} src={a:?}\n     ref {rr:?} {sr:?}\n     avx {rt:?} {stt:?}"));
                                    }
                                } else {
                                    st.skipped += 1;
                                }
                            }
                        }
                    }
                }
            }
        }
    }
    st.finish(name);
}

#[test]
fn fft64_normalization_kernels() {
    normalization_kernels::<FFT64Ref, FFT64Avx>("fft64 normalization kernels");
}

#[test]
fn ntt120_normalization_kernels() {
    normalization_kernels::<NTT120Ref, NTT120Avx>("ntt120 normalization kernels");
}

fn arithmetic_kernels<R: AllZnx, T: AllZnx>(name: &str) {
    silence_panics();
    let mut st = Stats::new();
    let mut rng = Rng(0xD1B54A32D192ED03);
    let vals = boundary_values(17);
    for &len in LENS.iter() {
        for &bits in BITS.iter() {
            for _rep in 0..8 {
                let mut a = vec![0i64; len];
                let mut b = vec![0i64; len];
                let mut x = vec![0i64; len];
                fill(&mut rng, &vals, &mut a, bits);
                fill(&mut rng, &vals, &mut b, bits);
                fill(&mut rng, &vals, &mut x, bits);

                macro_rules! cmp2 {
                    ($label:expr, $fr:expr, $ft:expr) => {{
                        let mut rr = x.clone();
                        let mut rt = x.clone();
                        let fr: &dyn Fn(&mut [i64]) = &$fr;
                        let ft: &dyn Fn(&mut [i64]) = &$ft;
                        if try_ref(|| fr(&mut rr)).is_some() {
                            ft(&mut rt);
                            st.compared += 1;
                            if rr != rt {
                                st.push(format!(
                                    "{} len={len} bits={bits} x={x:?} a={a:?} b={b:?}\n     ref {rr:?}\n     avx {rt:?}",
                                    $label
                                ));
                            }
                        } else {
                            st.skipped += 1;
                        }
                    }};
                }
                cmp2!("add", |r: &mut [i64]| R::znx_add(r, &a, &b), |r: &mut [i64]| T::znx_add(r, &a, &b));
                cmp2!("add_assign", |r: &mut [i64]| R::znx_add_assign(r, &a), |r: &mut [i64]| T::znx_add_assign(r, &a));
                cmp2!("sub", |r: &mut [i64]| R::znx_sub(r, &a, &b), |r: &mut [i64]| T::znx_sub(r, &a, &b));
                cmp2!("sub_assign", |r: &mut [i64]| R::znx_sub_assign(r, &a), |r: &mut [i64]| T::znx_sub_assign(r, &a));
                cmp2!(
                    "sub_negate_assign",
                    |r: &mut [i64]| R::znx_sub_negate_assign(r, &a),
                    |r: &mut [i64]| T::znx_sub_negate_assign(r, &a)
                );
                cmp2!("negate", |r: &mut [i64]| R::znx_negate(r, &a), |r: &mut [i64]| T::znx_negate(r, &a));
                cmp2!("negate_assign", |r: &mut [i64]| R::znx_negate_assign(r), |r: &mut [i64]| T::znx_negate_assign(r));
                cmp2!("copy", |r: &mut [i64]| R::znx_copy(r, &a), |r: &mut [i64]| T::znx_copy(r, &a));
                cmp2!("zero", |r: &mut [i64]| R::znx_zero(r), |r: &mut [i64]| T::znx_zero(r));

                for k in -63i64..=63 {
                    cmp2!(
                        format!("mul_power_of_two k={k}"),
                        |r: &mut [i64]| R::znx_mul_power_of_two(k, r, &a),
                        |r: &mut [i64]| T::znx_mul_power_of_two(k, r, &a)
                    );
                    cmp2!(
                        format!("mul_power_of_two_assign k={k}"),
                        |r: &mut [i64]| R::znx_mul_power_of_two_assign(k, r),
                        |r: &mut [i64]| T::znx_mul_power_of_two_assign(k, r)
                    );
                    cmp2!(
                        format!("muladd_power_of_two k={k}"),
                        |r: &mut [i64]| R::znx_muladd_power_of_two(k, r, &a),
                        |r: &mut [i64]| T::znx_muladd_power_of_two(k, r, &a)
                    );
                }

                // rotation: every p in [-2n-1, 2n+1] and a few huge ones
                let n = len as i64;
                let mut ps: Vec<i64> = (-(2 * n + 1)..=(2 * n + 1)).collect();
                ps.extend_from_slice(&[i64::MAX, i64::MIN, i64::MIN + 1, 1 << 40, -(1 << 40)]);
                if len.is_power_of_two() {
                    for &p in &ps {
                        cmp2!(
                            format!("rotate p={p}"),
                            |r: &mut [i64]| R::znx_rotate(p, r, &a),
                            |r: &mut [i64]| T::znx_rotate(p, r, &a)
                        );
                        if p & 1 == 1 {
                            cmp2!(
                                format!("automorphism p={p}"),
                                |r: &mut [i64]| R::znx_automorphism(p, r, &a),
                                |r: &mut [i64]| T::znx_automorphism(p, r, &a)
                            );
                        }
                    }
                }
            }
        }
    }
    // switch_ring over every pair of power-of-two lengths 1..=64
    for li in 0..=6 {
        for lo in 0..=6 {
            let (n_in, n_out) = (1usize << li, 1usize << lo);
            let mut a = vec![0i64; n_in];
            fill(&mut rng, &vals, &mut a, 64);
            let mut rr = vec![0i64; n_out];
            fill(&mut rng, &vals, &mut rr, 64); // dirty output
            let mut rt = rr.clone();
            if try_ref(|| R::znx_switch_ring(&mut rr, &a)).is_some() {
                T::znx_switch_ring(&mut rt, &a);
                st.compared += 1;
                if rr != rt {
                    st.push(format!("switch_ring n_in={n_in} n_out={n_out} a={a:?}\n     ref {rr:?}\n     avx {rt:?}"));
                }
            } else {
                st.skipped += 1;
            }
        }
    }
    st.finish(name);
}

#[test]
fn fft64_arithmetic_kernels() {
    arithmetic_kernels::<FFT64Ref, FFT64Avx>("fft64 arithmetic kernels");
}

#[test]
fn ntt120_arithmetic_kernels() {
    arithmetic_kernels::<NTT120Ref, NTT120Avx>("ntt120 arithmetic kernels");
}
