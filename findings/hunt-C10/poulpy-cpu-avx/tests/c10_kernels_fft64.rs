//! C10: FFT64-specific kernels (i64 <-> f64 conversions, exact f64 slice arithmetic, block moves),
//! FFT64Ref vs FFT64Avx bit for bit, at every length 1..=19.
//!
//! The conversion kernels have documented exactness domains on the AVX side (`|x| < 2^50` for i64 -> f64,
//! "bounded by 2^63-1" for f64 -> i64); inside `in_domain_*` tests only that domain is fed and equality is asserted.
//! `to_znx_rounding_beyond_2p52` documents (and asserts) what happens between 2^52 and 2^63, a range the AVX kernel
//! claims to support.
#![cfg(feature = "enable-avx")]

use poulpy_cpu_avx::FFT64Avx;
use poulpy_cpu_ref::{
    FFT64Ref,
    reference::fft64::{convolution::I64Ops, reim::ReimArith, reim4::Reim4BlkMatVec},
};

struct Rng(u64);
impl Rng {
    fn next(&mut self) -> u64 {
        let mut x = self.0;
        x ^= x << 13;
        x ^= x >> 7;
        x ^= x << 17;
        self.0 = x;
        x
    }
    fn i64(&mut self, bits: u32) -> i64 {
        let r = self.next();
        let sh = 64 - bits;
        match r & 7 {
            0 => i64::MAX >> sh,
            1 => i64::MIN >> sh,
            2 => 0,
            3 => -1,
            _ => (self.next() as i64) >> sh,
        }
    }
}

const LENS: [usize; 14] = [1, 2, 3, 4, 5, 6, 7, 8, 9, 11, 12, 13, 16, 19];

fn bits_eq(a: &[f64], b: &[f64]) -> bool {
    a.len() == b.len() && a.iter().zip(b).all(|(x, y)| x.to_bits() == y.to_bits())
}

#[test]
fn in_domain_from_znx() {
    let mut rng = Rng(1);
    for &len in LENS.iter() {
        // documented AVX domain: |x| <= 2^50 - 1
        for bits in [51u32, 50, 33, 32, 2] {
            for _ in 0..50 {
                let a: Vec<i64> = (0..len).map(|_| rng.i64(bits).clamp(-(1 << 50) + 1, (1 << 50) - 1)).collect();
                let (mut r, mut t) = (vec![1.5f64; len], vec![2.5f64; len]);
                <FFT64Ref as ReimArith>::reim_from_znx(&mut r, &a);
                <FFT64Avx as ReimArith>::reim_from_znx(&mut t, &a);
                assert!(bits_eq(&r, &t), "reim_from_znx len={len} a={a:?}\n ref={r:?}\n avx={t:?}");
                for mask in [!0i64, 0, 0xFFFF, (1i64 << 50) - 1, (1 << 17) - 1] {
                    // masked values must also stay in the domain: a & mask of a negative a with mask=!0 is a itself
                    <FFT64Ref as ReimArith>::reim_from_znx_masked(&mut r, &a, mask);
                    <FFT64Avx as ReimArith>::reim_from_znx_masked(&mut t, &a, mask);
                    assert!(bits_eq(&r, &t), "reim_from_znx_masked len={len} mask={mask:#x} a={a:?}\n ref={r:?}\n avx={t:?}");
                }
            }
        }
    }
}

fn to_znx_both(divisor: f64, a: &[f64]) -> (Vec<i64>, Vec<i64>, Vec<i64>, Vec<i64>) {
    let len = a.len();
    let (mut r, mut t) = (vec![7i64; len], vec![9i64; len]);
    <FFT64Ref as ReimArith>::reim_to_znx(&mut r, divisor, a);
    <FFT64Avx as ReimArith>::reim_to_znx(&mut t, divisor, a);
    let (mut ri, mut ti) = (a.to_vec(), a.to_vec());
    <FFT64Ref as ReimArith>::reim_to_znx_assign(&mut ri, divisor);
    <FFT64Avx as ReimArith>::reim_to_znx_assign(&mut ti, divisor);
    (
        r,
        t,
        ri.iter().map(|x| x.to_bits() as i64).collect(),
        ti.iter().map(|x| x.to_bits() as i64).collect(),
    )
}

#[test]
fn in_domain_to_znx() {
    let mut rng = Rng(2);
    for &len in LENS.iter() {
        for log_m in [0u32, 1, 2, 3, 7, 10, 15] {
            let m = (1u64 << log_m) as f64;
            for bits in [50u32, 40, 20, 3] {
                for _ in 0..30 {
                    // a = m * (k + eps), |eps| <= 0.25 + exact halves excluded: what an in-domain inverse FFT produces
                    let a: Vec<f64> = (0..len)
                        .map(|_| {
                            let k = rng.i64(bits) as f64;
                            let eps = ((rng.next() % 2001) as f64 - 1000.0) / 4000.0;
                            (k + eps) * m
                        })
                        .collect();
                    let (r, t, ri, ti) = to_znx_both(m, &a);
                    assert_eq!(r, t, "reim_to_znx len={len} m={m} a={a:?}");
                    assert_eq!(ri, ti, "reim_to_znx_assign len={len} m={m} a={a:?}");
                    assert_eq!(r, ri);
                }
            }
        }
    }
}

/// Exact integers k*m with 2^52 <= |k| < 2^63: the AVX kernel documents "only ensured for inputs bounded by 2^63-1".
#[test]
fn to_znx_rounding_beyond_2p52() {
    let mut bad = Vec::new();
    for log_m in [0u32, 1, 4, 8] {
        let m = (1u64 << log_m) as f64;
        for len in [4usize, 8] {
            // main (vector) loop only: len multiple of 4
            for k in [
                (1i64 << 52) - 1,
                1i64 << 52,
                (1i64 << 52) + 1,
                (1i64 << 52) + 2,
                (1i64 << 52) + 3,
                (1i64 << 53) - 1,
                (1i64 << 53) - 3,
                1i64 << 53,
                (1i64 << 53) + 2,
                (1i64 << 60) + (1 << 10),
                (1i64 << 62) + (1 << 12),
            ] {
                for sign in [1i64, -1] {
                    let k = sign * k;
                    let a = vec![k as f64 * m; len];
                    assert_eq!(a[0] / m, k as f64, "test value must be exactly representable");
                    let (r, t, ri, ti) = to_znx_both(m, &a);
                    if r != t || ri != ti {
                        bad.push(format!("k={k} (2^{:.3}) m={m}: reim_to_znx ref={} avx={}; assign ref={} avx={}", (k.unsigned_abs() as f64).log2(), r[0], t[0], ri[0], ti[0]));
                    }
                    assert_eq!(r[0], k, "reference returns the exact integer");
                }
            }
        }
    }
    for b in &bad {
        eprintln!("MISMATCH {b}");
    }
    assert!(bad.is_empty(), "{} mismatches", bad.len());
}

#[test]
fn exact_f64_slice_arithmetic() {
    let mut rng = Rng(3);
    for &len in LENS.iter() {
        for _ in 0..40 {
            let mk = |rng: &mut Rng| -> Vec<f64> {
                (0..len)
                    .map(|_| match rng.next() & 7 {
                        0 => 0.0,
                        1 => -0.0,
                        2 => (rng.i64(60) as f64) * 0.37,
                        3 => f64::from_bits(rng.next() & 0x7FEF_FFFF_FFFF_FFFF), // any finite
                        4 => -f64::from_bits(rng.next() & 0x7FEF_FFFF_FFFF_FFFF),
                        _ => rng.i64(40) as f64,
                    })
                    .collect()
            };
            let (a, b, x) = (mk(&mut rng), mk(&mut rng), mk(&mut rng));
            macro_rules! cmp {
                ($name:expr, $f:ident (res $(, $arg:expr)*)) => {{
                    let (mut r, mut t) = (x.clone(), x.clone());
                    <FFT64Ref as ReimArith>::$f(&mut r $(, $arg)*);
                    <FFT64Avx as ReimArith>::$f(&mut t $(, $arg)*);
                    assert!(bits_eq(&r, &t), "{} len={len}\n x={x:?}\n a={a:?}\n b={b:?}\n ref={r:?}\n avx={t:?}", $name);
                }};
            }
            cmp!("reim_add", reim_add(res, &a, &b));
            cmp!("reim_add_assign", reim_add_assign(res, &a));
            cmp!("reim_sub", reim_sub(res, &a, &b));
            cmp!("reim_sub_assign", reim_sub_assign(res, &a));
            cmp!("reim_sub_negate_assign", reim_sub_negate_assign(res, &a));
            cmp!("reim_negate", reim_negate(res, &a));
            cmp!("reim_negate_assign", reim_negate_assign(res));
            cmp!("reim_copy", reim_copy(res, &a));
            cmp!("reim_zero", reim_zero(res));
        }
    }
}

#[test]
fn block_moves() {
    let mut rng = Rng(4);
    // reim4 blocks: m = n/2 complex points, blocks of 4
    for m in [4usize, 8, 16, 32] {
        for rows in [1usize, 2, 3, 5] {
            let src: Vec<f64> = (0..2 * m * rows).map(|_| rng.i64(40) as f64).collect();
            for blk in 0..m / 4 {
                let (mut r, mut t) = (vec![0.5f64; 8 * rows], vec![0.5f64; 8 * rows]);
                <FFT64Ref as Reim4BlkMatVec>::reim4_extract_1blk_contiguous(m, rows, blk, &mut r, &src);
                <FFT64Avx as Reim4BlkMatVec>::reim4_extract_1blk_contiguous(m, rows, blk, &mut t, &src);
                assert!(bits_eq(&r, &t), "reim4_extract_1blk_contiguous m={m} rows={rows} blk={blk}");
                let blkdata: Vec<f64> = (0..8 * rows).map(|_| rng.i64(40) as f64).collect();
                let dirty: Vec<f64> = (0..2 * m * rows).map(|_| rng.i64(30) as f64).collect();
                let (mut r, mut t) = (dirty.clone(), dirty.clone());
                <FFT64Ref as Reim4BlkMatVec>::reim4_save_1blk_contiguous(m, rows, blk, &mut r, &blkdata);
                <FFT64Avx as Reim4BlkMatVec>::reim4_save_1blk_contiguous(m, rows, blk, &mut t, &blkdata);
                assert!(bits_eq(&r, &t), "reim4_save_1blk_contiguous m={m} rows={rows} blk={blk}");
                let (mut r, mut t) = (dirty[..2 * m].to_vec(), dirty[..2 * m].to_vec());
                <FFT64Ref as Reim4BlkMatVec>::reim4_save_1blk::<true>(m, blk, &mut r, &blkdata);
                <FFT64Avx as Reim4BlkMatVec>::reim4_save_1blk::<true>(m, blk, &mut t, &blkdata);
                assert!(bits_eq(&r, &t), "reim4_save_1blk<true> m={m} blk={blk}");
                <FFT64Ref as Reim4BlkMatVec>::reim4_save_1blk::<false>(m, blk, &mut r, &blkdata);
                <FFT64Avx as Reim4BlkMatVec>::reim4_save_1blk::<false>(m, blk, &mut t, &blkdata);
                assert!(bits_eq(&r, &t), "reim4_save_1blk<false> m={m} blk={blk}");
            }
        }
    }
    // i64 blocks of 8 coefficients
    for n in [8usize, 16, 64] {
        for rows in [1usize, 2, 3, 5] {
            for cols in [1usize, 2] {
                let stride = n * cols;
                let src: Vec<i64> = (0..stride * rows).map(|_| rng.i64(64)).collect();
                for col in 0..cols {
                    for blk in 0..n / 8 {
                        let (mut r, mut t) = (vec![5i64; 8 * rows], vec![5i64; 8 * rows]);
                        <FFT64Ref as I64Ops>::i64_extract_1blk_contiguous(stride, n * col, rows, blk, &mut r, &src);
                        <FFT64Avx as I64Ops>::i64_extract_1blk_contiguous(stride, n * col, rows, blk, &mut t, &src);
                        assert_eq!(r, t, "i64_extract_1blk_contiguous n={n} rows={rows} col={col} blk={blk}");
                        let blkdata: Vec<i64> = (0..8 * rows).map(|_| rng.i64(64)).collect();
                        let dirty: Vec<i64> = (0..stride * rows).map(|_| rng.i64(64)).collect();
                        let (mut r, mut t) = (dirty.clone(), dirty.clone());
                        <FFT64Ref as I64Ops>::i64_save_1blk_contiguous(stride, n * col, rows, blk, &mut r, &blkdata);
                        <FFT64Avx as I64Ops>::i64_save_1blk_contiguous(stride, n * col, rows, blk, &mut t, &blkdata);
                        assert_eq!(r, t, "i64_save_1blk_contiguous n={n} rows={rows} col={col} blk={blk}");
                    }
                }
            }
        }
    }
}

/// by-constant integer convolution kernels on operands that fit in i32 (the range the AVX kernel documents);
/// wider operands are covered by tests/c10_defect_cnv_by_const.rs
#[test]
fn i64_convolution_by_const_i32_operands() {
    let mut rng = Rng(5);
    for a_size in 1..=5usize {
        for b_size in 1..=5usize {
            for _ in 0..20 {
                let a: Vec<i64> = (0..8 * a_size).map(|_| rng.i64(32)).collect();
                let b: Vec<i64> = (0..b_size).map(|_| rng.i64(32)).collect();
                for k in 0..a_size + b_size + 2 {
                    let (mut r, mut t) = ([1i64; 8], [2i64; 8]);
                    <FFT64Ref as I64Ops>::i64_convolution_by_const_1coeff(k, &mut r, &a, a_size, &b);
                    <FFT64Avx as I64Ops>::i64_convolution_by_const_1coeff(k, &mut t, &a, a_size, &b);
                    assert_eq!(r, t, "1coeff k={k} a_size={a_size} b_size={b_size}");
                    let (mut r, mut t) = ([1i64; 16], [2i64; 16]);
                    <FFT64Ref as I64Ops>::i64_convolution_by_const_2coeffs(k, &mut r, &a, a_size, &b);
                    <FFT64Avx as I64Ops>::i64_convolution_by_const_2coeffs(k, &mut t, &a, a_size, &b);
                    assert_eq!(r, t, "2coeffs k={k} a_size={a_size} b_size={b_size}");
                }
            }
        }
    }
}
