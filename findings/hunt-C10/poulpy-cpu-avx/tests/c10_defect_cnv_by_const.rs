//! C10 defect reproduction: `cnv_by_const_apply` on `FFT64Avx` truncates every limb of `a` and every constant of
//! `b` to its low 32 bits (`_mm256_mul_epi32` / `*b_ptr as i32` in
//! poulpy-cpu-avx/src/fft64/convolution.rs), whereas `FFT64Ref` (and both NTT120 backends) multiply the full
//! 64-bit values (`wrapping_mul`, poulpy-cpu-ref/src/reference/fft64/convolution.rs:401-425).
//!
//! The operation is pure integer arithmetic (no FFT involved) so there is no floating-point magnitude domain to
//! hide behind: the exact product fits comfortably in the i64 result limb in every case below.
#![cfg(feature = "enable-avx")]

use poulpy_cpu_avx::{FFT64Avx, NTT120Avx};
use poulpy_cpu_ref::{FFT64Ref, NTT120Ref};
use poulpy_hal::{
    api::*,
    layouts::{DeviceBuf, Module, ScratchOwned, VecZnx, VecZnxBig, ZnxView, ZnxViewMut},
};

/// exact negacyclic "by constant" bivariate convolution, limb `k` of the result = sum_{i+j=k} a_i * b_j
fn oracle(n: usize, a: &VecZnx<Vec<u8>>, a_col: usize, b: &[i64], res_size: usize, cnv_offset: usize) -> Vec<Vec<i128>> {
    use poulpy_hal::layouts::ZnxInfos;
    let mut out = vec![vec![0i128; n]; res_size];
    for (k, limb) in out.iter_mut().enumerate() {
        let kk = k + cnv_offset;
        for i in 0..a.size() {
            if kk >= i && kk - i < b.len() {
                for x in 0..n {
                    limb[x] += a.at(a_col, i)[x] as i128 * b[kk - i] as i128;
                }
            }
        }
    }
    out
}

fn run_fft64(n: usize, a: &VecZnx<Vec<u8>>, b: &[i64], res_size: usize, cnv_offset: usize) -> (Vec<Vec<i64>>, Vec<Vec<i64>>) {
    let mr = Module::<FFT64Ref>::new(n as u64);
    let mt = Module::<FFT64Avx>::new(n as u64);
    let mut sr = ScratchOwned::<FFT64Ref>::alloc(1 << 16);
    let mut st = ScratchOwned::<FFT64Avx>::alloc(1 << 16);
    let mut rr: VecZnxBig<DeviceBuf<FFT64Ref>, FFT64Ref> = mr.vec_znx_big_alloc(1, res_size);
    let mut rt: VecZnxBig<DeviceBuf<FFT64Avx>, FFT64Avx> = mt.vec_znx_big_alloc(1, res_size);
    mr.cnv_by_const_apply(cnv_offset, &mut rr, 0, a, 0, b, sr.borrow());
    mt.cnv_by_const_apply(cnv_offset, &mut rt, 0, a, 0, b, st.borrow());
    (
        (0..res_size).map(|l| rr.at(0, l).to_vec()).collect(),
        (0..res_size).map(|l| rt.at(0, l).to_vec()).collect(),
    )
}

/// Smallest failing input: N = 8, one limb, a = 2^31 (constant polynomial), b = [1].
#[test]
fn fft64_minimal_a_does_not_fit_i32() {
    let n = 8;
    let mut a: VecZnx<Vec<u8>> = VecZnx::alloc(n, 1, 1);
    a.at_mut(0, 0)[0] = 1i64 << 31;
    let b = [1i64];
    let (r, t) = run_fft64(n, &a, &b, 1, 0);
    let want = oracle(n, &a, 0, &b, 1, 0);
    eprintln!("a[0]=2^31, b=[1]: exact={:?} FFT64Ref={:?} FFT64Avx={:?}", want[0][0], r[0][0], t[0][0]);
    assert_eq!(r[0][0] as i128, want[0][0], "reference is exact");
    assert_eq!(r, t, "FFT64Avx differs from FFT64Ref");
}

/// Same with the constant: a = 1, b = [2^32] -> FFT64Avx returns 0.
#[test]
fn fft64_minimal_b_does_not_fit_i32() {
    let n = 8;
    let mut a: VecZnx<Vec<u8>> = VecZnx::alloc(n, 1, 1);
    a.at_mut(0, 0)[0] = 1;
    let b = [1i64 << 32];
    let (r, t) = run_fft64(n, &a, &b, 1, 0);
    let want = oracle(n, &a, 0, &b, 1, 0);
    eprintln!("a[0]=1, b=[2^32]: exact={:?} FFT64Ref={:?} FFT64Avx={:?}", want[0][0], r[0][0], t[0][0]);
    assert_eq!(r[0][0] as i128, want[0][0], "reference is exact");
    assert_eq!(r, t, "FFT64Avx differs from FFT64Ref");
}

struct Xs(u64);
impl Xs {
    fn next(&mut self) -> u64 {
        let mut x = self.0;
        x ^= x << 13;
        x ^= x >> 7;
        x ^= x << 17;
        self.0 = x;
        x
    }
}

/// Sweep of operand widths: locates the threshold (first width at which the backends disagree) and checks the
/// reference against the exact integer model whenever the exact result fits in i64.
#[test]
fn fft64_width_sweep() {
    let mut rng = Xs(99);
    let mut first_bad: Option<(u32, u32)> = None;
    let mut bad = 0;
    let mut total = 0;
    for n in [8usize, 16, 64] {
        for a_bits in 2..=62u32 {
            for b_bits in [2u32, 17, 31, 32, 33, 40] {
                if a_bits + b_bits > 61 {
                    continue; // keep 3 limbs of products inside i64
                }
                let (a_size, b_size, res_size) = (3usize, 2usize, 4usize);
                let mut a: VecZnx<Vec<u8>> = VecZnx::alloc(n, 1, a_size);
                for l in 0..a_size {
                    for x in a.at_mut(0, l).iter_mut() {
                        *x = (rng.next() as i64) >> (64 - a_bits);
                    }
                }
                let b: Vec<i64> = (0..b_size).map(|_| (rng.next() as i64) >> (64 - b_bits)).collect();
                for cnv_offset in 0..3 {
                    let (r, t) = run_fft64(n, &a, &b, res_size, cnv_offset);
                    let want = oracle(n, &a, 0, &b, res_size, cnv_offset);
                    for l in 0..res_size {
                        for x in 0..n {
                            assert_eq!(r[l][x] as i128, want[l][x], "reference vs exact model n={n} a_bits={a_bits} b_bits={b_bits}");
                        }
                    }
                    total += 1;
                    if r != t {
                        bad += 1;
                        if first_bad.is_none() {
                            first_bad = Some((a_bits, b_bits));
                        }
                    }
                }
            }
        }
    }
    eprintln!("fft64 cnv_by_const_apply width sweep: {bad}/{total} cases differ; first at (a_bits, b_bits)={first_bad:?}");
    assert_eq!(bad, 0);
}

/// Sibling: the NTT120 pair agrees on the same inputs (i128 accumulation on both sides).
#[test]
fn ntt120_sibling_agrees() {
    let mut rng = Xs(7);
    for n in [2usize, 8, 64] {
        let mr = Module::<NTT120Ref>::new(n as u64);
        let mt = Module::<NTT120Avx>::new(n as u64);
        let mut sr = ScratchOwned::<NTT120Ref>::alloc(1 << 18);
        let mut st = ScratchOwned::<NTT120Avx>::alloc(1 << 18);
        for a_bits in [2u32, 31, 32, 33, 50, 60, 64] {
            for b_bits in [2u32, 31, 32, 33, 50, 60] {
                let (a_size, b_size, res_size) = (3usize, 2usize, 4usize);
                let mut a: VecZnx<Vec<u8>> = VecZnx::alloc(n, 1, a_size);
                for l in 0..a_size {
                    for x in a.at_mut(0, l).iter_mut() {
                        *x = (rng.next() as i64) >> (64 - a_bits);
                    }
                }
                let b: Vec<i64> = (0..b_size).map(|_| (rng.next() as i64) >> (64 - b_bits)).collect();
                for cnv_offset in 0..3 {
                    let mut rr: VecZnxBig<DeviceBuf<NTT120Ref>, NTT120Ref> = mr.vec_znx_big_alloc(1, res_size);
                    let mut rt: VecZnxBig<DeviceBuf<NTT120Avx>, NTT120Avx> = mt.vec_znx_big_alloc(1, res_size);
                    mr.cnv_by_const_apply(cnv_offset, &mut rr, 0, &a, 0, &b, sr.borrow());
                    mt.cnv_by_const_apply(cnv_offset, &mut rt, 0, &a, 0, &b, st.borrow());
                    let want = oracle(n, &a, 0, &b, res_size, cnv_offset);
                    for l in 0..res_size {
                        assert_eq!(rr.at(0, l), rt.at(0, l), "ntt120 n={n} a_bits={a_bits} b_bits={b_bits} limb={l}");
                        assert_eq!(rr.at(0, l), &want[l][..], "ntt120 ref vs exact n={n} a_bits={a_bits} b_bits={b_bits} limb={l}");
                    }
                }
            }
        }
    }
}
