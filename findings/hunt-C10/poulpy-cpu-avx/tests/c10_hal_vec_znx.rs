//! C10: vec_znx HAL family, reference vs AVX backend, bit for bit, through the public `poulpy_hal::api`.
//!
//! N in {1,2,4,8,16,64,256} (FFT64 modules start at N=2), limb counts 1..=5 chosen independently for
//! res / a / b, three columns with distinct column indices, in-place and out-of-place forms, dirty outputs,
//! dirty scratch, limb values over the whole i64 range (release build; 62-bit in debug builds because the
//! reference kernels use checked `+`), cross-radix normalisation and every shift amount.
#![cfg(feature = "enable-avx")]
#![allow(clippy::too_many_arguments)]

use poulpy_hal::{
    api::*,
    layouts::{Module, NoiseInfos, ScalarZnx, ScratchOwned, VecZnx, ZnxInfos, ZnxView, ZnxViewMut},
    source::Source,
};
use rand_core::Rng;

pub struct Xs(pub u64);
impl Xs {
    pub fn next(&mut self) -> u64 {
        let mut x = self.0;
        x ^= x << 13;
        x ^= x >> 7;
        x ^= x << 17;
        self.0 = x;
        x
    }
    /// signed value of `bits` bits, with boundary values injected
    pub fn val(&mut self, bits: u32) -> i64 {
        let r = self.next();
        let sh = 64 - bits;
        match r & 15 {
            0 => (i64::MAX) >> sh,
            1 => (i64::MIN) >> sh,
            2 => 0,
            3 => -1,
            4 => 1,
            5 => ((i64::MAX) >> sh) - 1,
            6 => ((i64::MIN) >> sh) + 1,
            _ => (self.next() as i64) >> sh,
        }
    }
}

pub fn rand_vec_znx(rng: &mut Xs, n: usize, cols: usize, size: usize, bits: u32) -> VecZnx<Vec<u8>> {
    let mut v: VecZnx<Vec<u8>> = VecZnx::alloc(n, cols, size);
    for c in 0..cols {
        for l in 0..size {
            for x in v.at_mut(c, l).iter_mut() {
                *x = rng.val(bits);
            }
        }
    }
    v
}

pub fn rand_scalar_znx(rng: &mut Xs, n: usize, cols: usize, bits: u32) -> ScalarZnx<Vec<u8>> {
    let mut v: ScalarZnx<Vec<u8>> = ScalarZnx::alloc(n, cols);
    for c in 0..cols {
        for x in v.at_mut(c, 0).iter_mut() {
            *x = rng.val(bits);
        }
    }
    v
}

/// Compares every (col, limb) slice; returns a description of the first difference.
pub fn diff_vec_znx(a: &VecZnx<Vec<u8>>, b: &VecZnx<Vec<u8>>) -> Option<String> {
    assert_eq!((a.n(), a.cols(), a.size()), (b.n(), b.cols(), b.size()));
    for c in 0..a.cols() {
        for l in 0..a.size() {
            if a.at(c, l) != b.at(c, l) {
                return Some(format!("col {c} limb {l}: ref={:?} avx={:?}", a.at(c, l), b.at(c, l)));
            }
        }
    }
    None
}

/// value width usable without tripping the reference's debug overflow checks
pub fn wide_bits() -> u32 {
    if cfg!(debug_assertions) { 62 } else { 64 }
}

macro_rules! family {
    ($modname:ident, $BR:ty, $BT:ty, $ns:expr) => {
        mod $modname {
            use super::*;
            type BR = $BR;
            type BT = $BT;

            struct Ctx {
                n: usize,
                mr: Module<BR>,
                mt: Module<BT>,
                sr: ScratchOwned<BR>,
                st: ScratchOwned<BT>,
                fails: Vec<String>,
                checked: usize,
            }

            impl Ctx {
                fn new(n: usize) -> Self {
                    Self {
                        n,
                        mr: Module::<BR>::new(n as u64),
                        mt: Module::<BT>::new(n as u64),
                        sr: ScratchOwned::<BR>::alloc(1 << 16),
                        st: ScratchOwned::<BT>::alloc(1 << 16),
                        fails: Vec::new(),
                        checked: 0,
                    }
                }
                fn dirty_scratch(&mut self, rng: &mut Xs) {
                    // identical garbage on both sides
                    let r: &mut [u8] = self.sr.data.as_mut();
                    let t: &mut [u8] = self.st.data.as_mut();
                    for (x, y) in r.iter_mut().zip(t.iter_mut()).take(64 * self.n + 512) {
                        let b = rng.next() as u8;
                        *x = b;
                        *y = b;
                    }
                }
                fn check(&mut self, what: &str, r: &VecZnx<Vec<u8>>, t: &VecZnx<Vec<u8>>) {
                    self.checked += 1;
                    if let Some(d) = diff_vec_znx(r, t) {
                        if self.fails.len() < 25 {
                            self.fails.push(format!("n={} {what}: {d}", self.n));
                        } else {
                            self.fails.push(String::new());
                        }
                    }
                }
                fn finish(self, name: &str) -> (usize, Vec<String>) {
                    let _ = name;
                    (self.checked, self.fails)
                }
            }

            /// expands `$body` once per backend
            macro_rules! both {
                ($ctx:ident, $rr:ident, $rt:ident, |$m:ident, $s:ident, $res:ident| $body:expr) => {{
                    {
                        let $m = &$ctx.mr;
                        #[allow(unused_variables)]
                        let $s = $ctx.sr.borrow();
                        let $res = &mut $rr;
                        $body;
                    }
                    {
                        let $m = &$ctx.mt;
                        #[allow(unused_variables)]
                        let $s = $ctx.st.borrow();
                        let $res = &mut $rt;
                        $body;
                    }
                }};
            }

            fn report(name: &str, total: usize, fails: Vec<String>) {
                eprintln!("{} {name}: {total} comparisons, {} mismatches", stringify!($modname), fails.len());
                for f in fails.iter().filter(|f| !f.is_empty()) {
                    let f: String = f.chars().take(1500).collect();
                    eprintln!("  MISMATCH {f}");
                }
                assert!(fails.is_empty(), "{name}: {} mismatches", fails.len());
                assert!(total > 0);
            }

            #[test]
            fn arithmetic_and_permutations() {
                let mut rng = Xs(0x1234_5678_9abc_def1);
                let mut total = 0;
                let mut fails = Vec::new();
                let bits = wide_bits();
                for &n in $ns.iter() {
                    let mut ctx = Ctx::new(n);
                    let sizes: &[usize] = if n <= 16 { &[1, 2, 3, 4, 5] } else { &[1, 3, 5] };
                    for &rs in sizes {
                        for &asz in sizes {
                            for &bs in sizes {
                                let cols = 3;
                                let a = rand_vec_znx(&mut rng, n, cols, asz, bits);
                                let b = rand_vec_znx(&mut rng, n, cols, bs, bits);
                                let sc = rand_scalar_znx(&mut rng, n, cols, bits);
                                let res0 = rand_vec_znx(&mut rng, n, cols, rs, bits); // dirty output / in-place operand
                                let (rc, ac, bc) = ((rs + asz) % 3, (asz + 1) % 3, (bs + 2) % 3);
                                ctx.dirty_scratch(&mut rng);

                                macro_rules! op {
                                    ($name:expr, |$m:ident, $s:ident, $res:ident| $body:expr) => {{
                                        let mut rr = res0.clone();
                                        let mut rt = res0.clone();
                                        both!(ctx, rr, rt, |$m, $s, $res| $body);
                                        ctx.check(&format!("{} rs={rs} as={asz} bs={bs} rc={rc} ac={ac} bc={bc}", $name), &rr, &rt);
                                    }};
                                }

                                op!("add_into", |m, s, r| m.vec_znx_add_into(r, rc, &a, ac, &b, bc));
                                op!("sub", |m, s, r| m.vec_znx_sub(r, rc, &a, ac, &b, bc));
                                if bs == sizes[0] {
                                    op!("add_assign", |m, s, r| m.vec_znx_add_assign(r, rc, &a, ac));
                                    op!("sub_assign", |m, s, r| m.vec_znx_sub_assign(r, rc, &a, ac));
                                    op!("sub_negate_assign", |m, s, r| m.vec_znx_sub_negate_assign(r, rc, &a, ac));
                                    op!("negate", |m, s, r| m.vec_znx_negate(r, rc, &a, ac));
                                    op!("copy", |m, s, r| m.vec_znx_copy(r, rc, &a, ac));
                                    for p in [0i64, 1, -1, 3, n as i64 - 1, n as i64, n as i64 + 1, 2 * n as i64 - 1, 2 * n as i64, -(2 * n as i64) - 3, i64::MAX, i64::MIN + 1] {
                                        op!(format!("rotate p={p}"), |m, s, r| m.vec_znx_rotate(p, r, rc, &a, ac));
                                        op!(format!("mul_xp_minus_one p={p}"), |m, s, r| m.vec_znx_mul_xp_minus_one(p, r, rc, &a, ac));
                                        if asz == sizes[0] {
                                            op!(format!("rotate_assign p={p}"), |m, s, r| m.vec_znx_rotate_assign(p, r, rc, s));
                                            op!(format!("mul_xp_minus_one_assign p={p}"), |m, s, r| m.vec_znx_mul_xp_minus_one_assign(p, r, rc, s));
                                        }
                                        if p & 1 == 1 {
                                            op!(format!("automorphism p={p}"), |m, s, r| m.vec_znx_automorphism(p, r, rc, &a, ac));
                                            if asz == sizes[0] {
                                                op!(format!("automorphism_assign p={p}"), |m, s, r| m.vec_znx_automorphism_assign(p, r, rc, s));
                                            }
                                        }
                                    }
                                    // scalar forms: limb index must be inside min(res, b) / res
                                    for limb in 0..rs.min(asz) {
                                        op!(format!("add_scalar_into limb={limb}"), |m, s, r| m.vec_znx_add_scalar_into(r, rc, &sc, bc, &a, ac, limb));
                                        op!(format!("sub_scalar limb={limb}"), |m, s, r| m.vec_znx_sub_scalar(r, rc, &sc, bc, &a, ac, limb));
                                    }
                                    if asz == sizes[0] {
                                        op!("negate_assign", |m, s, r| m.vec_znx_negate_assign(r, rc));
                                        op!("zero", |m, s, r| m.vec_znx_zero(r, rc));
                                        for limb in 0..rs {
                                            op!(format!("add_scalar_assign limb={limb}"), |m, s, r| m.vec_znx_add_scalar_assign(r, rc, limb, &sc, bc));
                                            op!(format!("sub_scalar_assign limb={limb}"), |m, s, r| m.vec_znx_sub_scalar_assign(r, rc, limb, &sc, bc));
                                        }
                                    }
                                }
                            }
                        }
                    }
                    let (c, f) = ctx.finish("arith");
                    total += c;
                    fails.extend(f);
                }
                report("arithmetic_and_permutations", total, fails);
            }

            #[test]
            fn ring_switch_split_merge() {
                let mut rng = Xs(0x0fed_cba9_8765_4321);
                let mut total = 0;
                let mut fails = Vec::new();
                // module degree is irrelevant for switch_ring (degrees come from the operands) but use each N anyway
                for &n in $ns.iter() {
                    let mut ctx = Ctx::new(n);
                    for log_in in 0..=8usize {
                        for log_out in 0..=8usize {
                            let (n_in, n_out) = (1usize << log_in, 1usize << log_out);
                            for (rs, asz) in [(1usize, 1usize), (2, 3), (3, 2), (5, 5)] {
                                let a = rand_vec_znx(&mut rng, n_in, 2, asz, 64);
                                let res0 = rand_vec_znx(&mut rng, n_out, 2, rs, 64);
                                let mut rr = res0.clone();
                                let mut rt = res0.clone();
                                both!(ctx, rr, rt, |m, s, r| m.vec_znx_switch_ring(r, 1, &a, 0));
                                ctx.check(&format!("switch_ring n_in={n_in} n_out={n_out} rs={rs} as={asz}"), &rr, &rt);
                            }
                        }
                    }
                    // split / merge: parts of degree n_small, big of degree n (module degree = big degree)
                    for log_small in 0..=8usize {
                        let n_small = 1usize << log_small;
                        if n_small >= n {
                            continue;
                        }
                        let parts = n / n_small;
                        for (rs, asz) in [(1usize, 1usize), (2, 3), (3, 2), (4, 4)] {
                            ctx.dirty_scratch(&mut rng);
                            // split
                            let a = rand_vec_znx(&mut rng, n, 2, asz, wide_bits());
                            let res0: Vec<VecZnx<Vec<u8>>> = (0..parts).map(|_| rand_vec_znx(&mut rng, n_small, 2, rs, wide_bits())).collect();
                            let mut rr = res0.clone();
                            let mut rt = res0.clone();
                            both!(ctx, rr, rt, |m, s, r| m.vec_znx_split_ring(&mut r[..], 1, &a, 0, s));
                            for i in 0..parts {
                                ctx.check(&format!("split_ring n_small={n_small} part={i} rs={rs} as={asz}"), &rr[i], &rt[i]);
                            }
                            // merge
                            let a: Vec<VecZnx<Vec<u8>>> = (0..parts).map(|_| rand_vec_znx(&mut rng, n_small, 2, asz, wide_bits())).collect();
                            let res0 = rand_vec_znx(&mut rng, n, 2, rs, wide_bits());
                            let mut rr = res0.clone();
                            let mut rt = res0.clone();
                            both!(ctx, rr, rt, |m, s, r| m.vec_znx_merge_rings(r, 1, &a[..], 0, s));
                            ctx.check(&format!("merge_rings n_small={n_small} rs={rs} as={asz}"), &rr, &rt);
                        }
                    }
                    let (c, f) = ctx.finish("ring");
                    total += c;
                    fails.extend(f);
                }
                report("ring_switch_split_merge", total, fails);
            }

            #[test]
            fn normalize_and_shifts() {
                let mut rng = Xs(0x5151_aaaa_7777_0001);
                let mut total = 0;
                let mut fails = Vec::new();
                for &n in $ns.iter() {
                    let mut ctx = Ctx::new(n);
                    let sizes: &[usize] = if n <= 16 { &[1, 2, 3, 5] } else { &[1, 4] };
                    let bases: &[usize] = if n <= 16 { &[1, 2, 7, 12, 17, 31, 50, 62, 63] } else { &[3, 17, 52] };
                    for &rs in sizes {
                        for &asz in sizes {
                            // input widths: normalised digits (+1 bit), mid, and the widest the build supports
                            for &a_base in bases {
                                for in_bits in [a_base as u32, (a_base as u32 + 9).min(62), wide_bits()] {
                                    let in_bits = in_bits.max(1);
                                    let a = rand_vec_znx(&mut rng, n, 2, asz, in_bits);
                                    let res0 = rand_vec_znx(&mut rng, n, 2, rs, if cfg!(debug_assertions) { 40 } else { 64 });
                                    ctx.dirty_scratch(&mut rng);

                                    macro_rules! op {
                                        ($name:expr, |$m:ident, $s:ident, $res:ident| $body:expr) => {{
                                            let mut rr = res0.clone();
                                            let mut rt = res0.clone();
                                            both!(ctx, rr, rt, |$m, $s, $res| $body);
                                            ctx.check(&format!("{} rs={rs} as={asz} a_base2k={a_base} in_bits={in_bits}", $name), &rr, &rt);
                                        }};
                                    }

                                    // The reference panics in debug builds when carries overflow: only feed
                                    // wide inputs in release builds, or inputs that cannot overflow.
                                    let safe = !cfg!(debug_assertions) || in_bits <= 62 - 1;
                                    if !safe {
                                        continue;
                                    }

                                    // same radix, every offset in [-(a_size+1)*base, (a_size+1)*base] on a coarse+fine grid
                                    let span = ((asz.max(rs) + 1) * a_base) as i64;
                                    let mut offs: Vec<i64> = vec![0, 1, -1, a_base as i64, -(a_base as i64), a_base as i64 - 1, -(a_base as i64) + 1, a_base as i64 + 1, -(a_base as i64) - 1, span, -span, span + 3, -span - 3];
                                    for _ in 0..4 {
                                        offs.push((rng.next() % (2 * span as u64 + 1)) as i64 - span);
                                    }
                                    offs.sort();
                                    offs.dedup();
                                    for &off in &offs {
                                        op!(format!("normalize(same radix) off={off}"), |m, s, r| m.vec_znx_normalize(r, a_base, off, 1, &a, a_base, 0, s));
                                    }
                                    // cross radix
                                    for &r_base in bases {
                                        if r_base == a_base {
                                            continue;
                                        }
                                        for &off in offs.iter().step_by(3) {
                                            op!(format!("normalize(cross) res_base2k={r_base} off={off}"), |m, s, r| m.vec_znx_normalize(r, r_base, off, 1, &a, a_base, 0, s));
                                        }
                                    }
                                    if asz == sizes[0] {
                                        // in-place normalisation of the (dirty) res itself
                                        let res_in = rand_vec_znx(&mut rng, n, 2, rs, in_bits);
                                        let mut rr = res_in.clone();
                                        let mut rt = res_in.clone();
                                        both!(ctx, rr, rt, |m, s, r| m.vec_znx_normalize_assign(a_base, r, 1, s));
                                        ctx.check(&format!("normalize_assign rs={rs} base2k={a_base} in_bits={in_bits}"), &rr, &rt);
                                    }

                                    // shifts: every k up to past the whole object
                                    let kmax = (asz.max(rs) + 1) * a_base + 1;
                                    let ks: Vec<usize> = if kmax <= 40 { (0..=kmax).collect() } else {
                                        let mut v = vec![0, 1, a_base - 1, a_base, a_base + 1, 2 * a_base - 1, 2 * a_base, kmax - 1, kmax];
                                        for _ in 0..4 { v.push((rng.next() as usize) % (kmax + 1)); }
                                        v.sort(); v.dedup(); v
                                    };
                                    for &k in &ks {
                                        op!(format!("lsh k={k}"), |m, s, r| m.vec_znx_lsh(a_base, k, r, 1, &a, 0, s));
                                        op!(format!("rsh k={k}"), |m, s, r| m.vec_znx_rsh(a_base, k, r, 1, &a, 0, s));
                                        op!(format!("lsh_add_into k={k}"), |m, s, r| m.vec_znx_lsh_add_into(a_base, k, r, 1, &a, 0, s));
                                        op!(format!("rsh_add_into k={k}"), |m, s, r| m.vec_znx_rsh_add_into(a_base, k, r, 1, &a, 0, s));
                                        op!(format!("lsh_sub k={k}"), |m, s, r| m.vec_znx_lsh_sub(a_base, k, r, 1, &a, 0, s));
                                        op!(format!("rsh_sub k={k}"), |m, s, r| m.vec_znx_rsh_sub(a_base, k, r, 1, &a, 0, s));
                                        if asz == sizes[0] {
                                            let res_in = rand_vec_znx(&mut rng, n, 2, rs, in_bits);
                                            let mut rr = res_in.clone();
                                            let mut rt = res_in.clone();
                                            both!(ctx, rr, rt, |m, s, r| m.vec_znx_lsh_assign(a_base, k, r, 1, s));
                                            ctx.check(&format!("lsh_assign rs={rs} base2k={a_base} k={k} in_bits={in_bits}"), &rr, &rt);
                                            let mut rr = res_in.clone();
                                            let mut rt = res_in.clone();
                                            both!(ctx, rr, rt, |m, s, r| m.vec_znx_rsh_assign(a_base, k, r, 1, s));
                                            ctx.check(&format!("rsh_assign rs={rs} base2k={a_base} k={k} in_bits={in_bits}"), &rr, &rt);
                                        }
                                    }
                                }
                            }
                        }
                    }
                    let (c, f) = ctx.finish("norm");
                    total += c;
                    fails.extend(f);
                }
                report("normalize_and_shifts", total, fails);
            }

            #[test]
            fn sampling_same_seed_same_stream() {
                let mut total = 0;
                let mut fails = Vec::new();
                let mut rng = Xs(77);
                for &n in $ns.iter() {
                    let mut ctx = Ctx::new(n);
                    for size in 1..=4usize {
                        for base2k in [1usize, 12, 17, 50, 63] {
                            let seed = [(n as u8) ^ (size as u8) ^ (base2k as u8); 32];
                            let res0 = rand_vec_znx(&mut rng, n, 2, size, 30);
                            // uniform
                            {
                                let (mut sr, mut st) = (Source::new(seed), Source::new(seed));
                                let (mut rr, mut rt) = (res0.clone(), res0.clone());
                                ctx.mr.vec_znx_fill_uniform(base2k, &mut rr, 1, &mut sr);
                                ctx.mt.vec_znx_fill_uniform(base2k, &mut rt, 1, &mut st);
                                ctx.check(&format!("fill_uniform size={size} base2k={base2k}"), &rr, &rt);
                                if sr.next_u64() != st.next_u64() {
                                    ctx.fails.push(format!("n={n} fill_uniform size={size} base2k={base2k}: random stream consumed differently"));
                                }
                            }
                            for k in [1usize, base2k, base2k + 1, size * base2k] {
                                if k == 0 || k > size * base2k {
                                    continue;
                                }
                                for (sigma, bound) in [(3.2f64, 19.2f64), (1.0, 1.0), (1e6, 6e6)] {
                                    let ni = NoiseInfos::new(k, sigma, bound).unwrap();
                                    // keep bound * 2^(limb alignment) inside i64 (larger values are rejected/overflow in the shared reference)
                                    if bound * ni.target_limb_and_scale(base2k).1 > (1u64 << 60) as f64 {
                                        continue;
                                    }
                                    let (mut sr, mut st) = (Source::new(seed), Source::new(seed));
                                    let (mut rr, mut rt) = (res0.clone(), res0.clone());
                                    ctx.mr.vec_znx_fill_normal(base2k, &mut rr, 1, ni, &mut sr);
                                    ctx.mt.vec_znx_fill_normal(base2k, &mut rt, 1, ni, &mut st);
                                    ctx.check(&format!("fill_normal size={size} base2k={base2k} k={k} sigma={sigma}"), &rr, &rt);
                                    if sr.next_u64() != st.next_u64() {
                                        ctx.fails.push(format!("n={n} fill_normal: random stream consumed differently"));
                                    }
                                    let (mut sr, mut st) = (Source::new(seed), Source::new(seed));
                                    let (mut rr, mut rt) = (res0.clone(), res0.clone());
                                    ctx.mr.vec_znx_add_normal(base2k, &mut rr, 1, ni, &mut sr);
                                    ctx.mt.vec_znx_add_normal(base2k, &mut rt, 1, ni, &mut st);
                                    ctx.check(&format!("add_normal size={size} base2k={base2k} k={k} sigma={sigma}"), &rr, &rt);
                                    if sr.next_u64() != st.next_u64() {
                                        ctx.fails.push(format!("n={n} add_normal: random stream consumed differently"));
                                    }
                                }
                            }
                        }
                    }
                    let (c, f) = ctx.finish("sampling");
                    total += c;
                    fails.extend(f);
                }
                report("sampling_same_seed_same_stream", total, fails);
            }
        }
    };
}

family!(fft64, poulpy_cpu_ref::FFT64Ref, poulpy_cpu_avx::FFT64Avx, [2usize, 4, 8, 16, 64, 256]);
family!(ntt120, poulpy_cpu_ref::NTT120Ref, poulpy_cpu_avx::NTT120Avx, [1usize, 2, 4, 8, 16, 64, 256]);
