//! C10 (edge of the FFT64 magnitude domain): the f64 -> i64 rounding at the end of the inverse DFT differs between
//! FFT64Ref and FFT64Avx for exactly representable ODD integers in [2^52, 2^53).
//!
//! Reference: `(a * (1/m)).round() as i64` (poulpy-cpu-ref/src/reference/fft64/reim/conversion.rs:44-53).
//! AVX: `a += sign(a) * m/2` in floating point, then the mantissa is truncated
//! (poulpy-cpu-avx/src/fft64/reim/conversion.rs:186-262 and 269-340). For |a/m| in [2^52, 2^53) the addition of
//! one half is a tie and rounds to even, so every odd value is bumped to the next even one.
//!
//! Reaching it through the public HAL: constant polynomials have an exact forward and inverse transform on both
//! backends (all butterflies add/subtract equal values or zeros), so the sum of a few in-range DFTs is exact.
#![cfg(feature = "enable-avx")]

use poulpy_cpu_avx::FFT64Avx;
use poulpy_cpu_ref::FFT64Ref;
use poulpy_hal::{
    api::*,
    layouts::{DeviceBuf, Module, ScratchOwned, VecZnx, VecZnxBig, VecZnxDft, ZnxView, ZnxViewMut},
};

fn run(n: usize, terms: &[i64]) -> (Vec<i64>, Vec<i64>, Vec<i64>, Vec<i64>) {
    let mr = Module::<FFT64Ref>::new(n as u64);
    let mt = Module::<FFT64Avx>::new(n as u64);
    let mut sr = ScratchOwned::<FFT64Ref>::alloc(1 << 16);
    let mut st = ScratchOwned::<FFT64Avx>::alloc(1 << 16);
    let mut acc_r: VecZnxDft<DeviceBuf<FFT64Ref>, FFT64Ref> = mr.vec_znx_dft_alloc(1, 1);
    let mut acc_t: VecZnxDft<DeviceBuf<FFT64Avx>, FFT64Avx> = mt.vec_znx_dft_alloc(1, 1);
    mr.vec_znx_dft_zero(&mut acc_r, 0);
    mt.vec_znx_dft_zero(&mut acc_t, 0);
    for &c in terms {
        assert!(c.abs() < (1 << 50), "every forward transform input is inside the documented |x| < 2^50 domain");
        let mut a: VecZnx<Vec<u8>> = VecZnx::alloc(n, 1, 1);
        a.at_mut(0, 0)[0] = c;
        let mut tr: VecZnxDft<DeviceBuf<FFT64Ref>, FFT64Ref> = mr.vec_znx_dft_alloc(1, 1);
        let mut tt: VecZnxDft<DeviceBuf<FFT64Avx>, FFT64Avx> = mt.vec_znx_dft_alloc(1, 1);
        mr.vec_znx_dft_apply(1, 0, &mut tr, 0, &a, 0);
        mt.vec_znx_dft_apply(1, 0, &mut tt, 0, &a, 0);
        mr.vec_znx_dft_add_assign(&mut acc_r, 0, &tr, 0);
        mt.vec_znx_dft_add_assign(&mut acc_t, 0, &tt, 0);
    }
    // the two accumulated DFT vectors are bit-identical
    let raw_r: Vec<u64> = acc_r.raw().iter().map(|x: &f64| x.to_bits()).collect();
    let raw_t: Vec<u64> = acc_t.raw().iter().map(|x: &f64| x.to_bits()).collect();
    assert_eq!(raw_r, raw_t, "DFT-domain inputs of the inverse transform are identical on both backends");

    let mut br: VecZnxBig<DeviceBuf<FFT64Ref>, FFT64Ref> = mr.vec_znx_big_alloc(1, 1);
    let mut bt: VecZnxBig<DeviceBuf<FFT64Avx>, FFT64Avx> = mt.vec_znx_big_alloc(1, 1);
    mr.vec_znx_idft_apply(&mut br, 0, &acc_r, 0, sr.borrow());
    mt.vec_znx_idft_apply(&mut bt, 0, &acc_t, 0, st.borrow());
    let (r1, t1) = (br.at(0, 0).to_vec(), bt.at(0, 0).to_vec());
    // consume form (in-place f64 -> i64 conversion kernel)
    let br = mr.vec_znx_idft_apply_consume(acc_r);
    let bt = mt.vec_znx_idft_apply_consume(acc_t);
    (r1, t1, br.at(0, 0).to_vec(), bt.at(0, 0).to_vec())
}

#[test]
fn idft_of_exact_odd_integer_above_2p52() {
    let c = (1i64 << 50) - 1;
    for n in [8usize, 16, 64, 256] {
        // 4 * (2^50 - 1) + 5 = 2^52 + 1
        let terms = [c, c, c, c, 5];
        let want: i64 = terms.iter().sum();
        let (r, t, rc, tc) = run(n, &terms);
        eprintln!("n={n} want={want} idft_apply: ref={} avx={}   idft_apply_consume: ref={} avx={}", r[0], t[0], rc[0], tc[0]);
        assert_eq!(r[0], want, "reference is exact");
        assert!(r[1..].iter().all(|&x| x == 0));
        assert_eq!(r, t, "vec_znx_idft_apply: FFT64Avx differs from FFT64Ref (n={n})");
        assert_eq!(rc, tc, "vec_znx_idft_apply_consume: FFT64Avx differs from FFT64Ref (n={n})");
    }
}

/// Below 2^52 the same construction agrees (control).
#[test]
fn idft_of_exact_integers_below_2p52_agrees() {
    let c = (1i64 << 50) - 1;
    for n in [8usize, 16, 64, 256] {
        for terms in [vec![c, c, c, 7], vec![c, c, c, c - 5], vec![-c, -c, -c, -(c - 6)], vec![c], vec![3]] {
            let want: i64 = terms.iter().sum();
            let (r, t, rc, tc) = run(n, &terms);
            assert_eq!(r[0], want);
            assert_eq!(r, t);
            assert_eq!(rc, tc);
        }
    }
}
