//! C10: vec_znx_big / vec_znx_dft / svp / vmp / convolution HAL families, reference vs AVX backend,
//! compared bit for bit in the coefficient domain (VecZnxBig scalars after the inverse transform, or
//! normalised VecZnx), through the public `poulpy_hal::api` only.
//!
//! N in {1,2,4,8,16,64,256} as far as each family admits it (FFT64: N >= 2, FFT64 vmp/cnv: N >= 8 by the
//! library's own assertions), independent limb counts 1..=5 for every operand, 1..=3 columns, in-place and
//! out-of-place forms, dirty outputs and scratch, limb_offset / cnv_offset / step / offset sweeps.
#![cfg(feature = "enable-avx")]
#![allow(clippy::too_many_arguments, clippy::type_complexity)]

use poulpy_hal::{
    api::*,
    layouts::{
        CnvPVecL, CnvPVecR, DeviceBuf, MatZnx, Module, ScalarZnx, ScratchOwned, SvpPPol, VecZnx, VecZnxBig, VecZnxDft, VmpPMat,
        ZnxInfos, ZnxView, ZnxViewMut,
    },
};

pub struct Xs(pub u64);
impl Xs {
    pub fn next(&mut self) -> u64 {
        let mut x = self.0;
        x ^= x << 13;
        x ^= x >> 7;
        x ^= x << 17;
        self.0 = x;
        x
    }
    pub fn val(&mut self, bits: u32) -> i64 {
        let r = self.next();
        let sh = 64 - bits;
        match r & 15 {
            0 => (i64::MAX) >> sh,
            1 => (i64::MIN) >> sh,
            2 => 0,
            3 => -1,
            4 => 1,
            _ => (self.next() as i64) >> sh,
        }
    }
}

pub trait RandBig: Copy + PartialEq + std::fmt::Debug {
    fn rand(rng: &mut Xs, bits: u32) -> Self;
}
impl RandBig for i64 {
    fn rand(rng: &mut Xs, bits: u32) -> Self {
        rng.val(bits.min(64))
    }
}
impl RandBig for i128 {
    fn rand(rng: &mut Xs, bits: u32) -> Self {
        let r = rng.next();
        let sh = 128 - bits;
        match r & 15 {
            0 => i128::MAX >> sh,
            1 => i128::MIN >> sh,
            2 => 0,
            3 => -1,
            4 => (u64::MAX as i128) >> sh.saturating_sub(64),
            5 => (-(1i128 << 63)) >> sh.saturating_sub(64),
            _ => ((((rng.next() as u128) << 64) | rng.next() as u128) as i128) >> sh,
        }
    }
}

pub fn rand_vec_znx(rng: &mut Xs, n: usize, cols: usize, size: usize, bits: u32) -> VecZnx<Vec<u8>> {
    let mut v: VecZnx<Vec<u8>> = VecZnx::alloc(n, cols, size);
    for c in 0..cols {
        for l in 0..size {
            for x in v.at_mut(c, l).iter_mut() {
                *x = rng.val(bits);
            }
        }
    }
    v
}

pub fn diff_vec_znx(a: &VecZnx<Vec<u8>>, b: &VecZnx<Vec<u8>>) -> Option<String> {
    for c in 0..a.cols() {
        for l in 0..a.size() {
            if a.at(c, l) != b.at(c, l) {
                return Some(format!("col {c} limb {l}: ref={:?} avx={:?}", a.at(c, l), b.at(c, l)));
            }
        }
    }
    None
}

macro_rules! family {
    ($modname:ident, $BR:ty, $BT:ty, $big:ty, ns = $ns:expr, big_bits = $big_bits:expr, small_bits = $small_bits:expr, dft_bases = $dft_bases:expr, vmp_min_n = $vmp_min_n:expr) => {
        mod $modname {
            use super::*;
            type BR = $BR;
            type BT = $BT;
            type Big = $big;
            type BigR = VecZnxBig<DeviceBuf<BR>, BR>;
            type BigT = VecZnxBig<DeviceBuf<BT>, BT>;
            type DftR = VecZnxDft<DeviceBuf<BR>, BR>;
            type DftT = VecZnxDft<DeviceBuf<BT>, BT>;

            struct Ctx {
                n: usize,
                mr: Module<BR>,
                mt: Module<BT>,
                sr: ScratchOwned<BR>,
                st: ScratchOwned<BT>,
                fails: Vec<String>,
                checked: usize,
            }

            impl Ctx {
                fn new(n: usize) -> Self {
                    Self {
                        n,
                        mr: Module::<BR>::new(n as u64),
                        mt: Module::<BT>::new(n as u64),
                        sr: ScratchOwned::<BR>::alloc(1 << 20),
                        st: ScratchOwned::<BT>::alloc(1 << 20),
                        fails: Vec::new(),
                        checked: 0,
                    }
                }
                fn dirty_scratch(&mut self, rng: &mut Xs) {
                    let r: &mut [u8] = self.sr.data.as_mut();
                    let t: &mut [u8] = self.st.data.as_mut();
                    for (x, y) in r.iter_mut().zip(t.iter_mut()).take(256 * self.n + 2048) {
                        let b = rng.next() as u8;
                        *x = b;
                        *y = b;
                    }
                }
                fn fail(&mut self, s: String) {
                    if self.fails.len() < 20 {
                        self.fails.push(format!("n={} {s}", self.n));
                    } else {
                        self.fails.push(String::new());
                    }
                }
                fn check_small(&mut self, what: &str, r: &VecZnx<Vec<u8>>, t: &VecZnx<Vec<u8>>) {
                    self.checked += 1;
                    if let Some(d) = diff_vec_znx(r, t) {
                        self.fail(format!("{what}: {d}"));
                    }
                }
                fn check_big(&mut self, what: &str, r: &BigR, t: &BigT) {
                    self.checked += 1;
                    assert_eq!((r.cols(), r.size()), (t.cols(), t.size()));
                    for c in 0..r.cols() {
                        for l in 0..r.size() {
                            let (x, y): (&[Big], &[Big]) = (r.at(c, l), t.at(c, l));
                            if x != y {
                                self.fail(format!("{what}: big col {c} limb {l}: ref={x:?} avx={y:?}"));
                                return;
                            }
                        }
                    }
                }
                /// inverse transform of every column with each backend's own idft, then compare the big scalars
                fn check_dft(&mut self, what: &str, r: &DftR, t: &DftT) {
                    assert_eq!((r.cols(), r.size()), (t.cols(), t.size()));
                    let mut br: BigR = self.mr.vec_znx_big_alloc(r.cols(), r.size());
                    let mut bt: BigT = self.mt.vec_znx_big_alloc(t.cols(), t.size());
                    for c in 0..r.cols() {
                        self.mr.vec_znx_idft_apply(&mut br, c, r, c, self.sr.borrow());
                        self.mt.vec_znx_idft_apply(&mut bt, c, t, c, self.st.borrow());
                    }
                    self.check_big(what, &br, &bt);
                }
                fn mk_big(&self, rng: &mut Xs, cols: usize, size: usize, bits: u32) -> (BigR, BigT) {
                    let mut br: BigR = self.mr.vec_znx_big_alloc(cols, size);
                    let mut bt: BigT = self.mt.vec_znx_big_alloc(cols, size);
                    for c in 0..cols {
                        for l in 0..size {
                            for x in br.at_mut(c, l).iter_mut() {
                                *x = <Big as RandBig>::rand(rng, bits);
                            }
                            let src: Vec<Big> = br.at(c, l).to_vec();
                            bt.at_mut(c, l).copy_from_slice(&src);
                        }
                    }
                    (br, bt)
                }
                /// forward transform of all columns of `v` (step 1, offset 0) into DFT objects of `size` limbs
                fn mk_dft(&self, v: &VecZnx<Vec<u8>>, size: usize) -> (DftR, DftT) {
                    let mut dr: DftR = self.mr.vec_znx_dft_alloc(v.cols(), size);
                    let mut dt: DftT = self.mt.vec_znx_dft_alloc(v.cols(), size);
                    for c in 0..v.cols() {
                        self.mr.vec_znx_dft_apply(1, 0, &mut dr, c, v, c);
                        self.mt.vec_znx_dft_apply(1, 0, &mut dt, c, v, c);
                    }
                    (dr, dt)
                }
            }

            fn report(name: &str, total: usize, fails: Vec<String>) {
                eprintln!("{} {name}: {total} comparisons, {} mismatches", stringify!($modname), fails.len());
                for f in fails.iter().filter(|f| !f.is_empty()).take(12) {
                    let f: String = f.chars().take(1800).collect();
                    eprintln!("  MISMATCH {f}");
                }
                assert!(fails.is_empty(), "{name}: {} mismatches", fails.len());
                assert!(total > 0);
            }

            #[test]
            fn big_arithmetic() {
                let mut rng = Xs(0x600d_cafe_0000_0001);
                let (mut total, mut fails) = (0, Vec::new());
                for &n in $ns.iter() {
                    let mut ctx = Ctx::new(n);
                    let sizes: &[usize] = if n <= 16 { &[1, 2, 3, 5] } else { &[1, 4] };
                    for &rs in sizes {
                        for &asz in sizes {
                            for &bs in sizes {
                                let cols = 3;
                                let (rc, ac, bc) = ((rs + asz) % 3, (asz + 1) % 3, (bs + 2) % 3);
                                let (ar, at) = ctx.mk_big(&mut rng, cols, asz, $big_bits);
                                let (br_, bt_) = ctx.mk_big(&mut rng, cols, bs, $big_bits);
                                let sa = rand_vec_znx(&mut rng, n, cols, asz, $small_bits);
                                let sb = rand_vec_znx(&mut rng, n, cols, bs, $small_bits);
                                ctx.dirty_scratch(&mut rng);
                                let tag = format!("rs={rs} as={asz} bs={bs} rc={rc} ac={ac} bc={bc}");

                                macro_rules! op {
                                    ($name:expr, |$m:ident, $s:ident, $res:ident, $a:ident, $b:ident| $body:expr) => {{
                                        // identical dirty / in-place operand on both sides
                                        let seed = rng.next() | 1;
                                        let (mut rr, mut rt) = ctx.mk_big(&mut Xs(seed), cols, rs, $big_bits);
                                        {
                                            let $m = &ctx.mr;
                                            #[allow(unused_variables)]
                                            let $s = ctx.sr.borrow();
                                            let $res = &mut rr;
                                            #[allow(unused_variables)]
                                            let ($a, $b) = (&ar, &br_);
                                            $body;
                                        }
                                        {
                                            let $m = &ctx.mt;
                                            #[allow(unused_variables)]
                                            let $s = ctx.st.borrow();
                                            let $res = &mut rt;
                                            #[allow(unused_variables)]
                                            let ($a, $b) = (&at, &bt_);
                                            $body;
                                        }
                                        ctx.check_big(&format!("{} {tag}", $name), &rr, &rt);
                                    }};
                                }

                                op!("big_add_into", |m, s, r, a, b| m.vec_znx_big_add_into(r, rc, a, ac, b, bc));
                                op!("big_sub", |m, s, r, a, b| m.vec_znx_big_sub(r, rc, a, ac, b, bc));
                                op!("big_add_small_into", |m, s, r, a, b| m.vec_znx_big_add_small_into(r, rc, a, ac, &sb, bc));
                                op!("big_sub_small_a", |m, s, r, a, b| m.vec_znx_big_sub_small_a(r, rc, &sa, ac, b, bc));
                                op!("big_sub_small_b", |m, s, r, a, b| m.vec_znx_big_sub_small_b(r, rc, a, ac, &sb, bc));
                                if bs == sizes[0] {
                                    op!("big_add_assign", |m, s, r, a, b| m.vec_znx_big_add_assign(r, rc, a, ac));
                                    op!("big_sub_assign", |m, s, r, a, b| m.vec_znx_big_sub_assign(r, rc, a, ac));
                                    op!("big_sub_negate_assign", |m, s, r, a, b| m.vec_znx_big_sub_negate_assign(r, rc, a, ac));
                                    op!("big_add_small_assign", |m, s, r, a, b| m.vec_znx_big_add_small_assign(r, rc, &sa, ac));
                                    op!("big_sub_small_assign", |m, s, r, a, b| m.vec_znx_big_sub_small_assign(r, rc, &sa, ac));
                                    op!("big_sub_small_negate_assign", |m, s, r, a, b| m.vec_znx_big_sub_small_negate_assign(r, rc, &sa, ac));
                                    op!("big_negate", |m, s, r, a, b| m.vec_znx_big_negate(r, rc, a, ac));
                                    op!("big_from_small", |m, s, r, a, b| m.vec_znx_big_from_small(r, rc, &sa, ac));
                                    for p in [1i64, -1, 3, 5, -5, 2 * n as i64 - 1, 2 * n as i64 + 1, -(2 * n as i64) - 3, i64::MAX, i64::MIN + 1] {
                                        op!(format!("big_automorphism p={p}"), |m, s, r, a, b| m.vec_znx_big_automorphism(p, r, rc, a, ac));
                                        if asz == sizes[0] {
                                            op!(format!("big_automorphism_assign p={p}"), |m, s, r, a, b| m.vec_znx_big_automorphism_assign(p, r, rc, s));
                                        }
                                    }
                                    if asz == sizes[0] {
                                        op!("big_negate_assign", |m, s, r, a, b| m.vec_znx_big_negate_assign(r, rc));
                                    }
                                }
                            }
                        }
                    }
                    total += ctx.checked;
                    fails.extend(ctx.fails);
                }
                report("big_arithmetic", total, fails);
            }

            #[test]
            fn big_add_normal_same_seed_same_stream() {
                use poulpy_hal::{layouts::NoiseInfos, source::Source};
                use rand_core::Rng;
                let mut rng = Xs(0x600d_cafe_0000_0007);
                let (mut total, mut fails) = (0, Vec::new());
                for &n in $ns.iter() {
                    let mut ctx = Ctx::new(n);
                    for size in 1..=4usize {
                        for base2k in [12usize, 17, 50] {
                            for k in [1usize, base2k, base2k + 1, size * base2k] {
                                if k > size * base2k {
                                    continue;
                                }
                                for (sigma, bound) in [(3.2f64, 19.2f64), (1.0, 1.0), (1e6, 6e6)] {
                                    let ni = NoiseInfos::new(k, sigma, bound).unwrap();
                                    if bound * ni.target_limb_and_scale(base2k).1 > (1u64 << 60) as f64 {
                                        continue;
                                    }
                                    let seed = [(n + size + base2k + k) as u8; 32];
                                    let (mut sr, mut st) = (Source::new(seed), Source::new(seed));
                                    let (mut br, mut bt) = ctx.mk_big(&mut rng, 2, size, 40);
                                    ctx.mr.vec_znx_big_add_normal(base2k, &mut br, 1, ni, &mut sr);
                                    ctx.mt.vec_znx_big_add_normal(base2k, &mut bt, 1, ni, &mut st);
                                    ctx.check_big(&format!("big_add_normal size={size} base2k={base2k} k={k} sigma={sigma}"), &br, &bt);
                                    if sr.next_u64() != st.next_u64() {
                                        ctx.fail("big_add_normal: random stream consumed differently".to_string());
                                    }
                                }
                            }
                        }
                    }
                    total += ctx.checked;
                    fails.extend(ctx.fails);
                }
                report("big_add_normal_same_seed_same_stream", total, fails);
            }

            #[test]
            fn big_normalize() {
                let mut rng = Xs(0x600d_cafe_0000_0002);
                let (mut total, mut fails) = (0, Vec::new());
                for &n in $ns.iter() {
                    let mut ctx = Ctx::new(n);
                    let sizes: &[usize] = if n <= 16 { &[1, 2, 3, 5] } else { &[1, 4] };
                    let bases: &[usize] = if n <= 16 { &[1, 2, 7, 12, 17, 31, 50, 62, 63] } else { &[3, 17, 52] };
                    for &rs in sizes {
                        for &asz in sizes {
                            for &a_base in bases {
                                // big inputs: about two limbs wide (what a product leaves), and the widest the build allows
                                let widths: [u32; 3] = [a_base as u32 + 1, (2 * a_base as u32 + 10).min($big_bits), $big_bits];
                                for in_bits in widths {
                                    // the i64 reference kernels use checked `+` in debug builds: keep one bit of headroom there
                                    let in_bits = if cfg!(debug_assertions) && std::mem::size_of::<Big>() == 8 { in_bits.min(61) } else { in_bits };
                                    let (ar, at) = ctx.mk_big(&mut rng, 2, asz, in_bits);
                                    let res0 = rand_vec_znx(&mut rng, n, 2, rs, if cfg!(debug_assertions) { 40 } else { 64 });
                                    ctx.dirty_scratch(&mut rng);

                                    macro_rules! op {
                                        ($name:expr, |$m:ident, $s:ident, $res:ident, $a:ident| $body:expr) => {{
                                            let (mut rr, mut rt) = (res0.clone(), res0.clone());
                                            {
                                                let $m = &ctx.mr;
                                                let $s = ctx.sr.borrow();
                                                let $res = &mut rr;
                                                let $a = &ar;
                                                $body;
                                            }
                                            {
                                                let $m = &ctx.mt;
                                                let $s = ctx.st.borrow();
                                                let $res = &mut rt;
                                                let $a = &at;
                                                $body;
                                            }
                                            ctx.check_small(&format!("{} rs={rs} as={asz} a_base2k={a_base} in_bits={in_bits}", $name), &rr, &rt);
                                        }};
                                    }

                                    let span = ((asz.max(rs) + 1) * a_base) as i64;
                                    let mut offs: Vec<i64> = vec![0, 1, -1, a_base as i64, -(a_base as i64), a_base as i64 - 1, -(a_base as i64) + 1, a_base as i64 + 1, -(a_base as i64) - 1, span, -span, span + 3, -span - 3];
                                    for _ in 0..3 {
                                        offs.push((rng.next() % (2 * span as u64 + 1)) as i64 - span);
                                    }
                                    offs.sort();
                                    offs.dedup();
                                    for &off in &offs {
                                        op!(format!("big_normalize off={off}"), |m, s, r, a| m.vec_znx_big_normalize(r, a_base, off, 1, a, a_base, 0, s));
                                        op!(format!("big_normalize_add_assign off={off}"), |m, s, r, a| m.vec_znx_big_normalize_add_assign(r, a_base, off, 1, a, a_base, 0, s));
                                        op!(format!("big_normalize_sub_assign off={off}"), |m, s, r, a| m.vec_znx_big_normalize_sub_assign(r, a_base, off, 1, a, a_base, 0, s));
                                        op!(format!("big_normalize_negate off={off}"), |m, s, r, a| m.vec_znx_big_normalize_negate(r, a_base, off, 1, a, a_base, 0, s));
                                    }
                                    for &r_base in bases {
                                        if r_base == a_base {
                                            continue;
                                        }
                                        for &off in offs.iter().step_by(3) {
                                            op!(format!("big_normalize(cross) res_base2k={r_base} off={off}"), |m, s, r, a| m.vec_znx_big_normalize(r, r_base, off, 1, a, a_base, 0, s));
                                            op!(format!("big_normalize_add_assign(cross) res_base2k={r_base} off={off}"), |m, s, r, a| m.vec_znx_big_normalize_add_assign(r, r_base, off, 1, a, a_base, 0, s));
                                            op!(format!("big_normalize_sub_assign(cross) res_base2k={r_base} off={off}"), |m, s, r, a| m.vec_znx_big_normalize_sub_assign(r, r_base, off, 1, a, a_base, 0, s));
                                        }
                                    }
                                }
                            }
                        }
                    }
                    total += ctx.checked;
                    fails.extend(ctx.fails);
                }
                report("big_normalize", total, fails);
            }

            #[test]
            fn dft_transforms_and_arithmetic() {
                let mut rng = Xs(0x600d_cafe_0000_0003);
                let (mut total, mut fails) = (0, Vec::new());
                for &n in $ns.iter() {
                    let mut ctx = Ctx::new(n);
                    let sizes: &[usize] = if n <= 16 { &[1, 2, 3, 5] } else { &[1, 4] };
                    for &base2k in $dft_bases.iter() {
                        let bits = base2k as u32;
                        for &rs in sizes {
                            for &asz in sizes {
                                let a = rand_vec_znx(&mut rng, n, 3, asz, bits);
                                let (ac, rc) = ((asz + 1) % 3, (rs + asz) % 3);
                                // forward transform with every (step, offset), all three inverse forms
                                for step in 1..=3usize {
                                    for offset in 0..=step {
                                        let dirty = rand_vec_znx(&mut rng, n, 3, rs, bits);
                                        let (mut dr, mut dt) = ctx.mk_dft(&dirty, rs);
                                        ctx.mr.vec_znx_dft_apply(step, offset, &mut dr, rc, &a, ac);
                                        ctx.mt.vec_znx_dft_apply(step, offset, &mut dt, rc, &a, ac);
                                        ctx.check_dft(&format!("dft_apply step={step} offset={offset} rs={rs} as={asz} base2k={base2k}"), &dr, &dt);
                                        // idft_apply_tmpa into a big of another size
                                        for bsz in [1usize, rs, rs + 1] {
                                            let (mut br, mut bt) = ctx.mk_big(&mut rng, 3, bsz, 20);
                                            let (mut d2r, mut d2t) = ctx.mk_dft(&dirty, rs);
                                            ctx.mr.vec_znx_dft_apply(step, offset, &mut d2r, rc, &a, ac);
                                            ctx.mt.vec_znx_dft_apply(step, offset, &mut d2t, rc, &a, ac);
                                            ctx.mr.vec_znx_idft_apply_tmpa(&mut br, ac, &mut d2r, rc);
                                            ctx.mt.vec_znx_idft_apply_tmpa(&mut bt, ac, &mut d2t, rc);
                                            ctx.check_big(&format!("idft_apply_tmpa big_size={bsz} rs={rs} as={asz} base2k={base2k}"), &br, &bt);
                                            let (mut br, mut bt) = ctx.mk_big(&mut rng, 3, bsz, 20);
                                            ctx.dirty_scratch(&mut rng);
                                            ctx.mr.vec_znx_idft_apply(&mut br, ac, &dr, rc, ctx.sr.borrow());
                                            ctx.mt.vec_znx_idft_apply(&mut bt, ac, &dt, rc, ctx.st.borrow());
                                            ctx.check_big(&format!("idft_apply big_size={bsz} rs={rs} as={asz} base2k={base2k}"), &br, &bt);
                                        }
                                        let br: BigR = ctx.mr.vec_znx_idft_apply_consume(dr);
                                        let bt: BigT = ctx.mt.vec_znx_idft_apply_consume(dt);
                                        ctx.check_big(&format!("idft_apply_consume step={step} offset={offset} rs={rs} as={asz} base2k={base2k}"), &br, &bt);
                                    }
                                }
                                // DFT-domain arithmetic
                                for &bs in sizes {
                                    let b = rand_vec_znx(&mut rng, n, 3, bs, bits);
                                    let bc = (bs + 2) % 3;
                                    let (adr, adt) = ctx.mk_dft(&a, asz);
                                    let (bdr, bdt) = ctx.mk_dft(&b, bs);
                                    let res0 = rand_vec_znx(&mut rng, n, 3, rs, bits);
                                    macro_rules! op {
                                        ($name:expr, |$m:ident, $res:ident, $a:ident, $b:ident| $body:expr) => {{
                                            let (mut rr, mut rt) = ctx.mk_dft(&res0, rs);
                                            {
                                                let $m = &ctx.mr;
                                                let $res = &mut rr;
                                                #[allow(unused_variables)]
                                                let ($a, $b) = (&adr, &bdr);
                                                $body;
                                            }
                                            {
                                                let $m = &ctx.mt;
                                                let $res = &mut rt;
                                                #[allow(unused_variables)]
                                                let ($a, $b) = (&adt, &bdt);
                                                $body;
                                            }
                                            ctx.check_dft(&format!("{} rs={rs} as={asz} bs={bs} base2k={base2k}", $name), &rr, &rt);
                                        }};
                                    }
                                    op!("dft_add_into", |m, r, a, b| m.vec_znx_dft_add_into(r, rc, a, ac, b, bc));
                                    op!("dft_sub", |m, r, a, b| m.vec_znx_dft_sub(r, rc, a, ac, b, bc));
                                    if bs == sizes[0] {
                                        op!("dft_add_assign", |m, r, a, b| m.vec_znx_dft_add_assign(r, rc, a, ac));
                                        op!("dft_sub_assign", |m, r, a, b| m.vec_znx_dft_sub_assign(r, rc, a, ac));
                                        op!("dft_sub_negate_assign", |m, r, a, b| m.vec_znx_dft_sub_negate_assign(r, rc, a, ac));
                                        op!("dft_zero", |m, r, a, b| m.vec_znx_dft_zero(r, rc));
                                        for scale in [-3i64, -1, 0, 1, 2, 5] {
                                            op!(format!("dft_add_scaled_assign scale={scale}"), |m, r, a, b| m.vec_znx_dft_add_scaled_assign(r, rc, a, ac, scale));
                                        }
                                        for step in 1..=3usize {
                                            for offset in 0..=step {
                                                op!(format!("dft_copy step={step} offset={offset}"), |m, r, a, b| m.vec_znx_dft_copy(step, offset, r, rc, a, ac));
                                            }
                                        }
                                    }
                                }
                            }
                        }
                    }
                    total += ctx.checked;
                    fails.extend(ctx.fails);
                }
                report("dft_transforms_and_arithmetic", total, fails);
            }

            #[test]
            fn svp() {
                let mut rng = Xs(0x600d_cafe_0000_0004);
                let (mut total, mut fails) = (0, Vec::new());
                for &n in $ns.iter() {
                    let mut ctx = Ctx::new(n);
                    let sizes: &[usize] = if n <= 16 { &[1, 2, 3, 5] } else { &[1, 4] };
                    for &base2k in $dft_bases.iter() {
                        let bits = base2k as u32;
                        // scalar operand: ternary-like and full-digit
                        for sbits in [2u32, bits] {
                            let mut sc: ScalarZnx<Vec<u8>> = ScalarZnx::alloc(n, 3);
                            for c in 0..3 {
                                for x in sc.at_mut(c, 0).iter_mut() {
                                    *x = rng.val(sbits);
                                }
                            }
                            let mut pr: SvpPPol<DeviceBuf<BR>, BR> = ctx.mr.svp_ppol_alloc(3);
                            let mut pt: SvpPPol<DeviceBuf<BT>, BT> = ctx.mt.svp_ppol_alloc(3);
                            for c in 0..3 {
                                // prepared column (c+1)%3 <- scalar column c
                                ctx.mr.svp_prepare(&mut pr, (c + 1) % 3, &sc, c);
                                ctx.mt.svp_prepare(&mut pt, (c + 1) % 3, &sc, c);
                            }
                            for &rs in sizes {
                                for &asz in sizes {
                                    let a = rand_vec_znx(&mut rng, n, 3, asz, bits);
                                    let res0 = rand_vec_znx(&mut rng, n, 3, rs, bits);
                                    let (adr, adt) = ctx.mk_dft(&a, asz);
                                    let (rc, pc, ac) = ((rs + asz) % 3, (asz + 1) % 3, (rs + 2) % 3);
                                    let tag = format!("rs={rs} as={asz} base2k={base2k} sbits={sbits} rc={rc} pc={pc} ac={ac}");

                                    let (mut rr, mut rt) = ctx.mk_dft(&res0, rs);
                                    ctx.mr.svp_apply_dft(&mut rr, rc, &pr, pc, &a, ac);
                                    ctx.mt.svp_apply_dft(&mut rt, rc, &pt, pc, &a, ac);
                                    ctx.check_dft(&format!("svp_apply_dft {tag}"), &rr, &rt);

                                    let (mut rr, mut rt) = ctx.mk_dft(&res0, rs);
                                    ctx.mr.svp_apply_dft_to_dft(&mut rr, rc, &pr, pc, &adr, ac);
                                    ctx.mt.svp_apply_dft_to_dft(&mut rt, rc, &pt, pc, &adt, ac);
                                    ctx.check_dft(&format!("svp_apply_dft_to_dft {tag}"), &rr, &rt);

                                    if asz == sizes[0] {
                                        let (mut rr, mut rt) = ctx.mk_dft(&res0, rs);
                                        ctx.mr.svp_apply_dft_to_dft_assign(&mut rr, rc, &pr, pc);
                                        ctx.mt.svp_apply_dft_to_dft_assign(&mut rt, rc, &pt, pc);
                                        ctx.check_dft(&format!("svp_apply_dft_to_dft_assign {tag}"), &rr, &rt);
                                    }
                                }
                            }
                        }
                    }
                    total += ctx.checked;
                    fails.extend(ctx.fails);
                }
                report("svp", total, fails);
            }

            #[test]
            fn vmp() {
                let mut rng = Xs(0x600d_cafe_0000_0005);
                let (mut total, mut fails) = (0, Vec::new());
                for &n in $ns.iter().filter(|&&n| n >= $vmp_min_n) {
                    let mut ctx = Ctx::new(n);
                    let small = n <= 16;
                    let rows_l: &[usize] = if small { &[1, 2, 3, 4, 5] } else { &[1, 3] };
                    let psize_l: &[usize] = if small { &[1, 2, 3, 4, 5] } else { &[2, 5] };
                    let asz_l: &[usize] = if small { &[1, 2, 3, 5, 6] } else { &[2, 4] };
                    let rsz_l: &[usize] = if small { &[1, 2, 3, 4, 6] } else { &[3, 6] };
                    for &base2k in $dft_bases.iter() {
                        let bits = base2k as u32;
                        for cols_in in 1..=2usize {
                            for cols_out in 1..=3usize {
                                for &rows in rows_l {
                                    for &psize in psize_l {
                                        let mut mat: MatZnx<Vec<u8>> = MatZnx::alloc(n, rows, cols_in, cols_out, psize);
                                        for r in 0..rows {
                                            for ci in 0..cols_in {
                                                let mut v = mat.at_mut(r, ci);
                                                for co in 0..cols_out {
                                                    for l in 0..psize {
                                                        for x in v.at_mut(co, l).iter_mut() {
                                                            *x = rng.val(bits);
                                                        }
                                                    }
                                                }
                                            }
                                        }
                                        let mut pr: VmpPMat<DeviceBuf<BR>, BR> = ctx.mr.vmp_pmat_alloc(rows, cols_in, cols_out, psize);
                                        let mut pt: VmpPMat<DeviceBuf<BT>, BT> = ctx.mt.vmp_pmat_alloc(rows, cols_in, cols_out, psize);
                                        ctx.dirty_scratch(&mut rng);
                                        ctx.mr.vmp_prepare(&mut pr, &mat, ctx.sr.borrow());
                                        ctx.mt.vmp_prepare(&mut pt, &mat, ctx.st.borrow());
                                        for &asz in asz_l {
                                            let a = rand_vec_znx(&mut rng, n, cols_in, asz, bits);
                                            let (adr, adt) = ctx.mk_dft(&a, asz);
                                            for &rsz in rsz_l {
                                                let res0 = rand_vec_znx(&mut rng, n, cols_out, rsz, bits);
                                                let tag = format!("rows={rows} cols_in={cols_in} cols_out={cols_out} pmat_size={psize} a_size={asz} res_size={rsz} base2k={base2k}");
                                                ctx.dirty_scratch(&mut rng);
                                                let (mut rr, mut rt) = ctx.mk_dft(&res0, rsz);
                                                ctx.mr.vmp_apply_dft(&mut rr, &a, &pr, ctx.sr.borrow());
                                                ctx.mt.vmp_apply_dft(&mut rt, &a, &pt, ctx.st.borrow());
                                                ctx.check_dft(&format!("vmp_apply_dft {tag}"), &rr, &rt);
                                                for limb_offset in 0..=psize.min(rsz) + 1 {
                                                    let (mut rr, mut rt) = ctx.mk_dft(&res0, rsz);
                                                    ctx.mr.vmp_apply_dft_to_dft(&mut rr, &adr, &pr, limb_offset, ctx.sr.borrow());
                                                    ctx.mt.vmp_apply_dft_to_dft(&mut rt, &adt, &pt, limb_offset, ctx.st.borrow());
                                                    ctx.check_dft(&format!("vmp_apply_dft_to_dft limb_offset={limb_offset} {tag}"), &rr, &rt);
                                                }
                                            }
                                        }
                                    }
                                }
                            }
                        }
                    }
                    total += ctx.checked;
                    fails.extend(ctx.fails);
                }
                report("vmp", total, fails);
            }

            #[test]
            fn convolution() {
                let mut rng = Xs(0x600d_cafe_0000_0006);
                let (mut total, mut fails) = (0, Vec::new());
                for &n in $ns.iter().filter(|&&n| n >= $vmp_min_n) {
                    let mut ctx = Ctx::new(n);
                    let small = n <= 16;
                    let sz: &[usize] = if small { &[1, 2, 3, 4, 5] } else { &[2, 5] };
                    for &base2k in $dft_bases.iter() {
                        let bits = base2k as u32;
                        for &asz in sz {
                            for &bsz in sz {
                                let cols = 2;
                                let a = rand_vec_znx(&mut rng, n, cols, asz, bits);
                                let b = rand_vec_znx(&mut rng, n, cols, bsz, bits);
                                for mask in [!0i64, (1i64 << (base2k - 1)).wrapping_sub(1), 0x5555] {
                                    let mut alr: CnvPVecL<DeviceBuf<BR>, BR> = ctx.mr.cnv_pvec_left_alloc(cols, asz);
                                    let mut alt: CnvPVecL<DeviceBuf<BT>, BT> = ctx.mt.cnv_pvec_left_alloc(cols, asz);
                                    let mut brr: CnvPVecR<DeviceBuf<BR>, BR> = ctx.mr.cnv_pvec_right_alloc(cols, bsz);
                                    let mut brt: CnvPVecR<DeviceBuf<BT>, BT> = ctx.mt.cnv_pvec_right_alloc(cols, bsz);
                                    ctx.dirty_scratch(&mut rng);
                                    ctx.mr.cnv_prepare_left(&mut alr, &a, mask, ctx.sr.borrow());
                                    ctx.mt.cnv_prepare_left(&mut alt, &a, mask, ctx.st.borrow());
                                    ctx.mr.cnv_prepare_right(&mut brr, &b, mask, ctx.sr.borrow());
                                    ctx.mt.cnv_prepare_right(&mut brt, &b, mask, ctx.st.borrow());
                                    // self-prepared pair from `a`
                                    let mut slr: CnvPVecL<DeviceBuf<BR>, BR> = ctx.mr.cnv_pvec_left_alloc(cols, asz);
                                    let mut slt: CnvPVecL<DeviceBuf<BT>, BT> = ctx.mt.cnv_pvec_left_alloc(cols, asz);
                                    let mut srr: CnvPVecR<DeviceBuf<BR>, BR> = ctx.mr.cnv_pvec_right_alloc(cols, asz);
                                    let mut srt: CnvPVecR<DeviceBuf<BT>, BT> = ctx.mt.cnv_pvec_right_alloc(cols, asz);
                                    ctx.mr.cnv_prepare_self(&mut slr, &mut srr, &a, mask, ctx.sr.borrow());
                                    ctx.mt.cnv_prepare_self(&mut slt, &mut srt, &a, mask, ctx.st.borrow());

                                    for &rsz in &[1usize, asz + bsz - 1, asz + bsz, asz + bsz + 1] {
                                        let res0 = rand_vec_znx(&mut rng, n, cols, rsz, bits);
                                        for cnv_offset in 0..=(asz + bsz).min(rsz + 1) {
                                            let tag = format!("a_size={asz} b_size={bsz} res_size={rsz} cnv_offset={cnv_offset} mask={mask:#x} base2k={base2k}");
                                            ctx.dirty_scratch(&mut rng);
                                            let (mut rr, mut rt) = ctx.mk_dft(&res0, rsz);
                                            ctx.mr.cnv_apply_dft(cnv_offset, &mut rr, 1, &alr, 0, &brr, 1, ctx.sr.borrow());
                                            ctx.mt.cnv_apply_dft(cnv_offset, &mut rt, 1, &alt, 0, &brt, 1, ctx.st.borrow());
                                            ctx.check_dft(&format!("cnv_apply_dft {tag}"), &rr, &rt);

                                            if asz == bsz {
                                                for (i, j) in [(0usize, 1usize), (1, 1), (1, 0)] {
                                                    let (mut rr, mut rt) = ctx.mk_dft(&res0, rsz);
                                                    ctx.mr.cnv_pairwise_apply_dft(cnv_offset, &mut rr, 0, &alr, &brr, i, j, ctx.sr.borrow());
                                                    ctx.mt.cnv_pairwise_apply_dft(cnv_offset, &mut rt, 0, &alt, &brt, i, j, ctx.st.borrow());
                                                    ctx.check_dft(&format!("cnv_pairwise_apply_dft i={i} j={j} {tag}"), &rr, &rt);
                                                }
                                            }
                                            if bsz == sz[0] {
                                                let (mut rr, mut rt) = ctx.mk_dft(&res0, rsz);
                                                ctx.mr.cnv_apply_dft(cnv_offset, &mut rr, 0, &slr, 1, &srr, 0, ctx.sr.borrow());
                                                ctx.mt.cnv_apply_dft(cnv_offset, &mut rt, 0, &slt, 1, &srt, 0, ctx.st.borrow());
                                                ctx.check_dft(&format!("cnv_apply_dft(self prepared) {tag}"), &rr, &rt);
                                            }
                                            // (the i128 reference accumulator uses checked `+`: 64-bit digits overflow it in debug builds)
                                            if mask == !0i64 && !(cfg!(debug_assertions) && base2k > 60) {
                                                // by-constant convolution: b is one coefficient per limb
                                                let bconst: Vec<i64> = (0..bsz).map(|_| rng.val(bits)).collect();
                                                let (mut gr, mut gt) = ctx.mk_big(&mut rng, cols, rsz, 20);
                                                ctx.mr.cnv_by_const_apply(cnv_offset, &mut gr, 1, &a, 0, &bconst, ctx.sr.borrow());
                                                ctx.mt.cnv_by_const_apply(cnv_offset, &mut gt, 1, &a, 0, &bconst, ctx.st.borrow());
                                                ctx.check_big(&format!("cnv_by_const_apply {tag}"), &gr, &gt);
                                            }
                                        }
                                    }
                                }
                            }
                        }
                    }
                    total += ctx.checked;
                    fails.extend(ctx.fails);
                }
                report("convolution", total, fails);
            }
        }
    };
}

// FFT64: i64 big scalars; reference kernels use checked `+` in debug builds, so 62-bit operands there.
family!(
    fft64,
    poulpy_cpu_ref::FFT64Ref,
    poulpy_cpu_avx::FFT64Avx,
    i64,
    ns = [2usize, 4, 8, 16, 64, 256],
    big_bits = if cfg!(debug_assertions) { 62 } else { 64 },
    small_bits = if cfg!(debug_assertions) { 62 } else { 64 },
    dft_bases = [12usize, 17],
    vmp_min_n = 8
);
// NTT120: i128 big scalars with wrapping reference arithmetic.
family!(
    ntt120,
    poulpy_cpu_ref::NTT120Ref,
    poulpy_cpu_avx::NTT120Avx,
    i128,
    ns = [1usize, 2, 4, 8, 16, 64, 256],
    big_bits = if cfg!(debug_assertions) { 124 } else { 128 },
    small_bits = 64,
    dft_bases = [17usize, 50, 64],
    vmp_min_n = 2
);
