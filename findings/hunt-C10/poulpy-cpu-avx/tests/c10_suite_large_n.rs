//! C10: transform-based families at the ring degrees where the AVX FFT / NTT switch strategy
//! (FFT: m <= 16 hard-coded kernels, m <= 2048 breadth-first, above recursive; NTT: by-block up to 1024, by-level above),
//! using the generic cross-backend tests of `poulpy_hal::test_suite` plus the convolution family.
//! Run with `--release` (debug builds take minutes).
#![cfg(feature = "enable-avx")]

use std::panic::{AssertUnwindSafe, catch_unwind};

use poulpy_cpu_avx::{FFT64Avx, NTT120Avx};
use poulpy_cpu_ref::{FFT64Ref, NTT120Ref};
use poulpy_hal::{
    api::ModuleNew,
    layouts::Module,
    test_suite::{TestParams, svp, vec_znx_big, vec_znx_dft, vmp},
};

macro_rules! run_all {
    ($br:ty, $bt:ty, $ns:expr, $bases:expr, [$($f:path),+ $(,)?]) => {{
        let mut failures: Vec<String> = Vec::new();
        for &n in $ns.iter() {
            let mr = Module::<$br>::new(n as u64);
            let mt = Module::<$bt>::new(n as u64);
            for &base2k in $bases.iter() {
                let params = TestParams { size: n, base2k };
                $(
                    let r = catch_unwind(AssertUnwindSafe(|| { $f(&params, &mr, &mt); }));
                    if r.is_err() {
                        failures.push(format!("{} n={} base2k={}", stringify!($f), n, base2k));
                    }
                )+
            }
        }
        failures
    }};
}

const NS: [usize; 10] = [32, 128, 512, 1024, 2048, 4096, 8192, 16384, 32768, 65536];

macro_rules! fam {
    ($br:ty, $bt:ty, $bases:expr) => {
        run_all!(
            $br,
            $bt,
            NS,
            $bases,
            [
                vec_znx_big::test_vec_znx_big_normalize,
                vec_znx_big::test_vec_znx_big_automorphism,
                vec_znx_dft::test_vec_znx_dft_add_into,
                vec_znx_dft::test_vec_znx_dft_sub,
                vec_znx_dft::test_vec_znx_idft_apply,
                vec_znx_dft::test_vec_znx_idft_apply_consume,
                vec_znx_dft::test_vec_znx_idft_apply_tmpa,
                svp::test_svp_apply_dft,
                svp::test_svp_apply_dft_to_dft,
                svp::test_svp_apply_dft_to_dft_assign,
                vmp::test_vmp_apply_dft,
                vmp::test_vmp_apply_dft_to_dft,
            ]
        )
    };
}

#[test]
fn fft64_large_n() {
    let f = fam!(FFT64Ref, FFT64Avx, [12usize]);
    for x in &f {
        eprintln!("FAIL {x}");
    }
    assert!(f.is_empty());
}

#[test]
fn ntt120_large_n() {
    let f = fam!(NTT120Ref, NTT120Avx, [50usize]);
    for x in &f {
        eprintln!("FAIL {x}");
    }
    assert!(f.is_empty());
}
