//! C10: informational probes used while auditing (they print, and assert nothing beyond sanity):
//! NTT table bit-size bounds, observed range of the lazy NTT outputs on both backends (and their bit-for-bit
//! equality in the lazy representation), and the fused vs unfused cross-radix `normalize_add_assign` of NTT120.
#![cfg(feature = "enable-avx")]
#![allow(unused_imports)]
use poulpy_cpu_avx::{FFT64Avx, NTT120Avx};
use rand_core::Rng;
use poulpy_cpu_ref::{FFT64Ref, NTT120Ref};
use poulpy_hal::{
    api::*,
    layouts::*,
    source::Source,
};

#[test]
fn probe_ntt_bit_sizes() {
    use poulpy_cpu_ref::reference::ntt120::{ntt::{NttTable, NttTableInv}, primes::Primes30};
    for log_n in 0..=16 {
        let n = 1usize << log_n;
        let t = NttTable::<Primes30>::new(n);
        let ti = NttTableInv::<Primes30>::new(n);
        println!("n={n} fwd out bits={} levels={:?}  inv out bits={} ", t.output_bit_size, t.level_metadata.iter().map(|m| (m.bs, m.reduce)).collect::<Vec<_>>(), ti.output_bit_size);
    }
}

#[test]
fn probe_ntt_output_ranges() {
    use poulpy_cpu_ref::reference::ntt120::{ntt::NttTable, primes::Primes30, NttDFTExecute, NttFromZnx64, types::Q_SHIFTED};
    let mut s = 0x1234567u64;
    let mut next = move || { s ^= s << 13; s ^= s >> 7; s ^= s << 17; s };
    for log_n in 0..=11 {
        let n = 1usize << log_n;
        let t = NttTable::<Primes30>::new(n);
        let mut maxr = [0f64; 4];
        let mut maxt = [0f64; 4];
        let mut identical = true;
        for trial in 0..200 {
            let bits = [64u32, 63, 50, 17, 2][trial % 5];
            let x: Vec<i64> = (0..n).map(|i| match trial / 5 % 4 { 0 => (next() as i64) >> (64 - bits), 1 => i64::MAX >> (64 - bits), 2 => i64::MIN >> (64 - bits), _ => if i % 2 == 0 { i64::MAX >> (64-bits) } else { i64::MIN >> (64-bits) } }).collect();
            let mut br = vec![0u64; 4 * n];
            let mut bt = vec![0u64; 4 * n];
            <NTT120Ref as NttFromZnx64>::ntt_from_znx64(&mut br, &x);
            <NTT120Avx as NttFromZnx64>::ntt_from_znx64(&mut bt, &x);
            if br != bt { identical = false; }
            <NTT120Ref as NttDFTExecute<NttTable<Primes30>>>::ntt_dft_execute(&t, &mut br);
            <NTT120Avx as NttDFTExecute<NttTable<Primes30>>>::ntt_dft_execute(&t, &mut bt);
            if br != bt { identical = false; }
            for j in 0..n { for k in 0..4 {
                maxr[k] = maxr[k].max(br[4*j+k] as f64 / Q_SHIFTED[k] as f64);
                maxt[k] = maxt[k].max(bt[4*j+k] as f64 / Q_SHIFTED[k] as f64);
            }}
        }
        println!("n={n} out_bits={} identical_lazy={identical} max/q_s ref={maxr:.3?} avx={maxt:.3?}", t.output_bit_size);
    }
}

#[test]
fn probe_ntt120_fused_cross_radix() {
    // NTT120Ref: add_assign(res, a) vs res + normalize(a), normalised res0 (digits of res_base2k), cross radix
    let n = 2usize;
    let m = Module::<NTT120Ref>::new(n as u64);
    let mf = Module::<FFT64Ref>::new(n as u64);
    let mut s = ScratchOwned::<NTT120Ref>::alloc(1 << 12);
    let mut sf = ScratchOwned::<FFT64Ref>::alloc(1 << 12);
    let mut src = Source::new([5u8; 32]);
    let mut bad_same = 0; let mut bad_cross = 0; let mut bad_cross_fam = 0; let mut tot = 0;
    let mut shown = 0;
    for (rb, ab) in [(12usize, 12usize), (12, 17), (17, 12), (17, 19), (19, 17)] {
        for rs in 1..=3usize { for asz in 1..=3usize { for off in [-5i64, 0, 3] {
            for _ in 0..20 {
                let mut a: VecZnx<Vec<u8>> = VecZnx::alloc(n, 1, asz);
                a.fill_uniform(2 * ab + 4, &mut src);
                let mut big = m.vec_znx_big_alloc(1, asz);
                m.vec_znx_big_from_small(&mut big, 0, &a, 0);
                let mut bigf = mf.vec_znx_big_alloc(1, asz);
                mf.vec_znx_big_from_small(&mut bigf, 0, &a, 0);
                let mut res0: VecZnx<Vec<u8>> = VecZnx::alloc(n, 1, rs);
                res0.fill_uniform(rb, &mut src);
                let mut fused = res0.clone();
                m.vec_znx_big_normalize_add_assign(&mut fused, rb, off, 0, &big, ab, 0, s.borrow());
                let mut norm: VecZnx<Vec<u8>> = VecZnx::alloc(n, 1, rs);
                m.vec_znx_big_normalize(&mut norm, rb, off, 0, &big, ab, 0, s.borrow());
                let mut want = res0.clone();
                for l in 0..rs { for (w, x) in want.at_mut(0, l).iter_mut().zip(norm.at(0, l)) { *w = w.wrapping_add(*x); } }
                let mut fam = res0.clone();
                mf.vec_znx_big_normalize_add_assign(&mut fam, rb, off, 0, &bigf, ab, 0, sf.borrow());
                tot += 1;
                let same = (0..rs).all(|l| fused.at(0, l) == want.at(0, l));
                if !same { if rb == ab { bad_same += 1 } else { bad_cross += 1;
                    if shown < 4 { shown += 1; println!("rb={rb} ab={ab} rs={rs} as={asz} off={off}\n a={a}\n res0={res0}\n fused={fused}\n res0+normalize(a)={want}\n fft64 add_assign={fam}"); } } }
                if (0..rs).any(|l| fused.at(0, l) != fam.at(0, l)) && rb != ab { bad_cross_fam += 1; }
            }
        }}}
    }
    println!("total={tot} ntt120 fused != unfused: same radix {bad_same}, cross radix {bad_cross}; ntt120 fused != fft64 (cross radix) {bad_cross_fam}");
}
