//! C10: run every generic cross-backend test of `poulpy_hal::test_suite` at small ring degrees
//! (N below / at / above the SIMD width) and several radices, FFT64Ref vs FFT64Avx and
//! NTT120Ref vs NTT120Avx.
#![cfg(feature = "enable-avx")]

use std::panic::{AssertUnwindSafe, catch_unwind};

use poulpy_cpu_avx::{FFT64Avx, NTT120Avx};
use poulpy_cpu_ref::{FFT64Ref, NTT120Ref};
use poulpy_hal::{
    api::ModuleNew,
    layouts::Module,
    test_suite::{TestParams, svp, vec_znx, vec_znx_big, vec_znx_dft, vmp},
};

macro_rules! run_all {
    ($br:ty, $bt:ty, $ns:expr, $bases:expr, $vmp_min_n:expr, [$($f:path),+ $(,)?]) => {{
        let mut failures: Vec<String> = Vec::new();
        for &n in $ns.iter() {
            let mr = Module::<$br>::new(n as u64);
            let mt = Module::<$bt>::new(n as u64);
            for &base2k in $bases.iter() {
                let params = TestParams { size: n, base2k };
                $(
                    let r = catch_unwind(AssertUnwindSafe(|| { $f(&params, &mr, &mt); }));
                    if let Err(e) = r {
                        let msg = if let Some(s) = e.downcast_ref::<String>() { s.clone() }
                                  else if let Some(s) = e.downcast_ref::<&str>() { s.to_string() }
                                  else { "?".to_string() };
                        let msg: String = msg.chars().take(300).collect();
                        let name = stringify!($f).replace(' ', "");
                        if excluded(&name, n, &msg, $vmp_min_n) {
                            eprintln!("excluded (input rejected by the library / artefact of the generic test): {name} n={n}: {}", msg.lines().next().unwrap_or(""));
                        } else {
                            failures.push(format!("{} n={} base2k={}: {}", name, n, base2k, msg));
                        }
                    }
                )+
            }
        }
        failures
    }};
}

const NS: [usize; 7] = [1, 2, 4, 8, 16, 64, 256];

/// Cases of the generic suite that cannot be run at tiny ring degrees, for reasons unrelated to the backends:
/// * `switch_ring` / `split_ring` / `merge_rings` at N=1 build operands of degree N/2 = 0;
/// * vmp is rejected by the library's own (debug) assertions below N=8 (FFT64) / N=2 (NTT120); in release builds the
///   kernels then process zero blocks and leave the (differently) dirtied outputs of the generic test untouched;
/// * `test_vec_znx_big_normalize` fills the *whole* byte buffer of the two outputs with different garbage and then
///   compares whole buffers: for N*size*8 < 64 the buffers contain alignment padding that no operation writes
///   (the limbs themselves are equal, see c10_hal_dft.rs::big_normalize which compares limb by limb).
fn excluded(name: &str, n: usize, _msg: &str, vmp_min_n: usize) -> bool {
    (n == 1 && (name.ends_with("switch_ring") || name.ends_with("split_ring") || name.ends_with("merge_rings")))
        || (name.contains("test_vmp_") && n < vmp_min_n)
        || (name.ends_with("test_vec_znx_big_normalize") && n <= 2)
}
// FFT64 modules cannot be built for N = 1 (m = N/2 = 0 underflows in ReimFFTTable::new on both backends).
const NS_FFT: [usize; 6] = [2, 4, 8, 16, 64, 256];

fn report(failures: Vec<String>) {
    for f in &failures {
        eprintln!("FAIL {f}");
    }
    assert!(failures.is_empty(), "{} failures", failures.len());
}

#[test]
fn fft64_vec_znx() {
    let f = run_all!(
        FFT64Ref,
        FFT64Avx,
        NS_FFT,
        [12usize, 17, 50],
        8usize,
        [
            vec_znx::test_vec_znx_add_into,
            vec_znx::test_vec_znx_add_assign,
            vec_znx::test_vec_znx_add_scalar_into,
            vec_znx::test_vec_znx_add_scalar_assign,
            vec_znx::test_vec_znx_sub,
            vec_znx::test_vec_znx_sub_assign,
            vec_znx::test_vec_znx_sub_negate_assign,
            vec_znx::test_vec_znx_sub_scalar,
            vec_znx::test_vec_znx_sub_scalar_assign,
            vec_znx::test_vec_znx_rsh,
            vec_znx::test_vec_znx_rsh_assign,
            vec_znx::test_vec_znx_lsh,
            vec_znx::test_vec_znx_lsh_assign,
            vec_znx::test_vec_znx_negate,
            vec_znx::test_vec_znx_negate_assign,
            vec_znx::test_vec_znx_rotate,
            vec_znx::test_vec_znx_rotate_assign,
            vec_znx::test_vec_znx_automorphism,
            vec_znx::test_vec_znx_automorphism_assign,
            vec_znx::test_vec_znx_mul_xp_minus_one,
            vec_znx::test_vec_znx_mul_xp_minus_one_assign,
            vec_znx::test_vec_znx_normalize,
            vec_znx::test_vec_znx_normalize_assign,
            vec_znx::test_vec_znx_switch_ring,
            vec_znx::test_vec_znx_split_ring,
            vec_znx::test_vec_znx_merge_rings,
            vec_znx::test_vec_znx_copy,
        ]
    );
    report(f);
}

#[test]
fn ntt120_vec_znx() {
    let f = run_all!(
        NTT120Ref,
        NTT120Avx,
        NS,
        [12usize, 50],
        2usize,
        [
            vec_znx::test_vec_znx_add_into,
            vec_znx::test_vec_znx_add_assign,
            vec_znx::test_vec_znx_add_scalar_into,
            vec_znx::test_vec_znx_add_scalar_assign,
            vec_znx::test_vec_znx_sub,
            vec_znx::test_vec_znx_sub_assign,
            vec_znx::test_vec_znx_sub_negate_assign,
            vec_znx::test_vec_znx_sub_scalar,
            vec_znx::test_vec_znx_sub_scalar_assign,
            vec_znx::test_vec_znx_rsh,
            vec_znx::test_vec_znx_rsh_assign,
            vec_znx::test_vec_znx_lsh,
            vec_znx::test_vec_znx_lsh_assign,
            vec_znx::test_vec_znx_negate,
            vec_znx::test_vec_znx_negate_assign,
            vec_znx::test_vec_znx_rotate,
            vec_znx::test_vec_znx_rotate_assign,
            vec_znx::test_vec_znx_automorphism,
            vec_znx::test_vec_znx_automorphism_assign,
            vec_znx::test_vec_znx_mul_xp_minus_one,
            vec_znx::test_vec_znx_mul_xp_minus_one_assign,
            vec_znx::test_vec_znx_normalize,
            vec_znx::test_vec_znx_normalize_assign,
            vec_znx::test_vec_znx_switch_ring,
            vec_znx::test_vec_znx_split_ring,
            vec_znx::test_vec_znx_merge_rings,
            vec_znx::test_vec_znx_copy,
        ]
    );
    report(f);
}

macro_rules! big_dft_svp_vmp {
    ($br:ty, $bt:ty, $ns:expr, $bases:expr, $vmp_min_n:expr) => {
        run_all!(
            $br,
            $bt,
            $ns,
            $bases,
            $vmp_min_n,
            [
                vec_znx_big::test_vec_znx_big_add_into,
                vec_znx_big::test_vec_znx_big_add_assign,
                vec_znx_big::test_vec_znx_big_add_small_into,
                vec_znx_big::test_vec_znx_big_add_small_assign,
                vec_znx_big::test_vec_znx_big_sub,
                vec_znx_big::test_vec_znx_big_sub_assign,
                vec_znx_big::test_vec_znx_big_automorphism,
                vec_znx_big::test_vec_znx_big_automorphism_assign,
                vec_znx_big::test_vec_znx_big_negate,
                vec_znx_big::test_vec_znx_big_negate_assign,
                vec_znx_big::test_vec_znx_big_normalize,
                vec_znx_big::test_vec_znx_big_normalize_fused,
                vec_znx_big::test_vec_znx_big_sub_negate_assign,
                vec_znx_big::test_vec_znx_big_sub_small_a,
                vec_znx_big::test_vec_znx_big_sub_small_a_assign,
                vec_znx_big::test_vec_znx_big_sub_small_b,
                vec_znx_big::test_vec_znx_big_sub_small_b_assign,
                vec_znx_dft::test_vec_znx_dft_add_into,
                vec_znx_dft::test_vec_znx_dft_add_assign,
                vec_znx_dft::test_vec_znx_copy,
                vec_znx_dft::test_vec_znx_dft_sub,
                vec_znx_dft::test_vec_znx_dft_sub_assign,
                vec_znx_dft::test_vec_znx_dft_sub_negate_assign,
                vec_znx_dft::test_vec_znx_idft_apply,
                vec_znx_dft::test_vec_znx_idft_apply_consume,
                vec_znx_dft::test_vec_znx_idft_apply_tmpa,
                svp::test_svp_apply_dft,
                svp::test_svp_apply_dft_to_dft,
                svp::test_svp_apply_dft_to_dft_assign,
                vmp::test_vmp_apply_dft,
                vmp::test_vmp_apply_dft_to_dft,
            ]
        )
    };
}

#[test]
fn fft64_big_dft_svp_vmp() {
    report(big_dft_svp_vmp!(FFT64Ref, FFT64Avx, NS_FFT, [12usize, 17], 8usize));
}

#[test]
fn ntt120_big_dft_svp_vmp() {
    report(big_dft_svp_vmp!(NTT120Ref, NTT120Avx, NS, [12usize, 50], 2usize));
}
