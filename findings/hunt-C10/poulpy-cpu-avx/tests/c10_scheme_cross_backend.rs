//! C10 at the scheme layer: the same program (secret key generation, GLWE / GGSW / key-switching-key encryption,
//! external product, key-switch, decryption) run on a reference backend and on its AVX sibling with equal seeds
//! must produce bit-identical ciphertexts and plaintexts, and must leave the random sources in the same state.
#![cfg(feature = "enable-avx")]

use poulpy_core::{
    EncryptionLayout, GGSWEncryptSk, GLWEDecrypt, GLWEEncryptSk, GLWEExternalProduct, GLWEKeyswitch, GLWESwitchingKeyEncryptSk,
    ScratchTakeCore,
    layouts::{
        GGSW, GGSWInfos, GGSWLayout, GGSWPreparedFactory, GLWE, GLWELayout, GLWEPlaintext, GLWESecret, GLWESecretPreparedFactory,
        GLWESwitchingKey, GLWESwitchingKeyLayout, GLWESwitchingKeyPreparedFactory,
        prepared::{GGSWPrepared, GLWESecretPrepared, GLWESwitchingKeyPrepared},
    },
    test_suite::TestBackend,
};
use poulpy_hal::{
    api::{ModuleNew, ScratchAvailable, ScratchOwnedAlloc, ScratchOwnedBorrow, VecZnxFillUniform},
    layouts::{DeviceBuf, Module, ScalarZnx, Scratch, ScratchOwned, ZnxInfos, ZnxView, ZnxViewMut},
    source::Source,
};
use rand_core::Rng;

/// Everything observable, in the coefficient domain.
#[derive(PartialEq, Debug)]
struct Trace {
    items: Vec<(String, Vec<i64>)>,
}

fn run<BE: TestBackend>(n: usize, base2k: usize, rank: usize, dsize: usize) -> Trace
where
    Module<BE>: ModuleNew<BE>
        + GGSWEncryptSk<BE>
        + GGSWPreparedFactory<BE>
        + VecZnxFillUniform
        + GLWEExternalProduct<BE>
        + GLWEEncryptSk<BE>
        + GLWEDecrypt<BE>
        + GLWEKeyswitch<BE>
        + GLWESwitchingKeyEncryptSk<BE>
        + GLWESwitchingKeyPreparedFactory<BE>
        + GLWESecretPreparedFactory<BE>,
    ScratchOwned<BE>: ScratchOwnedAlloc<BE> + ScratchOwnedBorrow<BE>,
    Scratch<BE>: ScratchAvailable + ScratchTakeCore<BE>,
{
    run_radices::<BE>(n, base2k - 1, base2k, base2k - 2, rank, dsize)
}

fn run_radices<BE: TestBackend>(n: usize, in_base2k: usize, key_base2k: usize, out_base2k: usize, rank: usize, dsize: usize) -> Trace
where
    Module<BE>: ModuleNew<BE>
        + GGSWEncryptSk<BE>
        + GGSWPreparedFactory<BE>
        + VecZnxFillUniform
        + GLWEExternalProduct<BE>
        + GLWEEncryptSk<BE>
        + GLWEDecrypt<BE>
        + GLWEKeyswitch<BE>
        + GLWESwitchingKeyEncryptSk<BE>
        + GLWESwitchingKeyPreparedFactory<BE>
        + GLWESecretPreparedFactory<BE>,
    ScratchOwned<BE>: ScratchOwnedAlloc<BE> + ScratchOwnedBorrow<BE>,
    Scratch<BE>: ScratchAvailable + ScratchTakeCore<BE>,
{
    let module = Module::<BE>::new(n as u64);
    let mut items: Vec<(String, Vec<i64>)> = Vec::new();

    let k_in = 3 * in_base2k + 1;
    let k_key = k_in + key_base2k * dsize;
    let k_out = k_key;
    let dnum = k_in.div_ceil(key_base2k * dsize);

    let glwe_in_infos = EncryptionLayout::new_from_default_sigma(GLWELayout {
        n: n.into(),
        base2k: in_base2k.into(),
        k: k_in.into(),
        rank: rank.into(),
    })
    .unwrap();
    let glwe_out_infos = GLWELayout {
        n: n.into(),
        base2k: out_base2k.into(),
        k: k_out.into(),
        rank: rank.into(),
    };
    let ggsw_infos = EncryptionLayout::new_from_default_sigma(GGSWLayout {
        n: n.into(),
        base2k: key_base2k.into(),
        k: k_key.into(),
        dnum: dnum.into(),
        dsize: dsize.into(),
        rank: rank.into(),
    })
    .unwrap();
    let ksk_infos = EncryptionLayout::new_from_default_sigma(GLWESwitchingKeyLayout {
        n: n.into(),
        base2k: key_base2k.into(),
        k: k_key.into(),
        dnum: dnum.into(),
        dsize: dsize.into(),
        rank_in: rank.into(),
        rank_out: rank.into(),
    })
    .unwrap();

    let mut source_xs = Source::new([1u8; 32]);
    let mut source_xe = Source::new([2u8; 32]);
    let mut source_xa = Source::new([3u8; 32]);

    let mut scratch: ScratchOwned<BE> = ScratchOwned::alloc(
        module.ggsw_encrypt_sk_tmp_bytes(&ggsw_infos)
            | module.glwe_encrypt_sk_tmp_bytes(&glwe_in_infos)
            | module.glwe_external_product_tmp_bytes(&glwe_out_infos, &glwe_in_infos, &ggsw_infos)
            | module.glwe_switching_key_encrypt_sk_tmp_bytes(&ksk_infos)
            | module.glwe_keyswitch_tmp_bytes(&glwe_out_infos, &glwe_in_infos, &ksk_infos)
            | module.glwe_decrypt_tmp_bytes(&glwe_out_infos)
            | (1 << 20),
    );

    // keys
    let mut sk: GLWESecret<Vec<u8>> = GLWESecret::alloc(n.into(), rank.into());
    sk.fill_ternary_prob(0.5, &mut source_xs);
    let mut sk_prep: GLWESecretPrepared<DeviceBuf<BE>, BE> = module.glwe_secret_prepared_alloc(rank.into());
    module.glwe_secret_prepare(&mut sk_prep, &sk);
    let mut sk2: GLWESecret<Vec<u8>> = GLWESecret::alloc(n.into(), rank.into());
    sk2.fill_ternary_prob(0.5, &mut source_xs);
    let mut sk2_prep: GLWESecretPrepared<DeviceBuf<BE>, BE> = module.glwe_secret_prepared_alloc(rank.into());
    module.glwe_secret_prepare(&mut sk2_prep, &sk2);

    // plaintexts
    let mut pt_in: GLWEPlaintext<Vec<u8>> = GLWEPlaintext::alloc_from_infos(&glwe_in_infos);
    module.vec_znx_fill_uniform(in_base2k, &mut pt_in.data, 0, &mut source_xa);
    let mut pt_ggsw: ScalarZnx<Vec<u8>> = ScalarZnx::alloc(n, 1);
    pt_ggsw.raw_mut()[1 % n] = 1;

    // encryptions
    let mut glwe_in: GLWE<Vec<u8>> = GLWE::alloc_from_infos(&glwe_in_infos);
    module.glwe_encrypt_sk(&mut glwe_in, &pt_in, &sk_prep, &glwe_in_infos, &mut source_xe, &mut source_xa, scratch.borrow());
    items.push(("glwe_encrypt_sk".into(), glwe_in.data().raw().to_vec()));

    let mut ggsw: GGSW<Vec<u8>> = GGSW::alloc_from_infos(&ggsw_infos);
    module.ggsw_encrypt_sk(&mut ggsw, &pt_ggsw, &sk_prep, &ggsw_infos, &mut source_xe, &mut source_xa, scratch.borrow());
    for row in 0..ggsw.dnum().as_usize() {
        for col in 0..rank + 1 {
            items.push((format!("ggsw_encrypt_sk[{row},{col}]"), ggsw.at(row, col).data().raw().to_vec()));
        }
    }

    let mut ksk: GLWESwitchingKey<Vec<u8>> = GLWESwitchingKey::alloc_from_infos(&ksk_infos);
    module.glwe_switching_key_encrypt_sk(&mut ksk, &sk, &sk2, &ksk_infos, &mut source_xe, &mut source_xa, scratch.borrow());

    // external product
    let mut ggsw_prep: GGSWPrepared<DeviceBuf<BE>, BE> = module.ggsw_prepared_alloc_from_infos(&ggsw);
    module.ggsw_prepare(&mut ggsw_prep, &ggsw, scratch.borrow());
    let mut glwe_xp: GLWE<Vec<u8>> = GLWE::alloc_from_infos(&glwe_out_infos);
    module.glwe_external_product(&mut glwe_xp, &glwe_in, &ggsw_prep, scratch.borrow());
    items.push(("glwe_external_product".into(), glwe_xp.data().raw().to_vec()));

    let mut pt_xp: GLWEPlaintext<Vec<u8>> = GLWEPlaintext::alloc_from_infos(&glwe_out_infos);
    module.glwe_decrypt(&glwe_xp, &mut pt_xp, &sk_prep, scratch.borrow());
    items.push(("decrypt(external_product)".into(), pt_xp.data.raw().to_vec()));

    // key-switch sk -> sk2
    let mut ksk_prep: GLWESwitchingKeyPrepared<DeviceBuf<BE>, BE> = module.glwe_switching_key_prepared_alloc_from_infos(&ksk);
    module.glwe_switching_key_prepare(&mut ksk_prep, &ksk, scratch.borrow());
    let mut glwe_ks: GLWE<Vec<u8>> = GLWE::alloc_from_infos(&glwe_out_infos);
    module.glwe_keyswitch(&mut glwe_ks, &glwe_in, &ksk_prep, scratch.borrow());
    items.push(("glwe_keyswitch".into(), glwe_ks.data().raw().to_vec()));

    let mut pt_ks: GLWEPlaintext<Vec<u8>> = GLWEPlaintext::alloc_from_infos(&glwe_out_infos);
    module.glwe_decrypt(&glwe_ks, &mut pt_ks, &sk2_prep, scratch.borrow());
    items.push(("decrypt(keyswitch)".into(), pt_ks.data.raw().to_vec()));

    // random streams consumed identically
    items.push((
        "source states".into(),
        vec![source_xs.next_u64() as i64, source_xe.next_u64() as i64, source_xa.next_u64() as i64],
    ));
    let _ = glwe_in.data().n();
    Trace { items }
}

fn compare(name: &str, r: Trace, t: Trace) {
    assert_eq!(r.items.len(), t.items.len());
    for ((nr, vr), (nt, vt)) in r.items.iter().zip(t.items.iter()) {
        assert_eq!(nr, nt);
        assert_eq!(vr, vt, "{name}: `{nr}` differs between the reference and the AVX backend");
    }
}

#[test]
fn fft64_pipeline() {
    for n in [8usize, 16, 64, 256] {
        for rank in 1..=2 {
            for dsize in 1..=2 {
                let r = run::<poulpy_cpu_ref::FFT64Ref>(n, 17, rank, dsize);
                let t = run::<poulpy_cpu_avx::FFT64Avx>(n, 17, rank, dsize);
                compare(&format!("fft64 n={n} rank={rank} dsize={dsize}"), r, t);
            }
        }
    }
}

#[test]
fn ntt120_pipeline() {
    for n in [2usize, 4, 8, 16, 64, 256] {
        for rank in 1..=2 {
            for dsize in 1..=2 {
                for base2k in [17usize, 50] {
                    let r = run::<poulpy_cpu_ref::NTT120Ref>(n, base2k, rank, dsize);
                    let t = run::<poulpy_cpu_avx::NTT120Avx>(n, base2k, rank, dsize);
                    compare(&format!("ntt120 n={n} base2k={base2k} rank={rank} dsize={dsize}"), r, t);
                }
            }
        }
    }
}

fn first_difference(r: &Trace, t: &Trace) -> Option<String> {
    for ((nr, vr), (_, vt)) in r.items.iter().zip(t.items.iter()) {
        if vr != vt {
            let i = (0..vr.len()).find(|&i| vr[i] != vt[i]).unwrap();
            return Some(format!("`{nr}` first differs at index {i}: fft64={} ntt120={}", vr[i], vt[i]));
        }
    }
    None
}

/// Cross-family clause, same radix everywhere and dsize <= 3: FFT64 and NTT120 produce the same ciphertext bits.
#[test]
fn families_agree_same_radix_small_dsize() {
    for n in [8usize, 16, 64] {
        for rank in 1..=2 {
            for dsize in 1..=3 {
                let r = run_radices::<poulpy_cpu_ref::FFT64Ref>(n, 14, 14, 14, rank, dsize);
                let t = run_radices::<poulpy_cpu_ref::NTT120Ref>(n, 14, 14, 14, rank, dsize);
                compare(&format!("fft64 vs ntt120 n={n} rank={rank} dsize={dsize}"), r, t);
            }
        }
    }
}

/// Cross-family clause, dsize = 4: the `vmp_apply_dft_to_dft(limb_offset > 0, res.size() < pmat.size())` window
/// divergence (see tests/c10_cross_family.rs) reaches the external product / key-switch outputs.
#[test]
fn families_agree_same_radix_dsize4() {
    let mut diffs = Vec::new();
    for n in [8usize, 16] {
        let r = run_radices::<poulpy_cpu_ref::FFT64Ref>(n, 10, 10, 10, 1, 4);
        let t = run_radices::<poulpy_cpu_ref::NTT120Ref>(n, 10, 10, 10, 1, 4);
        if let Some(d) = first_difference(&r, &t) {
            diffs.push(format!("n={n}: {d}"));
        }
    }
    for d in &diffs {
        eprintln!("DIFF {d}");
    }
    assert!(diffs.is_empty());
}

/// Cross-family clause, different radices for input / key / output: the cross-radix `vec_znx_big_normalize`
/// rounding divergence (NTT120 floors, FFT64 rounds) reaches the ciphertexts.
#[test]
fn families_agree_cross_radix() {
    let mut diffs = Vec::new();
    for n in [8usize, 16] {
        // (in, key, out) radices; k = 3*in+1+key bits. The divergence needs the output to hold fewer bits than the
        // key-radix accumulator, cut inside a limb: key 14 -> 56 bits, out 9 or 18 -> 54 bits.
        for (ib, kb, ob) in [(13usize, 14usize, 12usize), (13, 14, 9), (13, 14, 18)] {
            let r = run_radices::<poulpy_cpu_ref::FFT64Ref>(n, ib, kb, ob, 1, 1);
            let t = run_radices::<poulpy_cpu_ref::NTT120Ref>(n, ib, kb, ob, 1, 1);
            if let Some(d) = first_difference(&r, &t) {
                diffs.push(format!("n={n} radices in/key/out={ib}/{kb}/{ob}: {d}"));
            }
        }
    }
    for d in &diffs {
        eprintln!("DIFF {d}");
    }
    assert!(diffs.is_empty());
}
