//! C10: NTT120-specific kernels (i128 big arithmetic and i128 -> i64 normalisation steps),
//! NTT120Ref vs NTT120Avx, bit for bit, at every length 1..=17 and every radix 1..=64 x lsh.
//!
//! Debug builds skip the inputs on which the (checked) reference arithmetic panics; release builds
//! compare the wrapping behaviour too.
#![cfg(feature = "enable-avx")]

use std::panic::{AssertUnwindSafe, catch_unwind};

use poulpy_cpu_avx::NTT120Avx;
use poulpy_cpu_ref::{
    NTT120Ref,
    reference::ntt120::{
        I128BigOps, I128NormalizeOps,
        vec_znx_big::{AddOp, SubOp},
    },
};

struct Rng(u64);
impl Rng {
    fn next(&mut self) -> u64 {
        let mut x = self.0;
        x ^= x << 13;
        x ^= x >> 7;
        x ^= x << 17;
        self.0 = x;
        x
    }
    fn i128(&mut self, bits: u32) -> i128 {
        let r = self.next();
        let sh = 128 - bits;
        match r & 15 {
            0 => i128::MAX >> sh,
            1 => i128::MIN >> sh,
            2 => 0,
            3 => -1,
            4 => 1,
            5 => (1i128 << 64) >> sh.min(64),
            6 => -(1i128 << 64) >> sh.min(64),
            7 => (u64::MAX as i128) >> sh.saturating_sub(64),
            8 => ((1i128 << 63) - 1) >> sh.saturating_sub(64),
            9 => (-(1i128 << 63)) >> sh.saturating_sub(64),
            _ => ((((self.next() as u128) << 64) | self.next() as u128) as i128) >> sh,
        }
    }
    fn i64(&mut self, bits: u32) -> i64 {
        let r = self.next();
        let sh = 64 - bits;
        match r & 7 {
            0 => i64::MAX >> sh,
            1 => i64::MIN >> sh,
            2 => 0,
            3 => -1,
            _ => (self.next() as i64) >> sh,
        }
    }
}

const LENS: [usize; 13] = [1, 2, 3, 4, 5, 6, 7, 8, 9, 12, 13, 16, 17];

fn try_ref<T>(f: impl FnOnce() -> T) -> Option<T> {
    catch_unwind(AssertUnwindSafe(f)).ok()
}

#[test]
fn i128_big_ops() {
    std::panic::set_hook(Box::new(|_| {}));
    let mut rng = Rng(0xABCDEF0123456789);
    let (mut compared, mut skipped) = (0u64, 0u64);
    let mut mism: Vec<String> = Vec::new();
    for &len in LENS.iter() {
        for bits in [128u32, 127, 120, 65, 64, 63, 20] {
            for _ in 0..6 {
                let a: Vec<i128> = (0..len).map(|_| rng.i128(bits)).collect();
                let b: Vec<i128> = (0..len).map(|_| rng.i128(bits)).collect();
                let x: Vec<i128> = (0..len).map(|_| rng.i128(bits)).collect();
                let s: Vec<i64> = (0..len).map(|_| rng.i64(bits.min(64))).collect();

                macro_rules! cmp {
                    ($label:expr, $f:ident ( res $(, $arg:expr)* )) => {{
                        let mut rr = x.clone();
                        let mut rt = x.clone();
                        if try_ref(|| <NTT120Ref as I128BigOps>::$f(&mut rr $(, $arg)*)).is_some() {
                            <NTT120Avx as I128BigOps>::$f(&mut rt $(, $arg)*);
                            compared += 1;
                            if rr != rt {
                                mism.push(format!("{} len={len} bits={bits} x={x:?} a={a:?} b={b:?} s={s:?}\n   ref={rr:?}\n   avx={rt:?}", $label));
                            }
                        } else { skipped += 1; }
                    }};
                }
                cmp!("i128_add", i128_add(res, &a, &b));
                cmp!("i128_add_assign", i128_add_assign(res, &a));
                cmp!("i128_add_small", i128_add_small(res, &a, &s));
                cmp!("i128_add_small_assign", i128_add_small_assign(res, &s));
                cmp!("i128_sub", i128_sub(res, &a, &b));
                cmp!("i128_sub_assign", i128_sub_assign(res, &a));
                cmp!("i128_sub_negate_assign", i128_sub_negate_assign(res, &a));
                cmp!("i128_sub_small_a", i128_sub_small_a(res, &s, &b));
                cmp!("i128_sub_small_b", i128_sub_small_b(res, &a, &s));
                cmp!("i128_sub_small_assign", i128_sub_small_assign(res, &s));
                cmp!("i128_sub_small_negate_assign", i128_sub_small_negate_assign(res, &s));
                cmp!("i128_negate", i128_negate(res, &a));
                cmp!("i128_negate_assign", i128_negate_assign(res));
                cmp!("i128_neg_from_small", i128_neg_from_small(res, &s));
                cmp!("i128_from_small", i128_from_small(res, &s));
            }
        }
    }
    let _ = std::panic::take_hook();
    eprintln!("i128_big_ops: compared={compared} skipped={skipped} mismatches={}", mism.len());
    for m in mism.iter().take(20) {
        eprintln!("MISMATCH {m}");
    }
    assert!(mism.is_empty());
}

#[test]
fn i128_normalize_ops() {
    std::panic::set_hook(Box::new(|_| {}));
    let mut rng = Rng(0x1357924680ACE135);
    let (mut compared, mut skipped) = (0u64, 0u64);
    let mut mism: Vec<String> = Vec::new();
    // base2k up to 64 takes the AVX path (len >= 4); 65..=70 takes the scalar fallback
    for base2k in 1..=70usize {
        for lsh in 0..base2k {
            if base2k > 6 && !(lsh <= 1 || lsh + 2 >= base2k || lsh == base2k / 2) {
                continue;
            }
            for &len in LENS.iter() {
                for bits in [128u32, 126, 120, 100, 64, 63, 30] {
                    let a: Vec<i128> = (0..len).map(|_| rng.i128(bits)).collect();
                    let c: Vec<i128> = (0..len + (len & 1)).map(|_| rng.i128(bits)).collect();
                    let x: Vec<i64> = (0..len).map(|_| rng.i64(bits.min(64))).collect();

                    macro_rules! cmp {
                        ($label:expr, $f:ident $(::<$o:ty>)? ( res $(, $arg:expr)* ; carry)) => {{
                            let (mut rr, mut cr) = (x.clone(), c.clone());
                            let (mut rt, mut ct) = (x.clone(), c.clone());
                            if try_ref(|| <NTT120Ref as I128NormalizeOps>::$f$(::<$o>)?(base2k, lsh, &mut rr $(, $arg)*, &mut cr)).is_some() {
                                <NTT120Avx as I128NormalizeOps>::$f$(::<$o>)?(base2k, lsh, &mut rt $(, $arg)*, &mut ct);
                                compared += 1;
                                if rr != rt || cr != ct {
                                    if mism.len() < 30 {
                                        mism.push(format!("{} base2k={base2k} lsh={lsh} len={len} bits={bits}\n   x={x:?}\n   a={a:?}\n   c={c:?}\n   ref res={rr:?} carry={cr:?}\n   avx res={rt:?} carry={ct:?}", $label));
                                    } else { mism.push(String::new()); }
                                }
                            } else { skipped += 1; }
                        }};
                    }
                    cmp!("nfc_middle_step", nfc_middle_step(res, &a; carry));
                    cmp!("nfc_middle_step_into<Add>", nfc_middle_step_into::<AddOp>(res, &a; carry));
                    cmp!("nfc_middle_step_into<Sub>", nfc_middle_step_into::<SubOp>(res, &a; carry));
                    cmp!("nfc_middle_step_assign", nfc_middle_step_assign(res; carry));
                    cmp!("nfc_final_step_assign", nfc_final_step_assign(res; carry));
                    cmp!("nfc_final_step_into<Add>", nfc_final_step_into::<AddOp>(res; carry));
                    cmp!("nfc_final_step_into<Sub>", nfc_final_step_into::<SubOp>(res; carry));
                }
            }
        }
    }
    let _ = std::panic::take_hook();
    eprintln!("i128_normalize_ops: compared={compared} skipped={skipped} mismatches={}", mism.len());
    for m in mism.iter().filter(|m| !m.is_empty()).take(20) {
        eprintln!("MISMATCH {m}");
    }
    assert!(mism.is_empty());
}

// ──────────────────────────────────────────────────────────────────────────────
// q120 primitive kernels
// ──────────────────────────────────────────────────────────────────────────────

mod prim {
    use super::Rng;
    use poulpy_cpu_avx::NTT120Avx;
    use poulpy_cpu_ref::{
        NTT120Ref,
        reference::ntt120::{
            NttAdd, NttAddAssign, NttCFromB, NttFromZnx64, NttMulBbb, NttMulBbc, NttNegate, NttNegateAssign, NttPackLeft1BlkX2,
            NttPairwisePackLeft1BlkX2, NttSub, NttSubAssign, NttSubNegateAssign, NttToZnx128,
            mat_vec::{BbbMeta, BbcMeta},
            primes::{PrimeSet, Primes30},
            types::Q_SHIFTED,
        },
    };

    const Q: [u64; 4] = [
        Primes30::Q[0] as u64,
        Primes30::Q[1] as u64,
        Primes30::Q[2] as u64,
        Primes30::Q[3] as u64,
    ];

    /// q120b values: `kind` selects the range
    /// 0: anything in [0, 2^64); 1: [0, 2*q_s) (what add/sub produce); 2: [0, q_s); 3: boundaries
    fn q120b(rng: &mut Rng, n: usize, kind: u32) -> Vec<u64> {
        let mut v = vec![0u64; 4 * n];
        for j in 0..n {
            for k in 0..4 {
                let r = rng.next();
                let qs = Q_SHIFTED[k];
                v[4 * j + k] = match kind {
                    0 => r,
                    1 => r % (2 * qs as u128).min(u64::MAX as u128) as u64,
                    2 => r % qs,
                    _ => {
                        let b: [u64; 12] = [0, 1, Q[k] - 1, Q[k], Q[k] + 1, qs - 1, qs, qs + 1, 2 * qs - 1, 2 * qs, u64::MAX, 1 << 63];
                        b[(r % 12) as usize].wrapping_add(rng.next() % 3).wrapping_sub(1)
                    }
                };
            }
        }
        v
    }

    fn mod_q(v: &[u64]) -> Vec<u64> {
        v.iter().enumerate().map(|(i, x)| x % Q[i & 3]).collect()
    }

    #[test]
    fn from_znx64_and_to_znx128() {
        let mut rng = Rng(0x7777_1111_2222_3333);
        for n in [1usize, 2, 3, 4, 5, 7, 8, 9, 16, 17] {
            for bits in [64u32, 63, 50, 2] {
                for _ in 0..20 {
                    let a: Vec<i64> = (0..n).map(|_| rng.i64(bits)).collect();
                    let (mut r, mut t) = (vec![0u64; 4 * n], vec![0u64; 4 * n]);
                    <NTT120Ref as NttFromZnx64>::ntt_from_znx64(&mut r, &a);
                    <NTT120Avx as NttFromZnx64>::ntt_from_znx64(&mut t, &a);
                    assert_eq!(r, t, "ntt_from_znx64 n={n} a={a:?}");
                    for mask in [!0i64, 0, 0xFFFF, i64::MAX, i64::MIN, -4] {
                        <NTT120Ref as NttFromZnx64>::ntt_from_znx64_masked(&mut r, &a, mask);
                        <NTT120Avx as NttFromZnx64>::ntt_from_znx64_masked(&mut t, &a, mask);
                        assert_eq!(r, t, "ntt_from_znx64_masked n={n} mask={mask:#x} a={a:?}");
                    }
                }
            }
            for kind in 0..4 {
                for _ in 0..40 {
                    let x = q120b(&mut rng, n, kind);
                    let (mut r, mut t) = (vec![0i128; n], vec![1i128; n]);
                    <NTT120Ref as NttToZnx128>::ntt_to_znx128(&mut r, n, &x);
                    <NTT120Avx as NttToZnx128>::ntt_to_znx128(&mut t, n, &x);
                    assert_eq!(r, t, "ntt_to_znx128 n={n} kind={kind} x={x:?}");
                }
            }
        }
    }

    #[test]
    fn c_from_b_is_canonical_for_every_u64() {
        let mut rng = Rng(0x7777_1111_2222_4444);
        let mut bad = Vec::new();
        for n in [1usize, 2, 3, 4, 5, 8, 9] {
            for kind in 0..4 {
                for _ in 0..400 {
                    let x = q120b(&mut rng, n, kind);
                    let (mut r, mut t) = (vec![0u32; 8 * n], vec![7u32; 8 * n]);
                    <NTT120Ref as NttCFromB>::ntt_c_from_b(n, &mut r, &x);
                    <NTT120Avx as NttCFromB>::ntt_c_from_b(n, &mut t, &x);
                    if r != t && bad.len() < 10 {
                        let i = (0..8 * n).find(|&i| r[i] != t[i]).unwrap();
                        bad.push(format!(
                            "kind={kind} x[{}]={} (= {:.4} * (Q<<33)) ref={} avx={} (slot {})",
                            i / 2,
                            x[i / 2],
                            x[i / 2] as f64 / Q_SHIFTED[(i / 2) & 3] as f64,
                            r[i],
                            t[i],
                            i & 1
                        ));
                    }
                }
            }
        }
        for b in &bad {
            eprintln!("MISMATCH ntt_c_from_b {b}");
        }
        assert!(bad.is_empty());
    }

    #[test]
    fn lazy_add_sub_negate_agree_mod_q() {
        let mut rng = Rng(0x7777_1111_2222_5555);
        let mut bad = Vec::new();
        for n in [1usize, 2, 3, 5, 8] {
            for kind in 0..4 {
                for _ in 0..300 {
                    // Contract of the lazy representation: every q120b value produced by the library (NTT output,
                    // add/sub/negate output, bbc/bbb accumulation) is < 2*(Q<<33). The AVX kernels reduce with ONE
                    // conditional subtraction and are only valid on that range, the reference uses `%` and accepts any
                    // u64: values in [2*(Q<<33), 2^64) diverge (demonstrated by the #[ignore]d test `lazy_negate_out_of_contract_diverges`).
                    let clamp = |mut v: Vec<u64>| {
                        for (i, x) in v.iter_mut().enumerate() {
                            let lim = 2 * Q_SHIFTED[i & 3];
                            if *x >= lim {
                                *x -= lim;
                            }
                        }
                        v
                    };
                    let a = clamp(q120b(&mut rng, n, kind));
                    let b = clamp(q120b(&mut rng, n, kind));
                    let x = clamp(q120b(&mut rng, n, kind));
                    macro_rules! cmp {
                        ($name:expr, $tr:ident :: $f:ident (res $(, $arg:expr)*)) => {{
                            let (mut r, mut t) = (x.clone(), x.clone());
                            <NTT120Ref as $tr>::$f(&mut r $(, $arg)*);
                            <NTT120Avx as $tr>::$f(&mut t $(, $arg)*);
                            if mod_q(&r) != mod_q(&t) && bad.len() < 10 {
                                let i = (0..4 * n).find(|&i| r[i] % Q[i & 3] != t[i] % Q[i & 3]).unwrap();
                                bad.push(format!("{} kind={kind} prime={} x={} a={} b={} ref={} avx={} (q_s={})", $name, i & 3, x[i], a[i], b[i], r[i], t[i], Q_SHIFTED[i & 3]));
                            }
                        }};
                    }
                    cmp!("ntt_add", NttAdd::ntt_add(res, &a, &b));
                    cmp!("ntt_add_assign", NttAddAssign::ntt_add_assign(res, &a));
                    cmp!("ntt_sub", NttSub::ntt_sub(res, &a, &b));
                    cmp!("ntt_sub_assign", NttSubAssign::ntt_sub_assign(res, &a));
                    cmp!("ntt_sub_negate_assign", NttSubNegateAssign::ntt_sub_negate_assign(res, &a));
                    cmp!("ntt_negate", NttNegate::ntt_negate(res, &a));
                    cmp!("ntt_negate_assign", NttNegateAssign::ntt_negate_assign(res));
                }
            }
        }
        for b in &bad {
            eprintln!("MISMATCH {b}");
        }
        assert!(bad.is_empty());
    }

    /// Not a reachable defect (no HAL operation produces such a value): documents that the AVX lazy kernels and the
    /// reference disagree modulo Q on raw q120b words in [2*(Q<<33), 2^64).
    #[test]
    #[ignore]
    fn lazy_negate_out_of_contract_diverges() {
        let a = [u64::MAX; 4];
        let (mut r, mut t) = ([0u64; 4], [0u64; 4]);
        <NTT120Ref as NttNegate>::ntt_negate(&mut r, &a);
        <NTT120Avx as NttNegate>::ntt_negate(&mut t, &a);
        assert_eq!(mod_q(&r), mod_q(&t));
    }

    #[test]
    fn mul_bbc_and_pack_left() {
        let mut rng = Rng(0x7777_1111_2222_6666);
        let meta = BbcMeta::<Primes30>::new();
        let mut bad = Vec::new();
        for ell in [1usize, 2, 3, 4, 5, 8, 16, 33] {
            for kind in 0..4 {
                for _ in 0..100 {
                    // ntt_coeff: q120b viewed as u32 pairs; prepared: q120c from the reference conversion
                    let a = q120b(&mut rng, ell, kind);
                    let pb = q120b(&mut rng, ell, 0);
                    let mut prepared = vec![0u32; 8 * ell];
                    <NTT120Ref as NttCFromB>::ntt_c_from_b(ell, &mut prepared, &pb);
                    let a_u32: &[u32] = bytemuck::cast_slice(&a);
                    let (mut r, mut t) = (vec![1u64; 4], vec![2u64; 4]);
                    <NTT120Ref as NttMulBbc>::ntt_mul_bbc(&meta, ell, &mut r, a_u32, &prepared);
                    <NTT120Avx as NttMulBbc>::ntt_mul_bbc(&meta, ell, &mut t, a_u32, &prepared);
                    if mod_q(&r) != mod_q(&t) && bad.len() < 10 {
                        bad.push(format!("ntt_mul_bbc ell={ell} kind={kind} ref={r:?} avx={t:?}"));
                    }
                }
            }
        }
        // bbb: q120b x q120b accumulate (not used by the HAL defaults, but part of the kernel trait surface)
        let meta_bbb = BbbMeta::<Primes30>::new();
        for ell in [1usize, 2, 3, 4, 5, 8, 16, 33] {
            for kind in 0..4 {
                for _ in 0..100 {
                    let a = q120b(&mut rng, ell, kind);
                    let b = q120b(&mut rng, ell, kind);
                    let (mut r, mut t) = (vec![1u64; 4], vec![1u64; 4]);
                    <NTT120Ref as NttMulBbb>::ntt_mul_bbb(&meta_bbb, ell, &mut r, &a, &b);
                    <NTT120Avx as NttMulBbb>::ntt_mul_bbb(&meta_bbb, ell, &mut t, &a, &b);
                    if mod_q(&r) != mod_q(&t) && bad.len() < 10 {
                        bad.push(format!("ntt_mul_bbb ell={ell} kind={kind} ref={r:?} avx={t:?}"));
                    }
                }
            }
        }
        // pack_left: rows of q120b polynomials of degree n, block blk -> canonical residues
        for n in [2usize, 4, 8] {
            for rows in [1usize, 2, 3, 5] {
                for kind in 0..4 {
                    for _ in 0..50 {
                        let a = q120b(&mut rng, n * rows, kind);
                        let b = q120b(&mut rng, n * rows, kind);
                        for blk in 0..n / 2 {
                            let (mut r, mut t) = (vec![3u32; 16 * rows], vec![3u32; 16 * rows]);
                            <NTT120Ref as NttPackLeft1BlkX2>::ntt_pack_left_1blk_x2(&mut r, &a, rows, 4 * n, blk);
                            <NTT120Avx as NttPackLeft1BlkX2>::ntt_pack_left_1blk_x2(&mut t, &a, rows, 4 * n, blk);
                            if r != t && bad.len() < 20 {
                                bad.push(format!("ntt_pack_left_1blk_x2 n={n} rows={rows} blk={blk} kind={kind}\n  ref={r:?}\n  avx={t:?}"));
                            }
                            let (mut r, mut t) = (vec![3u32; 16 * rows], vec![3u32; 16 * rows]);
                            <NTT120Ref as NttPairwisePackLeft1BlkX2>::ntt_pairwise_pack_left_1blk_x2(&mut r, &a, &b, rows, 4 * n, blk);
                            <NTT120Avx as NttPairwisePackLeft1BlkX2>::ntt_pairwise_pack_left_1blk_x2(&mut t, &a, &b, rows, 4 * n, blk);
                            if r != t && bad.len() < 20 {
                                bad.push(format!("ntt_pairwise_pack_left_1blk_x2 n={n} rows={rows} blk={blk} kind={kind}\n  ref={r:?}\n  avx={t:?}"));
                            }
                        }
                    }
                }
            }
        }
        for b in &bad {
            eprintln!("MISMATCH {b}");
        }
        assert!(bad.is_empty());
    }
}
