//! C04 audit: CMux selects exactly one of its two inputs for a GGSW bit (exact-phase oracle).
#![allow(clippy::too_many_arguments)]
#![allow(dead_code, unused_imports)]

#[path = "../../poulpy-cpu-ref/tests/c04_common/mod.rs"]
mod c04_common;

mod fft64 {
    type BE = poulpy_cpu_ref::FFT64Ref;
    const BK: &[usize] = &[8, 13, 17];
    include!("../../poulpy-cpu-ref/tests/c04_helpers.inc");
    include!("c04_cmux_tests.inc");
}

mod ntt120 {
    type BE = poulpy_cpu_ref::NTT120Ref;
    const BK: &[usize] = &[12, 24];
    include!("../../poulpy-cpu-ref/tests/c04_helpers.inc");
    include!("c04_cmux_tests.inc");
}
