//! C04 audit: external products multiply by the GGSW plaintext within noise (exact-phase oracle).
#![allow(clippy::too_many_arguments)]

mod c04_common;

mod fft64 {
    type BE = poulpy_cpu_ref::FFT64Ref;
    const BK: &[usize] = &[8, 13, 17];
    const BK_WIDE: &[usize] = &[19, 21];
    include!("c04_helpers.inc");
    include!("c04_tests.inc");
}

mod ntt120 {
    type BE = poulpy_cpu_ref::NTT120Ref;
    const BK: &[usize] = &[12, 24];
    // 58 overflows Q ~ 2^120 for n=64, rank=3 (capacity of the backend, not a defect)
    const BK_WIDE: &[usize] = &[40, 52];
    include!("c04_helpers.inc");
    include!("c04_tests.inc");
}
