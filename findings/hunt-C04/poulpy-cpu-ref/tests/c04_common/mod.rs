//! Backend independent exact oracle for the C04 audit (external products / CMux / row expansion).
//!
//! Torus elements are represented as `u128` = x * 2^128 (wrapping arithmetic == arithmetic mod 1).
#![allow(dead_code)]

use poulpy_core::layouts::{GLWE, LWEInfos};
use poulpy_hal::layouts::{DataMut, DataRef, VecZnx, ZnxInfos, ZnxView, ZnxViewMut};

/// Deterministic splitmix64 generator, independent from the library's `Source`.
pub struct Rng(pub u64);

impl Rng {
    pub fn next(&mut self) -> u64 {
        self.0 = self.0.wrapping_add(0x9E3779B97F4A7C15);
        let mut z = self.0;
        z = (z ^ (z >> 30)).wrapping_mul(0xBF58476D1CE4E5B9);
        z = (z ^ (z >> 27)).wrapping_mul(0x94D049BB133111EB);
        z ^ (z >> 31)
    }
    pub fn below(&mut self, m: u64) -> u64 {
        self.next() % m
    }
    pub fn seed32(&mut self) -> [u8; 32] {
        let mut s = [0u8; 32];
        for c in s.chunks_mut(8) {
            c.copy_from_slice(&self.next().to_le_bytes());
        }
        s
    }
}

/// Value of column `col` of a base-2^base2k limb vector as torus elements (one per coefficient).
pub fn col_to_torus<D: DataRef>(v: &VecZnx<D>, col: usize, base2k: usize) -> Vec<u128> {
    let n = v.n();
    let mut out = vec![0u128; n];
    for j in 0..v.size() {
        let sh: isize = 128 - ((j + 1) * base2k) as isize;
        let limb = v.at(col, j);
        for i in 0..n {
            let x = limb[i] as i128;
            let t: u128 = if sh >= 0 {
                (x as u128).wrapping_shl(sh as u32)
            } else if -sh < 127 {
                (x >> ((-sh) as u32)) as u128
            } else {
                0
            };
            out[i] = out[i].wrapping_add(t);
        }
    }
    out
}

/// Negacyclic product of a torus polynomial by an integer polynomial.
pub fn negacyclic_mul(a: &[u128], s: &[i64]) -> Vec<u128> {
    let n = a.len();
    assert_eq!(s.len(), n);
    let mut out = vec![0u128; n];
    for (j, &sj) in s.iter().enumerate() {
        if sj == 0 {
            continue;
        }
        let m = sj as i128 as u128;
        for i in 0..n {
            let p = a[i].wrapping_mul(m);
            let k = i + j;
            if k < n {
                out[k] = out[k].wrapping_add(p);
            } else {
                out[k - n] = out[k - n].wrapping_sub(p);
            }
        }
    }
    out
}

/// Negacyclic product of two integer polynomials.
pub fn negacyclic_mul_int(a: &[i64], b: &[i64]) -> Vec<i64> {
    let n = a.len();
    let mut out = vec![0i64; n];
    for i in 0..n {
        for j in 0..n {
            let p = a[i] * b[j];
            let k = i + j;
            if k < n {
                out[k] += p;
            } else {
                out[k - n] -= p;
            }
        }
    }
    out
}

pub fn add(a: &[u128], b: &[u128]) -> Vec<u128> {
    a.iter().zip(b).map(|(x, y)| x.wrapping_add(*y)).collect()
}

pub fn sub(a: &[u128], b: &[u128]) -> Vec<u128> {
    a.iter().zip(b).map(|(x, y)| x.wrapping_sub(*y)).collect()
}

/// int polynomial scaled by 2^-bits as torus polynomial
pub fn int_to_torus(m: &[i64], bits: usize) -> Vec<u128> {
    assert!(bits <= 128);
    m.iter()
        .map(|&x| {
            if bits == 128 {
                x as i128 as u128
            } else {
                (x as i128 as u128).wrapping_shl((128 - bits) as u32)
            }
        })
        .collect()
}

/// c0 + sum_i c_i * s_i
pub fn phase<D: DataRef>(ct: &GLWE<D>, sk: &[Vec<i64>]) -> Vec<u128> {
    let b = ct.base2k().as_usize();
    let cols = ct.data().cols();
    assert_eq!(cols, sk.len() + 1, "phase: rank mismatch");
    let mut acc = col_to_torus(ct.data(), 0, b);
    for i in 1..cols {
        let ci = col_to_torus(ct.data(), i, b);
        acc = add(&acc, &negacyclic_mul(&ci, &sk[i - 1]));
    }
    acc
}

/// max |centred(x)| as a real number in [0, 1/2]
pub fn max_abs(d: &[u128]) -> f64 {
    let mut m: u128 = 0;
    for &x in d {
        let c = (x as i128).unsigned_abs();
        if c > m {
            m = c;
        }
    }
    (m as f64) / 2f64.powi(128)
}

pub fn log2_or_floor(x: f64) -> f64 {
    if x <= 0.0 { -200.0 } else { x.log2() }
}

pub fn l1(p: &[i64]) -> f64 {
    p.iter().map(|x| x.unsigned_abs() as f64).sum()
}

#[derive(Clone, Copy, Debug, PartialEq, Eq)]
pub enum Pattern {
    Uniform,
    Max,
    Min,
    Alt,
    Zero,
}

/// Fill every column / limb of `v` with normalised digits following `pat`.
pub fn fill_pattern<D: DataMut>(v: &mut VecZnx<D>, base2k: usize, pat: Pattern, rng: &mut Rng) {
    let hi: i64 = (1i64 << (base2k - 1)) - 1;
    let lo: i64 = -(1i64 << (base2k - 1));
    let n = v.n();
    for c in 0..v.cols() {
        for j in 0..v.size() {
            let limb = v.at_mut(c, j);
            for i in 0..n {
                limb[i] = match pat {
                    Pattern::Uniform => (rng.next() as i64) >> (64 - base2k),
                    Pattern::Max => hi,
                    Pattern::Min => lo,
                    Pattern::Alt => {
                        if (i + j + c) & 1 == 0 {
                            hi
                        } else {
                            lo
                        }
                    }
                    Pattern::Zero => 0,
                };
            }
        }
    }
}

#[derive(Clone, Copy, Debug, PartialEq, Eq)]
pub enum M2 {
    Zero,
    One,
    MinusOne,
    Monomial(usize),
    MinusMonomial(usize),
    Dense(i64),
}

pub fn make_m2(kind: M2, n: usize, rng: &mut Rng) -> Vec<i64> {
    let mut m = vec![0i64; n];
    match kind {
        M2::Zero => {}
        M2::One => m[0] = 1,
        M2::MinusOne => m[0] = -1,
        M2::Monomial(k) => m[k % n] = 1,
        M2::MinusMonomial(k) => m[k % n] = -1,
        M2::Dense(b) => {
            for x in m.iter_mut() {
                *x = (rng.below((2 * b + 1) as u64) as i64) - b;
            }
        }
    }
    m
}

/// Worst-case bound (as a torus real) on | phase(out) - m2 * phase(in) | for one external product.
///
/// * `e_g`: measured max abs noise of the GGSW rows (torus real)
/// * `a_size_g`: number of limbs of the input once expressed in the GGSW radix
/// * `digit_slack`: 1.0 for normalised inputs, 2.0 for a difference of two normalised inputs
#[allow(clippy::too_many_arguments)]
pub fn ep_bound(
    n: usize,
    rank: usize,
    h: f64,
    m2_l1: f64,
    b_g: usize,
    size_g: usize,
    dsize: usize,
    dnum: usize,
    a_size_g: usize,
    e_g: f64,
    out_prec_bits: usize,
    digit_slack: f64,
) -> f64 {
    let rows_used = dnum.min(a_size_g.div_ceil(dsize)) as f64;
    let nn = n as f64;
    let r1 = (rank + 1) as f64;
    let sfac = 1.0 + rank as f64 * h;
    let t1 = r1 * rows_used * nn * 2f64.powi((dsize * b_g) as i32) * e_g * digit_slack;
    let t2 = if dnum * dsize < a_size_g {
        m2_l1 * sfac * 2f64.powi(-((dnum * dsize * b_g) as i32)) * digit_slack
    } else {
        0.0
    };
    let t3 = sfac * 2f64.powi(-((out_prec_bits.min(size_g * b_g)) as i32));
    let t5 = if dsize > 2 {
        4.0 * sfac * r1 * rows_used * nn * digit_slack * 2f64.powi((dsize as i32 - size_g as i32 - 1) * b_g as i32)
    } else {
        0.0
    };
    let t6 = 8.0 * sfac * 2f64.powi(-((size_g * b_g) as i32));
    t1 + t2 + t3 + t5 + t6
}
