//! C08 demonstration (seed 2): `vec_znx_big_normalize` and its fused forms (`_add_assign`, `_sub_assign`, `_negate`)
//! against an exact model, on the i64 (FFT64Ref) and the i128 (NTT120Ref) big accumulators.
//!
//! A limb vector `x` (radix 2^b, `size` limbs) represents the torus element
//!     val(x) = sum_j x[j] * 2^{-(j+1) b}   (mod 1).
//! The model evaluates it exactly as an integer numerator over a common denominator 2^D, D <= 126, large enough
//! to hold val(a) * 2^offset without rounding; all arithmetic is done modulo 2^128 (2^D divides 2^128, so the
//! final reduction modulo 2^D is exact).  The accumulator `a` holds t * a_small (t small copies of an un-normalised
//! small vector added together), so val(a) = t * val(a_small).  Normalising with a bit offset must give
//!     val(res) = val(a) * 2^offset                      (plain form)
//!     val(res) = val(res_before) +/- val(a) * 2^offset  (fused add / sub forms)
//!     val(res) = -val(a) * 2^offset                     (fused negate form)
//! with an absolute error of at most one unit of the last limb of `res`, and exactly when `res` has enough limbs.

use poulpy_cpu_ref::{
    FFT64Ref, NTT120Ref,
    api::{
        ModuleNew, ScratchOwnedAlloc, ScratchOwnedBorrow, VecZnxBigAddSmallAssign, VecZnxBigAlloc, VecZnxBigFromSmall,
        VecZnxBigNormalize, VecZnxBigNormalizeTmpBytes,
    },
    layouts::{Backend, Module, ScratchOwned, VecZnx, VecZnxBigOwned, ZnxInfos, ZnxView, ZnxViewMut},
};

struct Rng(u64);

impl Rng {
    fn next(&mut self) -> u64 {
        // splitmix64
        self.0 = self.0.wrapping_add(0x9E37_79B9_7F4A_7C15);
        let mut z = self.0;
        z = (z ^ (z >> 30)).wrapping_mul(0xBF58_476D_1CE4_E5B9);
        z = (z ^ (z >> 27)).wrapping_mul(0x94D0_49BB_1331_11EB);
        z ^ (z >> 31)
    }

    /// Uniform in [-2^(bits-1), 2^(bits-1))
    fn signed(&mut self, bits: usize) -> i64 {
        ((self.next() << (64 - bits)) as i64) >> (64 - bits)
    }
}

fn shl_mod(x: u128, s: i64) -> u128 {
    assert!(s >= 0);
    if s >= 128 { 0 } else { x << s }
}

/// Numerator of val(column `col`, coefficient `i`) * 2^shift over 2^d, modulo 2^128.
/// Requires d + shift >= size * b so that no bit is lost.
fn numerator(v: &VecZnx<Vec<u8>>, b: usize, col: usize, i: usize, d: usize, shift: i64) -> u128 {
    let mut acc: u128 = 0;
    for j in 0..v.size() {
        let limb: u128 = v.at(col, j)[i] as i128 as u128;
        acc = acc.wrapping_add(limb.wrapping_mul(shl_mod(1, d as i64 - ((j + 1) * b) as i64 + shift)));
    }
    acc
}

/// Centered representative of x modulo 2^d.
fn centered(x: u128, d: usize) -> i128 {
    assert!(d <= 126);
    let x: u128 = x & ((1u128 << d) - 1);
    if x >= (1u128 << (d - 1)) { (x as i128) - (1i128 << d) } else { x as i128 }
}

#[derive(Clone, Copy, Debug, PartialEq)]
enum Op {
    Plain,
    Add,
    Sub,
    Negate,
}

fn run<BE: Backend>(label: &str, module: &Module<BE>) -> Vec<String>
where
    Module<BE>: VecZnxBigAlloc<BE>
        + VecZnxBigFromSmall<BE>
        + VecZnxBigAddSmallAssign<BE>
        + VecZnxBigNormalize<BE>
        + VecZnxBigNormalizeTmpBytes,
    ScratchOwned<BE>: ScratchOwnedAlloc<BE> + ScratchOwnedBorrow<BE>,
{
    let n: usize = module.n();
    let mut scratch: ScratchOwned<BE> = ScratchOwned::alloc(module.vec_znx_big_normalize_tmp_bytes());

    let mut rng = Rng(0xC08_B16);
    let mut failures: Vec<String> = Vec::new();
    let mut checked: usize = 0;

    for b in [3usize, 7] {
        for a_size in 1..=4usize {
            for res_size in 1..=4usize {
                // Offsets that keep at least one limb of res inside the precision of the shifted input
                // (the result is not entirely made of the carry out of the top limb of a).
                let lo: i64 = -(((res_size + 2) * b) as i64);
                let hi: i64 = (a_size * b + b) as i64;
                for offset in lo..=hi {
                    for (op, headroom, t) in [
                        (Op::Plain, 0usize, 1usize),
                        (Op::Plain, 20, 3),
                        (Op::Add, 0, 1),
                        (Op::Add, 20, 3),
                        (Op::Sub, 0, 1),
                        (Op::Sub, 20, 3),
                        (Op::Negate, 0, 1),
                        (Op::Negate, 20, 3),
                    ] {
                        // a = t * a_small, a_small with digits of b + headroom bits
                        let mut a_small: VecZnx<Vec<u8>> = VecZnx::alloc(n, 2, a_size);
                        for col in 0..2 {
                            for j in 0..a_size {
                                a_small.at_mut(col, j).iter_mut().for_each(|x| *x = rng.signed(b + headroom));
                            }
                        }
                        let mut a: VecZnxBigOwned<BE> = module.vec_znx_big_alloc(2, a_size);
                        for col in 0..2 {
                            module.vec_znx_big_from_small(&mut a, col, &a_small, col);
                            for _ in 1..t {
                                module.vec_znx_big_add_small_assign(&mut a, col, &a_small, col);
                            }
                        }

                        // res: arbitrary previous content with digits of b bits
                        let mut res: VecZnx<Vec<u8>> = VecZnx::alloc(n, 2, res_size);
                        for col in 0..2 {
                            for j in 0..res_size {
                                res.at_mut(col, j).iter_mut().for_each(|x| *x = rng.signed(b));
                            }
                        }
                        let res_before: VecZnx<Vec<u8>> = res.clone();

                        match op {
                            Op::Plain => module.vec_znx_big_normalize(&mut res, b, offset, 1, &a, b, 1, scratch.borrow()),
                            Op::Add => module.vec_znx_big_normalize_add_assign(&mut res, b, offset, 1, &a, b, 1, scratch.borrow()),
                            Op::Sub => module.vec_znx_big_normalize_sub_assign(&mut res, b, offset, 1, &a, b, 1, scratch.borrow()),
                            Op::Negate => module.vec_znx_big_normalize_negate(&mut res, b, offset, 1, &a, b, 1, scratch.borrow()),
                        }

                        // Column 0 of res is untouched
                        for j in 0..res_size {
                            assert_eq!(res.at(0, j), res_before.at(0, j), "{label}: column 0 modified");
                        }

                        // Common denominator: holds val(a) * 2^offset and val(res) without rounding
                        let a_bits: i64 = (a_size * b) as i64 - offset;
                        let d: usize = a_bits.max((a_size * b) as i64).max((res_size * b) as i64) as usize;
                        let ulp: i128 = 1i128 << (d - res_size * b);
                        let exact: bool = (res_size * b) as i64 >= a_bits;

                        for i in 0..n {
                            let shifted: u128 = numerator(&a_small, b, 1, i, d, offset).wrapping_mul(t as u128);
                            let before: u128 = numerator(&res_before, b, 1, i, d, 0);
                            let want: u128 = match op {
                                Op::Plain => shifted,
                                Op::Add => before.wrapping_add(shifted),
                                Op::Sub => before.wrapping_sub(shifted),
                                Op::Negate => shifted.wrapping_neg(),
                            };
                            let have: u128 = numerator(&res, b, 1, i, d, 0);
                            let err: i128 = centered(have.wrapping_sub(want), d);
                            let ok: bool = if exact { err == 0 } else { err.abs() <= ulp };
                            checked += 1;
                            if !ok && failures.len() < 10 {
                                failures.push(format!(
                                    "{label} {op:?} b={b} a_size={a_size} res_size={res_size} offset={offset} headroom={headroom} t={t} \
                                     coeff={i}: err={err} (in units of 2^-{d}), allowed={}",
                                    if exact { 0 } else { ulp }
                                ));
                            }

                            if op == Op::Plain {
                                for j in 0..res_size {
                                    let x: i64 = res.at(1, j)[i];
                                    assert!(
                                        (-(1i64 << (b - 1))..(1i64 << (b - 1))).contains(&x),
                                        "{label}: digit out of range: b={b} a_size={a_size} res_size={res_size} offset={offset} limb={j} x={x}"
                                    );
                                }
                            }
                        }
                    }
                }
            }
        }
    }

    println!("{label}: checked {checked} coefficients, {} failures recorded", failures.len());
    failures
}

#[test]
fn c08_big_normalize_offset_beyond_result_fft64_ref() {
    let module: Module<FFT64Ref> = Module::<FFT64Ref>::new(8);
    let failures = run("FFT64Ref", &module);
    assert!(
        failures.is_empty(),
        "vec_znx_big_normalize* disagree with the exact model:\n{}",
        failures.join("\n")
    );
}

#[test]
fn c08_big_normalize_offset_beyond_result_ntt120_ref() {
    let module: Module<NTT120Ref> = Module::<NTT120Ref>::new(8);
    let failures = run("NTT120Ref", &module);
    assert!(
        failures.is_empty(),
        "vec_znx_big_normalize* disagree with the exact model:\n{}",
        failures.join("\n")
    );
}
