//! C01 audit on the AVX backends: same sweeps as poulpy-cpu-ref/tests/c01_*.rs.
//! Build: RUSTFLAGS="-C target-feature=+avx2,+fma" cargo test --offline -p poulpy-cpu-avx --features enable-avx --test c01_avx
#![cfg(feature = "enable-avx")]
#![allow(dead_code, unused_imports)]

#[path = "../../poulpy-cpu-ref/tests/c01_glwe_sk.rs"]
mod sk;
#[path = "../../poulpy-cpu-ref/tests/c01_glwe_pk.rs"]
mod pk;
#[path = "../../poulpy-cpu-ref/tests/c01_lwe.rs"]
mod lwe;

use poulpy_cpu_avx::{FFT64Avx, NTT120Avx};

#[test]
fn avx_c01_glwe_sk_fft64() {
    assert_eq!(sk::sweep::<FFT64Avx>("avx-fft64", 50, &[8, 16, 64], false, false), 0);
}
#[test]
fn avx_c01_glwe_sk_ntt120() {
    assert_eq!(sk::sweep::<NTT120Avx>("avx-ntt120", 52, &[8, 16, 64], false, false), 0);
}
#[test]
fn avx_c01_glwe_pk_fft64() {
    assert_eq!(pk::sweep::<FFT64Avx>("avx-pk-fft64", 50, &[8, 16, 64], false), 0);
}
#[test]
fn avx_c01_glwe_pk_ntt120() {
    assert_eq!(pk::sweep::<NTT120Avx>("avx-pk-ntt120", 52, &[8, 16, 64], false), 0);
}
#[test]
fn avx_c01_lwe_fft64() {
    assert_eq!(lwe::sweep::<FFT64Avx>("avx-lwe-fft64", 50, 8, false), 0);
}
#[test]
fn avx_c01_lwe_ntt120() {
    assert_eq!(lwe::sweep::<NTT120Avx>("avx-lwe-ntt120", 52, 16, false), 0);
}
