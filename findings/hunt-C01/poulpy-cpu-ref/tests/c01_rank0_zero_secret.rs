//! C01 audit, F3: a rank-0 GLWE secret cannot be given the ZERO distribution.
//! GLWESecret::alloc(n, Rank(0)) holds an empty Vec<u8> (dangling, 1-aligned pointer); fill_zero() -> ScalarZnx::zero()
//! -> ZnxViewMut::raw_mut() builds a `&mut [i64]` from it: undefined behaviour, and an immediate process abort in builds
//! with debug assertions ("unsafe precondition(s) violated: slice::from_raw_parts_mut requires the pointer to be aligned").
//! This test ABORTS the test process on the unmodified library (debug profile).
use poulpy_core::layouts::{Degree, GLWESecret, Rank};

#[test]
fn f3_rank0_secret_fill_zero() {
    let mut sk: GLWESecret<Vec<u8>> = GLWESecret::alloc(Degree(8), Rank(0));
    sk.fill_zero();
}
