//! C01 audit: LWE secret-key encrypt -> decrypt, exact oracle.
mod c01_common;
use c01_common::*;

use std::panic::{AssertUnwindSafe, catch_unwind};

use poulpy_core::{
    EncryptionLayout, LWEDecrypt, LWEEncryptSk, ScratchTakeCore,
    layouts::{Base2K, Degree, LWE, LWEInfos, LWELayout, LWEPlaintext, LWESecret, TorusPrecision},
    test_suite::TestBackend,
};
use poulpy_cpu_ref::{
    FFT64Ref, NTT120Ref,
    api::{ModuleNew, ScratchAvailable, ScratchOwnedAlloc, ScratchOwnedBorrow},
    layouts::{Module, NoiseInfos, Scratch, ScratchOwned, ZnxView, ZnxViewMut},
    source::Source,
};

#[derive(Clone, Debug)]
pub struct Case {
    pub n_lwe: usize,
    pub base2k: usize,
    pub size: usize,
    pub k_noise: usize,
    pub pt_size: usize,
    pub pt_base2k: usize,
    pub out_base2k: usize,
    pub out_size: usize,
    pub sk: SkKind,
    pub msg: MsgKind,
    pub seed: u32,
    pub dirty: bool,
    pub exact_scratch: bool,
}

fn fill_lwe_msg(pt: &mut LWEPlaintext<Vec<u8>>, kind: MsgKind, src: &mut Source) {
    let b = pt.base2k().as_usize();
    let half: i64 = 1i64 << (b - 1);
    let size = pt.size();
    for j in 0..size {
        let v = match kind {
            MsgKind::Zero => 0,
            MsgKind::Rand => (src.next_u64n(1u64 << b, (1u64 << b) - 1) as i64) - half,
            MsgKind::MaxPos => half - 1,
            MsgKind::MinNeg => -half,
            MsgKind::PlusHalf => half,
            MsgKind::Alt => {
                if j % 2 == 0 {
                    half - 1
                } else {
                    -half
                }
            }
            MsgKind::Unnorm => (src.next_u64n(1u64 << (b + 3), (1u64 << (b + 3)) - 1) as i64) - (half << 3),
        };
        pt.data_mut().at_mut(0, j)[0] = v;
    }
}

pub fn run_case<BE: TestBackend>(module: &Module<BE>, c: &Case) -> Vec<String>
where
    Module<BE>: LWEEncryptSk<BE> + LWEDecrypt<BE>,
    ScratchOwned<BE>: ScratchOwnedAlloc<BE> + ScratchOwnedBorrow<BE>,
    Scratch<BE>: ScratchAvailable + ScratchTakeCore<BE>,
{
    let mut fails: Vec<String> = Vec::new();
    let bound = 6.0 * 3.2;
    let layout = LWELayout {
        n: Degree(c.n_lwe as u32),
        base2k: Base2K(c.base2k as u32),
        k: TorusPrecision((c.size * c.base2k) as u32),
    };
    let noise = NoiseInfos::new(c.k_noise, 3.2, bound).unwrap();
    let enc_infos = EncryptionLayout::new(layout, noise).unwrap();

    let mut sk: LWESecret<Vec<u8>> = LWESecret::alloc(Degree(c.n_lwe as u32));
    let mut s = Source::new(seed(c.seed, 1));
    match c.sk {
        SkKind::TernaryProb(p) => sk.fill_ternary_prob(p, &mut s),
        SkKind::TernaryHw(h) => sk.fill_ternary_hw(h.min(c.n_lwe), &mut s),
        SkKind::BinaryProb(p) => sk.fill_binary_prob(p, &mut s),
        SkKind::BinaryHw(h) => sk.fill_binary_hw(h.min(c.n_lwe), &mut s),
        SkKind::BinaryBlock(_) => sk.fill_binary_block(1, &mut s),
        SkKind::Zero => sk.fill_zero(),
    }
    let sk_raw: Vec<i64> = sk.raw().to_vec();

    let mut pt: LWEPlaintext<Vec<u8>> =
        LWEPlaintext::alloc(Base2K(c.pt_base2k as u32), TorusPrecision((c.pt_size * c.pt_base2k) as u32));
    let mut src_m = Source::new(seed(c.seed, 2));
    fill_lwe_msg(&mut pt, c.msg, &mut src_m);

    let mut ct: LWE<Vec<u8>> = LWE::alloc_from_infos(&layout);
    if c.dirty {
        // not public: LWE::data_mut is pub(crate)? use fill via encrypt only
    }

    let enc_bytes = module.lwe_encrypt_sk_tmp_bytes(&layout);
    let dec_bytes = module.lwe_decrypt_tmp_bytes(&layout);
    let mut scratch_enc: ScratchOwned<BE> = ScratchOwned::alloc(if c.exact_scratch { enc_bytes } else { enc_bytes + 4096 });
    let mut scratch_dec: ScratchOwned<BE> = ScratchOwned::alloc(if c.exact_scratch { dec_bytes } else { dec_bytes + 4096 });
    if c.dirty {
        scratch_enc.borrow().data.fill(0xA7);
        scratch_dec.borrow().data.fill(0xC3);
    }
    let mut source_xe = Source::new(seed(c.seed, 3));
    let mut source_xa = Source::new(seed(c.seed, 4));
    module.lwe_encrypt_sk(&mut ct, &pt, &sk, &enc_infos, &mut source_xe, &mut source_xa, scratch_enc.borrow());

    // normalised ct?
    {
        let half = 1i64 << (c.base2k - 1);
        'o: for j in 0..c.size {
            for &x in ct.data().at(0, j) {
                if x < -half || x > half {
                    fails.push(format!("ct not normalised limb={j} x={x}"));
                    break 'o;
                }
            }
        }
    }

    // exact phase
    let mut ph = Tor::zero();
    for j in 0..c.size {
        let limb = ct.data().at(0, j);
        let mut acc: i128 = limb[0] as i128;
        for i in 0..c.n_lwe {
            acc += limb[i + 1] as i128 * sk_raw[i] as i128;
        }
        let sh = P - (j + 1) * c.base2k;
        let lo = (acc & 0xFFFF_FFFF) as i64;
        let hi = (acc >> 32) as i64;
        ph.add_assign(&Tor::from_i64_shifted(lo, sh));
        if sh + 32 < P {
            ph.add_assign(&Tor::from_i64_shifted(hi, sh + 32));
        }
    }
    let (thr, lsb, _) = noise_threshold(c.k_noise, bound, c.base2k);
    let m_full = tor_of(pt.data(), c.pt_base2k, 0, 0, c.pt_size);
    let m_enc = if c.pt_base2k == c.base2k {
        tor_of(pt.data(), c.pt_base2k, 0, 0, c.pt_size.min(c.size))
    } else {
        m_full.clone()
    };
    let e = ph.sub(&m_enc);
    if !e.abs().le_unsigned(&thr) {
        fails.push(format!(
            "(A) |phase - m| = 2^{:.2} > noise bound 2^{:.2}",
            e.abs().log2_abs(),
            thr.log2_abs()
        ));
    } else if !e.is_zero() && e.trailing_zeros() < lsb {
        fails.push(format!("(A) error has bits below the noise limb (tz={} < {lsb})", e.trailing_zeros()));
    }

    let mut pt_out: LWEPlaintext<Vec<u8>> =
        LWEPlaintext::alloc(Base2K(c.out_base2k as u32), TorusPrecision((c.out_size * c.out_base2k) as u32));
    if c.dirty {
        for j in 0..c.out_size {
            pt_out.data_mut().at_mut(0, j)[0] = 0x1357_9BDF_0246_8ACEi64 ^ ((j as i64) << 7);
        }
    }
    module.lwe_decrypt(&ct, &mut pt_out, &sk, scratch_dec.borrow());
    let ko = c.out_size * c.out_base2k;
    let kc = c.size * c.base2k;
    let unit_o = pow2_neg(ko);
    let mut tol_c = thr.add(&unit_o);
    let _ = kc;
    if c.pt_base2k == c.base2k && c.pt_size > c.size {
        tol_c.add_assign(&m_full.sub(&m_enc).abs());
    }
    let o = tor_of(pt_out.data(), c.out_base2k, 0, 0, c.out_size);
    let d = o.sub(&ph).abs();
    if !d.le_unsigned(&unit_o) {
        fails.push(format!("(B) |decrypt - phase| = 2^{:.2} > 1 unit of out last limb 2^-{ko}", d.log2_abs()));
    }
    let dc = o.sub(&m_full).abs();
    if !dc.le_unsigned(&tol_c) {
        fails.push(format!("(C) |decrypt - m| = 2^{:.2} > tol 2^{:.2}", dc.log2_abs(), tol_c.log2_abs()));
    }
    let half_o = 1i64 << (c.out_base2k - 1);
    for j in 0..c.out_size {
        let x = pt_out.data().at(0, j)[0];
        if x < -half_o || x > half_o {
            fails.push(format!("(N) out not normalised limb={j} x={x}"));
            break;
        }
    }
    fails
}

pub fn run_guarded<BE: TestBackend>(module: &Module<BE>, c: &Case) -> Vec<String>
where
    Module<BE>: LWEEncryptSk<BE> + LWEDecrypt<BE>,
    ScratchOwned<BE>: ScratchOwnedAlloc<BE> + ScratchOwnedBorrow<BE>,
    Scratch<BE>: ScratchAvailable + ScratchTakeCore<BE>,
{
    match catch_unwind(AssertUnwindSafe(|| run_case(module, c))) {
        Ok(v) => v,
        Err(e) => {
            let s = if let Some(s) = e.downcast_ref::<String>() {
                s.clone()
            } else if let Some(s) = e.downcast_ref::<&str>() {
                s.to_string()
            } else {
                "panic".to_string()
            };
            vec![format!("PANIC: {s}")]
        }
    }
}

pub fn sweep<BE: TestBackend>(name: &str, max_base2k: usize, module_n: usize, cross_pt: bool) -> usize
where
    Module<BE>: ModuleNew<BE> + LWEEncryptSk<BE> + LWEDecrypt<BE>,
    ScratchOwned<BE>: ScratchOwnedAlloc<BE> + ScratchOwnedBorrow<BE>,
    Scratch<BE>: ScratchAvailable + ScratchTakeCore<BE>,
{
    let module: Module<BE> = Module::<BE>::new(module_n as u64);
    let mut nfail = 0usize;
    let mut ncase = 0usize;
    let mut per_tag: std::collections::BTreeMap<String, usize> = Default::default();
    let mut seedctr: u32 = 0;
    for &n_lwe in &[1usize, 2, 7, 8, 22, 64, 77, 500] {
        for b in 1..=max_base2k {
            // i64 accumulation domain of the LWE inner product: n_lwe * 2^(b-1) (+ pt) < 2^63
            if (n_lwe as f64).log2() + b as f64 > 61.0 {
                continue;
            }
            let s0 = 10usize.div_ceil(b);
            for size in s0..=s0 + 3 {
                let mut ks: Vec<usize> = vec![size * b, (size - 1) * b + 1, (size - 1) * b + b.div_ceil(2)];
                if size > 1 {
                    ks.push((size - 1) * b);
                    ks.push((size - 2) * b + 1);
                }
                ks.sort();
                ks.dedup();
                for &k in &ks {
                    if k < 9 {
                        continue;
                    }
                    let sks = [
                        SkKind::TernaryProb(0.5),
                        SkKind::TernaryHw(n_lwe),
                        SkKind::TernaryHw(1),
                        SkKind::BinaryProb(0.5),
                        SkKind::BinaryHw(n_lwe),
                        SkKind::BinaryBlock(1),
                        SkKind::Zero,
                    ];
                    let msgs = [
                        MsgKind::Rand,
                        MsgKind::MaxPos,
                        MsgKind::MinNeg,
                        MsgKind::PlusHalf,
                        MsgKind::Alt,
                        MsgKind::Zero,
                        MsgKind::Unnorm,
                    ];
                    for v in 0..(if std::env::var("C01_THOROUGH").is_ok() { 16 } else { 2 }) {
                        seedctr = seedctr.wrapping_add(1);
                        let skk = sks[(seedctr as usize + v) % sks.len()];
                        let mut mk = msgs[(seedctr as usize / 2 + v) % msgs.len()];
                        if mk == MsgKind::Unnorm && b + 4 > 62 {
                            mk = MsgKind::Rand;
                        }
                        let pt_sizes = [size, 1, size + 1, size.saturating_sub(1).max(1)];
                        let pt_size = pt_sizes[(seedctr as usize + v) % pt_sizes.len()];
                        let outs: Vec<(usize, usize)> = vec![
                            (b, size),
                            (b, (size + 1)),
                            (b, size.saturating_sub(1).max(1)),
                            ((b + 3).min(max_base2k), size),
                            (b.saturating_sub(3).max(1), size + 1),
                            (max_base2k, 1),
                            (1.max(b / 2), 2 * size),
                        ];
                        let (ob, os) = outs[(seedctr as usize / 3 + v) % outs.len()];
                        let (pt_base2k, pt_size) = if cross_pt {
                            let pb = [(b + 5).min(max_base2k), b.saturating_sub(4).max(1)][(seedctr as usize) % 2];
                            (pb, (size * b).div_ceil(pb))
                        } else {
                            (b, pt_size)
                        };
                        if cross_pt && pt_base2k == b {
                            continue;
                        }
                        let c = Case {
                            n_lwe,
                            base2k: b,
                            size,
                            k_noise: k,
                            pt_size,
                            pt_base2k,
                            out_base2k: ob,
                            out_size: os,
                            sk: skk,
                            msg: mk,
                            seed: seedctr,
                            dirty: (seedctr as usize + v) % 2 == 0,
                            exact_scratch: (seedctr as usize / 2 + v) % 2 == 0,
                        };
                        ncase += 1;
                        let f = run_guarded(&module, &c);
                        if !f.is_empty() {
                            let mut tags: Vec<String> = f.iter().map(|m| m.chars().take(3).collect::<String>()).collect();
                            tags.sort();
                            tags.dedup();
                            if is_hard_failure("lwe", &tags, 1, c.base2k) {
                                nfail += 1;
                            }
                            let key = tags.join("+");
                            println!("F|{name}|{key}|n={}|b={}|ob={}|{:?}", c.n_lwe, c.base2k, c.out_base2k, c.sk);
                            let cnt = per_tag.entry(key.clone()).or_insert(0);
                            *cnt += 1;
                            if *cnt <= 10 {
                                println!("[{name}] FAIL[{key}] {c:?}");
                                for m in &f {
                                    println!("      {m}");
                                }
                            }
                        }
                    }
                }
            }
        }
    }
    println!("[{name}] cases={ncase} hard_failures={nfail} per_tag={per_tag:?}");
    nfail
}

#[test]
fn c01_lwe_fft64() {
    let nfail = sweep::<FFT64Ref>("lwe-fft64", 50, 8, false);
    assert_eq!(nfail, 0);
}

#[test]
fn c01_lwe_ntt120() {
    let nfail = sweep::<NTT120Ref>("lwe-ntt120", 52, 16, false);
    assert_eq!(nfail, 0);
}

/// Plaintext given in a radix different from the ciphertext's: the message must still land at its own position.
#[test]
fn c01_lwe_cross_radix_pt_fft64() {
    let nfail = sweep::<FFT64Ref>("lwe-xpt-fft64", 50, 8, true);
    assert_eq!(nfail, 0);
}
