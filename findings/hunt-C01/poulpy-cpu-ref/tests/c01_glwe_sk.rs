//! C01 audit: GLWE secret-key / compressed encrypt -> decrypt, coefficient-wise exact oracle.
//!
//! Oracle: exact integer model of the torus (see c01_common::Tor).
//!  (A) phase(ct) - m  (computed exactly from ct, sk, m) must be a valid noise sample:
//!      |e| <= round(bound * 2^scale) on limb ceil(k/base2k)-1 and nothing on other limbs.
//!  (B) decrypt(ct) must equal phase(ct) rounded to the output plaintext layout (<= 1 unit of its last limb),
//!      and must be a normalised representation.
//!  (C) end-to-end: |decrypt(ct) - m| <= bound*2^-k (+ rounding units).
mod c01_common;
use c01_common::*;

use std::panic::{AssertUnwindSafe, catch_unwind};

use poulpy_core::{
    EncryptionLayout, GLWECompressedEncryptSk, GLWEDecrypt, GLWEEncryptSk, ScratchTakeCore,
    layouts::{
        Base2K, Degree, GLWE, GLWEInfos, GLWELayout, GLWEPlaintext, GLWESecret, GLWESecretPreparedFactory, LWEInfos, Rank,
        TorusPrecision,
        compressed::{GLWECompressed, GLWEDecompress},
        prepared::GLWESecretPrepared,
    },
    test_suite::TestBackend,
};
use poulpy_cpu_ref::{
    FFT64Ref, NTT120Ref,
    api::{ModuleNew, ScratchAvailable, ScratchOwnedAlloc, ScratchOwnedBorrow},
    layouts::{DeviceBuf, Module, NoiseInfos, ScalarZnx, Scratch, ScratchOwned, ZnxInfos, ZnxView, ZnxViewMut},
    source::Source,
};

#[derive(Clone, Debug)]
pub struct Case {
    pub n: usize,
    pub rank: usize,
    pub base2k: usize,
    pub size: usize,
    pub k_noise: usize,
    pub pt_size: usize,
    pub pt_base2k: usize,
    pub out_base2k: usize,
    pub out_size: usize,
    pub sk: SkKind,
    pub msg: MsgKind,
    pub seed: u32,
    pub compressed: bool,
    pub dirty: bool,
    pub exact_scratch: bool,
    pub sigma: f64,
    pub bound: f64,
}

pub struct Outcome {
    pub msgs: Vec<String>,
}

pub fn run_case<BE: TestBackend>(module: &Module<BE>, c: &Case) -> Vec<String>
where
    Module<BE>: GLWEEncryptSk<BE> + GLWEDecrypt<BE> + GLWESecretPreparedFactory<BE> + GLWECompressedEncryptSk<BE> + GLWEDecompress,
    ScratchOwned<BE>: ScratchOwnedAlloc<BE> + ScratchOwnedBorrow<BE>,
    Scratch<BE>: ScratchAvailable + ScratchTakeCore<BE>,
{
    let mut fails: Vec<String> = Vec::new();
    let n = c.n;
    let bound = c.bound;
    let layout = GLWELayout {
        n: Degree(n as u32),
        base2k: Base2K(c.base2k as u32),
        k: TorusPrecision((c.size * c.base2k) as u32),
        rank: Rank(c.rank as u32),
    };
    let noise = NoiseInfos::new(c.k_noise, c.sigma, bound).unwrap();
    let enc_infos = EncryptionLayout::new(layout, noise).unwrap();

    let (sk, sk_shadow) = make_sk(n, c.rank, c.sk, seed(c.seed, 1));
    let mut sk_prep: GLWESecretPrepared<DeviceBuf<BE>, BE> = module.glwe_secret_prepared_alloc(Rank(c.rank as u32));
    module.glwe_secret_prepare(&mut sk_prep, &sk);

    let mut pt: GLWEPlaintext<Vec<u8>> = GLWEPlaintext::alloc(
        Degree(n as u32),
        Base2K(c.pt_base2k as u32),
        TorusPrecision((c.pt_size * c.pt_base2k) as u32),
    );
    let mut src_m = Source::new(seed(c.seed, 2));
    fill_msg(&mut pt, c.msg, &mut src_m);

    let mut ct: GLWE<Vec<u8>> = GLWE::alloc_from_infos(&layout);
    if c.seed % 4 == 1 {
        // ciphertext with spare limb capacity (max_size > size)
        ct = GLWE::alloc(
            Degree(n as u32),
            Base2K(c.base2k as u32),
            TorusPrecision(((c.size + 2) * c.base2k) as u32),
            Rank(c.rank as u32),
        );
        ct.data_mut().set_size(c.size);
    }
    if c.dirty {
        ct.data_mut().raw_mut().iter_mut().enumerate().for_each(|(i, x)| *x = 0x5A5A_5A5A_5A5A_5A5Ai64 ^ (i as i64));
    }

    let enc_bytes = if c.compressed {
        module.glwe_compressed_encrypt_sk_tmp_bytes(&layout)
    } else {
        module.glwe_encrypt_sk_tmp_bytes(&layout)
    };
    let dec_bytes = module.glwe_decrypt_tmp_bytes(&layout);

    let mut scratch_enc: ScratchOwned<BE> = ScratchOwned::alloc(if c.exact_scratch { enc_bytes } else { enc_bytes + 4096 });
    let mut scratch_dec: ScratchOwned<BE> = ScratchOwned::alloc(if c.exact_scratch { dec_bytes } else { dec_bytes + 4096 });
    if c.dirty {
        scratch_enc.borrow().data.fill(0xA7);
        scratch_dec.borrow().data.fill(0xC3);
    }

    let mut source_xe = Source::new(seed(c.seed, 3));
    let seed_xa = seed(c.seed, 4);

    if c.compressed {
        let mut ctc: GLWECompressed<Vec<u8>> = GLWECompressed::alloc_from_infos(&layout);
        if c.dirty {
            // only through encrypt; nothing public to dirty besides encrypt output
        }
        module.glwe_compressed_encrypt_sk(&mut ctc, &pt, &sk_prep, seed_xa, &enc_infos, &mut source_xe, scratch_enc.borrow());
        module.decompress_glwe(&mut ct, &ctc);

        // sibling agreement: plain encryption with same seeds must give the same ciphertext
        let mut ct2: GLWE<Vec<u8>> = GLWE::alloc_from_infos(&layout);
        let mut xe2 = Source::new(seed(c.seed, 3));
        let mut xa2 = Source::new(seed_xa);
        let mut scratch2: ScratchOwned<BE> = ScratchOwned::alloc(module.glwe_encrypt_sk_tmp_bytes(&layout));
        module.glwe_encrypt_sk(&mut ct2, &pt, &sk_prep, &enc_infos, &mut xe2, &mut xa2, scratch2.borrow());
        let same = (0..c.rank + 1).all(|col| (0..c.size).all(|j| ct.data().at(col, j) == ct2.data().at(col, j)));
        if !same {
            fails.push("compressed+decompress != plain encrypt_sk with same seeds".to_string());
        }
    } else {
        let mut source_xa = Source::new(seed_xa);
        module.glwe_encrypt_sk(&mut ct, &pt, &sk_prep, &enc_infos, &mut source_xe, &mut source_xa, scratch_enc.borrow());
        if c.msg == MsgKind::Zero {
            // sibling agreement: encrypt_zero_sk with the same seeds
            let mut ct2: GLWE<Vec<u8>> = GLWE::alloc_from_infos(&layout);
            ct2.data_mut().raw_mut().fill(-77);
            let mut xe2 = Source::new(seed(c.seed, 3));
            let mut xa2 = Source::new(seed_xa);
            module.glwe_encrypt_zero_sk(&mut ct2, &sk_prep, &enc_infos, &mut xe2, &mut xa2, scratch_enc.borrow());
            let same = (0..c.rank + 1).all(|col| (0..c.size).all(|j| ct.data().at(col, j) == ct2.data().at(col, j)));
            if !same {
                fails.push("compressed: encrypt_zero_sk != encrypt_sk(0) with same seeds".to_string());
            }
        }
    }

    // ciphertext must be normalised
    {
        let half = 1i64 << (c.base2k - 1);
        for col in 0..c.rank + 1 {
            for j in 0..c.size {
                for &x in ct.data().at(col, j) {
                    if x < -half || x > half {
                        fails.push(format!("ct not normalised col={col} limb={j} x={x}"));
                        break;
                    }
                }
            }
        }
    }

    // (A) exact phase check
    let (thr, lsb, _limb) = noise_threshold(c.k_noise, bound, c.base2k);
    let mut phases: Vec<Tor> = Vec::with_capacity(n);
    let mut ms: Vec<Tor> = Vec::with_capacity(n);
    let mut worst_a = f64::NEG_INFINITY;
    for t in 0..n {
        let ph = phase_tor(&ct, &sk_shadow, t);
        // message as seen by encryption
        let m_full = tor_of(&pt.data, c.pt_base2k, 0, t, c.pt_size);
        let m_enc = if c.pt_base2k == c.base2k {
            tor_of(&pt.data, c.pt_base2k, 0, t, c.pt_size.min(c.size))
        } else {
            m_full.clone()
        };
        let e = ph.sub(&m_enc);
        let ea = e.abs();
        worst_a = worst_a.max(ea.log2_abs());
        if !ea.le_unsigned(&thr) {
            fails.push(format!(
                "(A) coeff {t}: |phase - m| = 2^{:.2} > noise bound 2^{:.2}",
                ea.log2_abs(),
                thr.log2_abs()
            ));
        } else if !e.is_zero() && e.trailing_zeros() < lsb {
            fails.push(format!("(A) coeff {t}: error has bits below the noise limb (tz={} < {lsb})", e.trailing_zeros()));
        }
        phases.push(ph);
        ms.push(m_full);
    }

    // (B)/(C) decrypt
    let mut pt_out: GLWEPlaintext<Vec<u8>> = GLWEPlaintext::alloc(
        Degree(n as u32),
        Base2K(c.out_base2k as u32),
        TorusPrecision((c.out_size * c.out_base2k) as u32),
    );
    if c.dirty {
        pt_out.data.raw_mut().iter_mut().enumerate().for_each(|(i, x)| *x = 0x1357_9BDF_0246_8ACEi64 ^ ((i as i64) << 7));
    }
    let ct_before = ct.data().raw().to_vec();
    module.glwe_decrypt(&ct, &mut pt_out, &sk_prep, scratch_dec.borrow());
    if ct.data().raw() != ct_before.as_slice() {
        fails.push("decrypt modified the ciphertext".to_string());
    }

    let ko = c.out_size * c.out_base2k;
    let kc = c.size * c.base2k;
    let unit_o = pow2_neg(ko);
    let half_o = 1i64 << (c.out_base2k - 1);
    let tol_base = thr.add(&unit_o);
    let _ = kc;
    for t in 0..n {
        // message limbs beyond the ciphertext precision are dropped by encryption: allow exactly that truncation
        let mut tol_c = tol_base.clone();
        if c.pt_base2k == c.base2k && c.pt_size > c.size {
            let m_enc = tor_of(&pt.data, c.pt_base2k, 0, t, c.size);
            tol_c.add_assign(&ms[t].sub(&m_enc).abs());
        }
        let o = tor_of(&pt_out.data, c.out_base2k, 0, t, c.out_size);
        let d = o.sub(&phases[t]).abs();
        if !d.le_unsigned(&unit_o) {
            fails.push(format!(
                "(B) coeff {t}: |decrypt - phase| = 2^{:.2} > 1 unit of out last limb 2^-{ko}",
                d.log2_abs()
            ));
        }
        let dc = o.sub(&ms[t]).abs();
        if !dc.le_unsigned(&tol_c) {
            fails.push(format!(
                "(C) coeff {t}: |decrypt - m| = 2^{:.2} > tol 2^{:.2}",
                dc.log2_abs(),
                tol_c.log2_abs()
            ));
        }
        for j in 0..c.out_size {
            let x = pt_out.data.at(0, j)[t];
            if x < -half_o || x > half_o {
                fails.push(format!("(N) out not normalised limb={j} coeff={t} x={x}"));
            }
        }
    }
    let _ = worst_a;
    // keep at most 2 messages per tag
    let mut out: Vec<String> = Vec::new();
    for tag in ["(A)", "(B)", "(C)", "(N)", "ct not", "compressed", "decrypt mod"] {
        out.extend(fails.iter().filter(|m| m.starts_with(tag)).take(2).cloned());
    }
    out
}

pub fn run_guarded<BE: TestBackend>(module: &Module<BE>, c: &Case) -> Vec<String>
where
    Module<BE>: GLWEEncryptSk<BE> + GLWEDecrypt<BE> + GLWESecretPreparedFactory<BE> + GLWECompressedEncryptSk<BE> + GLWEDecompress,
    ScratchOwned<BE>: ScratchOwnedAlloc<BE> + ScratchOwnedBorrow<BE>,
    Scratch<BE>: ScratchAvailable + ScratchTakeCore<BE>,
{
    match catch_unwind(AssertUnwindSafe(|| run_case(module, c))) {
        Ok(v) => v,
        Err(e) => {
            let s = if let Some(s) = e.downcast_ref::<String>() {
                s.clone()
            } else if let Some(s) = e.downcast_ref::<&str>() {
                s.to_string()
            } else {
                "panic".to_string()
            };
            vec![format!("PANIC: {s}")]
        }
    }
}

pub fn sweep<BE: TestBackend>(name: &str, max_base2k: usize, ns: &[usize], thorough: bool, cross_pt: bool) -> usize
where
    Module<BE>: ModuleNew<BE>
        + GLWEEncryptSk<BE>
        + GLWEDecrypt<BE>
        + GLWESecretPreparedFactory<BE>
        + GLWECompressedEncryptSk<BE>
        + GLWEDecompress,
    ScratchOwned<BE>: ScratchOwnedAlloc<BE> + ScratchOwnedBorrow<BE>,
    Scratch<BE>: ScratchAvailable + ScratchTakeCore<BE>,
{
    let mut nfail = 0usize;
    let mut ncase = 0usize;
    let mut per_tag: std::collections::BTreeMap<String, usize> = Default::default();
    let mut seedctr: u32 = 0;
    for &n in ns {
        let module: Module<BE> = Module::<BE>::new(n as u64);
        let base2ks: Vec<usize> = if thorough {
            (1..=max_base2k).collect()
        } else {
            vec![1, 2, 3, 7, 12, 17, 19, 25, 31, 32, 33, 40, 45, max_base2k - 2, max_base2k - 1, max_base2k].into_iter().filter(|b| *b <= max_base2k).collect()
        };
        for &b in &base2ks {
            // FFT64 exactness domain (see report): product magnitude n * 2^(b-1) must fit the f64 mantissa with margin
            for rank in 0..=3usize {
                let s0 = 10usize.div_ceil(b);
                for size in s0..=s0 + 3 {
                    // noise precisions: all in ((size-1)*b, size*b], plus coarser ones in earlier limbs
                    let mut ks: Vec<usize> = vec![size * b, (size - 1) * b + 1, (size - 1) * b + b.div_ceil(2)];
                    if size > 1 {
                        ks.push((size - 1) * b);
                        ks.push((size - 2) * b + 1);
                    }
                    ks.sort();
                    ks.dedup();
                    for &k in &ks {
                        if k < 9 {
                            // bound * 2^-k >= 2^-5: the property is (nearly) vacuous
                            continue;
                        }
                        let sks = [
                            SkKind::TernaryProb(0.5),
                            SkKind::TernaryHw(n),
                            SkKind::TernaryHw(1),
                            SkKind::BinaryProb(0.5),
                            SkKind::BinaryHw(n),
                            SkKind::BinaryBlock(4),
                            SkKind::Zero,
                        ];
                        let msgs = [
                            MsgKind::Rand,
                            MsgKind::MaxPos,
                            MsgKind::MinNeg,
                            MsgKind::PlusHalf,
                            MsgKind::Alt,
                            MsgKind::Zero,
                            MsgKind::Unnorm,
                        ];
                        // rotate through kinds to keep the sweep tractable
                        let variants = if thorough { 28 } else { 3 };
                        for v in 0..variants {
                            seedctr = seedctr.wrapping_add(1);
                            let mut skk = sks[(seedctr as usize + v) % sks.len()];
                            if rank == 0 && skk == SkKind::Zero {
                                // GLWESecret::alloc(n, 0).fill_zero() aborts (UB check in ZnxViewMut::raw_mut on an empty Vec<u8>)
                                skk = SkKind::TernaryProb(0.5);
                            }
                            let mk = msgs[(seedctr as usize / 2 + v) % msgs.len()];
                            let pt_sizes = [size, 1, size + 1, size.saturating_sub(1).max(1)];
                            let pt_size = pt_sizes[(seedctr as usize + v) % pt_sizes.len()];
                            // output layouts
                            let outs: Vec<(usize, usize)> = vec![
                                (b, size),
                                (b, (size + 1)),
                                (b, size.saturating_sub(1).max(1)),
                                ((b + 3).min(max_base2k), size),
                                (b.saturating_sub(3).max(1), size + 1),
                                (max_base2k, 1),
                                (1.max(b / 2), 2 * size),
                            ];
                            let (ob, os) = outs[(seedctr as usize / 3 + v) % outs.len()];
                            let (pt_base2k, pt_size) = if cross_pt {
                                let pb = [(b + 5).min(max_base2k), b.saturating_sub(4).max(1)][(seedctr as usize) % 2];
                                (pb, (size * b).div_ceil(pb))
                            } else {
                                (b, pt_size)
                            };
                            if cross_pt && pt_base2k == b {
                                continue;
                            }
                            let c = Case {
                                n,
                                rank,
                                base2k: b,
                                size,
                                k_noise: k,
                                pt_size,
                                pt_base2k,
                                out_base2k: ob,
                                out_size: os,
                                sk: skk,
                                msg: mk,
                                seed: seedctr,
                                compressed: (seedctr as usize + v) % 3 == 0,
                                dirty: (seedctr as usize + v) % 2 == 0,
                                exact_scratch: (seedctr as usize / 2 + v) % 2 == 0,
                                sigma: 3.2,
                                bound: 19.2,
                            };
                            let mut c = c;
                            match (seedctr as usize / 7 + v) % 6 {
                                1 => {
                                    c.sigma = 1.0;
                                    c.bound = 1.0;
                                }
                                2 => {
                                    c.sigma = 1.0;
                                    c.bound = 7.5;
                                }
                                3 => {
                                    // bound * 2^(limb_bits - k) must fit an i64 (the sampler only guards log2(bound) < 64)
                                    if k >= 26 && b <= 46 {
                                        c.sigma = 3.2 * 1024.0;
                                        c.bound = 19.2 * 1024.0 + 0.3;
                                    }
                                }
                                _ => {}
                            }
                            ncase += 1;
                            let f = run_guarded(&module, &c);
                            if !f.is_empty() {
                                let mut tags: Vec<String> = f.iter().map(|m| m.chars().take(3).collect::<String>()).collect();
                                tags.sort();
                                tags.dedup();
                                if is_hard_failure(name, &tags, c.n, c.base2k) {
                                    nfail += 1;
                                }
                                let key = tags.join("+");
                                println!("F|{name}|{key}|n={}|b={}|rank={}|{:?}", c.n, c.base2k, c.rank, c.sk);
                                let cnt = per_tag.entry(key.clone()).or_insert(0);
                                *cnt += 1;
                                if *cnt <= 10 {
                                    println!("[{name}] FAIL[{key}] {c:?}");
                                    for m in &f {
                                        println!("      {m}");
                                    }
                                }
                            }
                        }
                    }
                }
            }
        }
    }
    println!("[{name}] cases={ncase} hard_failures={nfail} per_tag={per_tag:?}");
    nfail
}

#[test]
fn c01_glwe_sk_fft64() {
    let nfail = sweep::<FFT64Ref>("fft64", 50, &[8, 16, 64], false, false);
    assert_eq!(nfail, 0);
}

#[test]
fn c01_glwe_sk_ntt120() {
    let nfail = sweep::<NTT120Ref>("ntt120", 52, &[8, 16, 64], false, false);
    assert_eq!(nfail, 0);
}

/// Plaintext given in a radix different from the ciphertext's (not rejected by glwe_encrypt_sk).
#[test]
fn c01_glwe_sk_cross_radix_pt_ntt120() {
    let nfail = sweep::<NTT120Ref>("xpt-ntt120", 52, &[8], false, true);
    assert_eq!(nfail, 0);
}

/// Every radix, more ring degrees and variants. Long; run with --ignored.
#[test]
#[ignore]
fn c01_glwe_sk_thorough_ntt120() {
    let nfail = sweep::<NTT120Ref>("T-ntt120", 52, &[8, 16, 32, 64, 128, 256], true, false);
    assert_eq!(nfail, 0);
}

#[test]
#[ignore]
fn c01_glwe_sk_thorough_fft64() {
    let nfail = sweep::<FFT64Ref>("T-fft64", 50, &[8, 16, 32, 64, 128, 256], true, false);
    assert_eq!(nfail, 0);
}

/// Larger ring degrees (the oracle is quadratic in N: few radices only).
#[test]
#[ignore]
fn c01_glwe_sk_large_n_ntt120() {
    let nfail = sweep::<NTT120Ref>("L-ntt120", 52, &[1024, 2048], false, false);
    assert_eq!(nfail, 0);
}

#[test]
#[ignore]
fn c01_glwe_sk_large_n_fft64() {
    let nfail = sweep::<FFT64Ref>("L-fft64", 42, &[1024, 2048], false, false);
    assert_eq!(nfail, 0);
}
