//! C01 audit: minimal directed reproductions of the defects found by the sweeps.
//! Every test asserts the behaviour the property demands, so each one FAILS on the unmodified library.
mod c01_common;
use c01_common::*;

use poulpy_core::{
    EncryptionLayout, GLWECompressedEncryptSk, GLWEDecrypt, GLWEEncryptPk, GLWEEncryptSk, GLWEPublicKeyGenerate, LWEDecrypt,
    LWEEncryptSk,
    layouts::{
        Base2K, Degree, GLWE, GLWELayout, GLWEPlaintext, GLWEPublicKey, GLWEPublicKeyPreparedFactory, GLWESecretPreparedFactory,
        LWE, LWELayout, LWEPlaintext, LWESecret, Rank, TorusPrecision,
        compressed::{GLWECompressed, GLWEDecompress},
        prepared::{GLWEPublicKeyPrepared, GLWESecretPrepared},
    },
};
use poulpy_cpu_ref::{
    NTT120Ref,
    api::{ModuleNew, ScratchOwnedAlloc, ScratchOwnedBorrow},
    layouts::{DeviceBuf, Module, NoiseInfos, ScratchOwned, ZnxView, ZnxViewMut},
    source::Source,
};

type BE = NTT120Ref;

/// F1a: glwe_encrypt_sk takes a plaintext whose radix differs from the ciphertext's, copies its limbs raw and
/// encrypts another message. (glwe_encrypt_pk asserts pt.base2k() == pk.base2k(); glwe_decrypt converts radices.)
#[test]
fn f1a_glwe_encrypt_sk_cross_radix_plaintext() {
    let n = 8usize;
    let module: Module<BE> = Module::<BE>::new(n as u64);
    let layout = GLWELayout { n: Degree(8), base2k: Base2K(12), k: TorusPrecision(36), rank: Rank(1) };
    let enc = EncryptionLayout::new_from_default_sigma(layout).unwrap();
    let (sk, _) = make_sk(n, 1, SkKind::TernaryProb(0.5), [1u8; 32]);
    let mut skp: GLWESecretPrepared<DeviceBuf<BE>, BE> = module.glwe_secret_prepared_alloc(Rank(1));
    module.glwe_secret_prepare(&mut skp, &sk);

    // m = 2^-8 in every coefficient, written in radix 2^8
    let mut pt: GLWEPlaintext<Vec<u8>> = GLWEPlaintext::alloc(Degree(8), Base2K(8), TorusPrecision(32));
    pt.data.at_mut(0, 0).fill(1);

    let mut ct: GLWE<Vec<u8>> = GLWE::alloc_from_infos(&layout);
    let mut scratch: ScratchOwned<BE> =
        ScratchOwned::alloc(module.glwe_encrypt_sk_tmp_bytes(&layout).max(module.glwe_decrypt_tmp_bytes(&layout)));
    let r = std::panic::catch_unwind(std::panic::AssertUnwindSafe(|| {
        module.glwe_encrypt_sk(
            &mut ct,
            &pt,
            &skp,
            &enc,
            &mut Source::new([2u8; 32]),
            &mut Source::new([3u8; 32]),
            scratch.borrow(),
        );
    }));
    if r.is_err() {
        return; // rejecting the input is fine
    }
    let mut out: GLWEPlaintext<Vec<u8>> = GLWEPlaintext::alloc(Degree(8), Base2K(8), TorusPrecision(32));
    module.glwe_decrypt(&ct, &mut out, &skp, scratch.borrow());
    let want = tor_of(&pt.data, 8, 0, 0, 4);
    let have = tor_of(&out.data, 8, 0, 0, 4);
    let err = have.sub(&want).abs();
    assert!(
        err.log2_abs() < -30.0,
        "decrypt(encrypt(2^-8 in radix 2^8)) is off by 2^{:.2} (have limbs {:?})",
        err.log2_abs(),
        (0..4).map(|j| out.data.at(0, j)[0]).collect::<Vec<_>>()
    );
}

/// F1b: same for the seed-compressed form.
#[test]
fn f1b_glwe_compressed_encrypt_sk_cross_radix_plaintext() {
    let n = 8usize;
    let module: Module<BE> = Module::<BE>::new(n as u64);
    let layout = GLWELayout { n: Degree(8), base2k: Base2K(12), k: TorusPrecision(36), rank: Rank(1) };
    let enc = EncryptionLayout::new_from_default_sigma(layout).unwrap();
    let (sk, _) = make_sk(n, 1, SkKind::TernaryProb(0.5), [1u8; 32]);
    let mut skp: GLWESecretPrepared<DeviceBuf<BE>, BE> = module.glwe_secret_prepared_alloc(Rank(1));
    module.glwe_secret_prepare(&mut skp, &sk);
    let mut pt: GLWEPlaintext<Vec<u8>> = GLWEPlaintext::alloc(Degree(8), Base2K(8), TorusPrecision(32));
    pt.data.at_mut(0, 0).fill(1);
    let mut ctc: GLWECompressed<Vec<u8>> = GLWECompressed::alloc_from_infos(&layout);
    let mut scratch: ScratchOwned<BE> = ScratchOwned::alloc(
        module.glwe_compressed_encrypt_sk_tmp_bytes(&layout).max(module.glwe_decrypt_tmp_bytes(&layout)),
    );
    let r = std::panic::catch_unwind(std::panic::AssertUnwindSafe(|| {
        module.glwe_compressed_encrypt_sk(&mut ctc, &pt, &skp, [3u8; 32], &enc, &mut Source::new([2u8; 32]), scratch.borrow());
    }));
    if r.is_err() {
        return;
    }
    let mut ct: GLWE<Vec<u8>> = GLWE::alloc_from_infos(&layout);
    module.decompress_glwe(&mut ct, &ctc);
    let mut out: GLWEPlaintext<Vec<u8>> = GLWEPlaintext::alloc(Degree(8), Base2K(8), TorusPrecision(32));
    module.glwe_decrypt(&ct, &mut out, &skp, scratch.borrow());
    let err = tor_of(&out.data, 8, 0, 0, 4).sub(&tor_of(&pt.data, 8, 0, 0, 4)).abs();
    assert!(err.log2_abs() < -30.0, "off by 2^{:.2}", err.log2_abs());
}

/// F1c: same for LWE.
#[test]
fn f1c_lwe_encrypt_sk_cross_radix_plaintext() {
    let module: Module<BE> = Module::<BE>::new(8);
    let layout = LWELayout { n: Degree(5), base2k: Base2K(12), k: TorusPrecision(36) };
    let enc = EncryptionLayout::new_from_default_sigma(layout).unwrap();
    let mut sk: LWESecret<Vec<u8>> = LWESecret::alloc(Degree(5));
    sk.fill_ternary_prob(0.5, &mut Source::new([1u8; 32]));
    let mut pt: LWEPlaintext<Vec<u8>> = LWEPlaintext::alloc(Base2K(8), TorusPrecision(32));
    pt.data_mut().at_mut(0, 0)[0] = 1; // 2^-8
    let mut ct: LWE<Vec<u8>> = LWE::alloc_from_infos(&layout);
    let mut scratch: ScratchOwned<BE> =
        ScratchOwned::alloc(module.lwe_encrypt_sk_tmp_bytes(&layout).max(module.lwe_decrypt_tmp_bytes(&layout)));
    let r = std::panic::catch_unwind(std::panic::AssertUnwindSafe(|| {
        module.lwe_encrypt_sk(&mut ct, &pt, &sk, &enc, &mut Source::new([2u8; 32]), &mut Source::new([3u8; 32]), scratch.borrow());
    }));
    if r.is_err() {
        return;
    }
    let mut out: LWEPlaintext<Vec<u8>> = LWEPlaintext::alloc(Base2K(8), TorusPrecision(32));
    module.lwe_decrypt(&ct, &mut out, &sk, scratch.borrow());
    let err = tor_of(out.data(), 8, 0, 0, 4).sub(&tor_of(pt.data(), 8, 0, 0, 4)).abs();
    assert!(err.log2_abs() < -30.0, "off by 2^{:.2}", err.log2_abs());
}

/// F2: glwe_encrypt_pk on the scratch its own query declares, for a ciphertext shorter than the public key.
/// The query is evaluated on the ciphertext, the operation sizes its DFT temporary by the key.
#[test]
fn f2_glwe_encrypt_pk_declared_scratch_ct_shorter_than_pk() {
    let n = 8usize;
    let module: Module<BE> = Module::<BE>::new(n as u64);
    let pk_layout = GLWELayout { n: Degree(8), base2k: Base2K(17), k: TorusPrecision(34), rank: Rank(1) };
    let ct_layout = GLWELayout { n: Degree(8), base2k: Base2K(17), k: TorusPrecision(17), rank: Rank(1) };
    let noise = NoiseInfos::new(17, 3.2, 19.2).unwrap();
    let pk_infos = EncryptionLayout::new(pk_layout, noise).unwrap();
    let ct_infos = EncryptionLayout::new(ct_layout, noise).unwrap();
    let (sk, _) = make_sk(n, 1, SkKind::TernaryProb(0.5), [1u8; 32]);
    let mut skp: GLWESecretPrepared<DeviceBuf<BE>, BE> = module.glwe_secret_prepared_alloc(Rank(1));
    module.glwe_secret_prepare(&mut skp, &sk);
    let mut pk: GLWEPublicKey<Vec<u8>> = GLWEPublicKey::alloc_from_infos(&pk_layout);
    module.glwe_public_key_generate(&mut pk, &skp, &pk_infos, &mut Source::new([4u8; 32]), &mut Source::new([5u8; 32]));
    let mut pkp: GLWEPublicKeyPrepared<DeviceBuf<BE>, BE> = module.glwe_public_key_prepared_alloc_from_infos(&pk_layout);
    module.glwe_public_key_prepare(&mut pkp, &pk);
    let pt: GLWEPlaintext<Vec<u8>> = GLWEPlaintext::alloc(Degree(8), Base2K(17), TorusPrecision(17));
    let mut ct: GLWE<Vec<u8>> = GLWE::alloc_from_infos(&ct_layout);
    let mut scratch: ScratchOwned<BE> = ScratchOwned::alloc(module.glwe_encrypt_pk_tmp_bytes(&ct_layout));
    // must not panic
    module.glwe_encrypt_pk(&mut ct, &pt, &pkp, &ct_infos, &mut Source::new([6u8; 32]), &mut Source::new([7u8; 32]), scratch.borrow());
}

/// F4: the noise sampler guards log2(bound) < 64 but samples bound * 2^(limb_bits - k): with a large configured bound the
/// scaled sample leaves the i64 range (saturating cast, then `+=` overflows: debug panic, release wrap).
#[test]
fn f4_scaled_noise_bound_overflows_i64() {
    let n = 8usize;
    let module: Module<BE> = Module::<BE>::new(n as u64);
    let layout = GLWELayout { n: Degree(8), base2k: Base2K(52), k: TorusPrecision(104), rank: Rank(1) };
    // k = 53: noise on limb 1 with scale 2^51; bound = 2^14.3 -> scaled bound 2^65.3
    let noise = NoiseInfos::new(53, 3276.8, 19661.1).unwrap();
    let enc = EncryptionLayout::new(layout, noise).unwrap();
    let (sk, _) = make_sk(n, 1, SkKind::TernaryProb(0.5), [1u8; 32]);
    let mut skp: GLWESecretPrepared<DeviceBuf<BE>, BE> = module.glwe_secret_prepared_alloc(Rank(1));
    module.glwe_secret_prepare(&mut skp, &sk);
    let pt: GLWEPlaintext<Vec<u8>> = GLWEPlaintext::alloc(Degree(8), Base2K(52), TorusPrecision(104));
    let mut ct: GLWE<Vec<u8>> = GLWE::alloc_from_infos(&layout);
    let mut scratch: ScratchOwned<BE> = ScratchOwned::alloc(module.glwe_encrypt_sk_tmp_bytes(&layout));
    for s in 0..16u8 {
        module.glwe_encrypt_sk(&mut ct, &pt, &skp, &enc, &mut Source::new([s; 32]), &mut Source::new([3u8; 32]), scratch.borrow());
    }
}
