//! Shared helpers for the C01 (encrypt-then-decrypt) audit tests.
//!
//! `Tor` is a tiny fixed-width two's complement integer used as an exact model of
//! a torus element (value mod 1 with P fractional bits).
#![allow(dead_code)]

use poulpy_core::layouts::{Degree, GLWE, GLWEInfos, GLWEPlaintext, GLWESecret, LWEInfos, Rank};
use poulpy_cpu_ref::{
    layouts::{ScalarZnx, VecZnx, ZnxInfos, ZnxView, ZnxViewMut},
    source::Source,
};

pub const W: usize = 10;
pub const P: usize = 64 * W;

#[derive(Clone, PartialEq, Eq, Debug)]
pub struct Tor(pub [u64; W]);

impl Tor {
    pub fn zero() -> Self {
        Tor([0u64; W])
    }

    /// v * 2^sh mod 2^P
    pub fn from_i64_shifted(v: i64, sh: usize) -> Self {
        assert!(sh < P, "shift {sh} >= P");
        let ext: u64 = if v < 0 { u64::MAX } else { 0 };
        let mut x = [ext; W];
        x[0] = v as u64;
        let ws = sh / 64;
        let bs = sh % 64;
        let mut out = [0u64; W];
        for i in ws..W {
            let lo = x[i - ws] << bs;
            let hi = if bs > 0 && i > ws { x[i - ws - 1] >> (64 - bs) } else { 0 };
            out[i] = lo | hi;
        }
        Tor(out)
    }

    pub fn add_assign(&mut self, o: &Tor) {
        let mut carry = 0u128;
        for i in 0..W {
            let s = self.0[i] as u128 + o.0[i] as u128 + carry;
            self.0[i] = s as u64;
            carry = s >> 64;
        }
    }

    pub fn neg(&self) -> Tor {
        let mut out = Tor::zero();
        let mut carry = 1u128;
        for i in 0..W {
            let s = (!self.0[i]) as u128 + carry;
            out.0[i] = s as u64;
            carry = s >> 64;
        }
        out
    }

    pub fn sub(&self, o: &Tor) -> Tor {
        let mut out = self.clone();
        out.add_assign(&o.neg());
        out
    }

    pub fn add(&self, o: &Tor) -> Tor {
        let mut out = self.clone();
        out.add_assign(o);
        out
    }

    pub fn is_neg(&self) -> bool {
        (self.0[W - 1] >> 63) == 1
    }

    /// Centered absolute value (value interpreted in [-1/2, 1/2)).
    pub fn abs(&self) -> Tor {
        if self.is_neg() { self.neg() } else { self.clone() }
    }

    /// self <= o, both interpreted as unsigned
    pub fn le_unsigned(&self, o: &Tor) -> bool {
        for i in (0..W).rev() {
            if self.0[i] != o.0[i] {
                return self.0[i] < o.0[i];
            }
        }
        true
    }

    pub fn is_zero(&self) -> bool {
        self.0.iter().all(|x| *x == 0)
    }

    /// number of trailing zero bits (P if zero)
    pub fn trailing_zeros(&self) -> usize {
        for i in 0..W {
            if self.0[i] != 0 {
                return i * 64 + self.0[i].trailing_zeros() as usize;
            }
        }
        P
    }

    /// log2 of |self| as torus element in [-1/2,1/2): returns log2(|x|) (negative number), -inf if zero.
    pub fn log2_abs(&self) -> f64 {
        let a = self.abs();
        for i in (0..W).rev() {
            if a.0[i] != 0 {
                let top = a.0[i] as f64;
                let lowc = if i > 0 { a.0[i - 1] as f64 / 18446744073709551616.0 } else { 0.0 };
                return (top + lowc).log2() + (i * 64) as f64 - P as f64;
            }
        }
        f64::NEG_INFINITY
    }

    /// Multiply by small unsigned integer.
    pub fn mul_small(&self, m: u64) -> Tor {
        let mut out = Tor::zero();
        let mut carry = 0u128;
        for i in 0..W {
            let s = self.0[i] as u128 * m as u128 + carry;
            out.0[i] = s as u64;
            carry = s >> 64;
        }
        out
    }
}

/// Exact torus value of coefficient `idx` of column `col`, reading `size` limbs.
pub fn tor_of(v: &VecZnx<impl poulpy_cpu_ref::layouts::DataRef>, base2k: usize, col: usize, idx: usize, size: usize) -> Tor {
    let mut t = Tor::zero();
    for j in 0..size.min(v.size()) {
        let sh = P - (j + 1) * base2k;
        t.add_assign(&Tor::from_i64_shifted(v.at(col, j)[idx], sh));
    }
    t
}

/// 2^-k as torus element
pub fn pow2_neg(k: usize) -> Tor {
    Tor::from_i64_shifted(1, P - k)
}

/// Independent model of the noise placement: max |e| (as torus element) a conforming
/// sampler can produce for (k, bound) at radix base2k, and the bit position of its lsb.
pub fn noise_threshold(k: usize, bound: f64, base2k: usize) -> (Tor, usize, usize) {
    let limb = k.div_ceil(base2k) - 1;
    let sc = (limb + 1) * base2k - k;
    let maxv = (bound * (sc as f64).exp2() + 0.5).floor() as i64;
    let lsb = P - (limb + 1) * base2k;
    (Tor::from_i64_shifted(maxv, lsb), lsb, limb)
}

/// Negacyclic product coefficient: (a * s)[t] over Z[X]/(X^n+1), with a given limb-wise, s small.
/// Returns sum as Tor for column `col` of `a` using all `size` limbs.
pub fn negacyclic_tor(
    a: &VecZnx<impl poulpy_cpu_ref::layouts::DataRef>,
    base2k: usize,
    col: usize,
    size: usize,
    s: &[i64],
    t: usize,
) -> Tor {
    let n = s.len();
    let mut acc = Tor::zero();
    for j in 0..size {
        let sh = P - (j + 1) * base2k;
        let limb = a.at(col, j);
        // coefficient t of limb * s
        let mut c: i128 = 0;
        for i in 0..n {
            let sk = if i <= t { s[t - i] as i128 } else { -(s[n + t - i] as i128) };
            c += limb[i] as i128 * sk;
        }
        // split c in two i64 parts to add
        let lo = (c & 0xFFFF_FFFF) as i64;
        let hi = (c >> 32) as i64;
        acc.add_assign(&Tor::from_i64_shifted(lo, sh));
        if sh + 32 < P {
            acc.add_assign(&Tor::from_i64_shifted(hi, sh + 32));
        } else {
            // contributes only an integer: drop (mod 1)
            let rem = P - sh; // bits of hi*2^32 that remain: hi << 32 + sh; low bits of hi with index < P - sh - 32 < 0 -> none
            let _ = rem;
        }
    }
    acc
}

/// Small poly product over Z[X]/(X^n+1) with i64 coefficients (both small).
pub fn negacyclic_small(a: &[i64], b: &[i64]) -> Vec<i128> {
    let n = a.len();
    let mut out = vec![0i128; n];
    for i in 0..n {
        for j in 0..n {
            let p = a[i] as i128 * b[j] as i128;
            if i + j < n {
                out[i + j] += p;
            } else {
                out[i + j - n] -= p;
            }
        }
    }
    out
}

#[derive(Clone, Copy, Debug, PartialEq)]
pub enum SkKind {
    TernaryProb(f64),
    TernaryHw(usize),
    BinaryProb(f64),
    BinaryHw(usize),
    BinaryBlock(usize),
    Zero,
}

#[derive(Clone, Copy, Debug, PartialEq)]
pub enum MsgKind {
    Zero,
    Rand,
    MaxPos,
    MinNeg,
    PlusHalf,
    Alt,
    Unnorm,
}

pub fn fill_msg(pt: &mut GLWEPlaintext<Vec<u8>>, kind: MsgKind, src: &mut Source) {
    let b = pt.base2k.as_usize();
    let half: i64 = 1i64 << (b - 1);
    let n = pt.data.n();
    for j in 0..pt.data.size() {
        for i in 0..n {
            let v = match kind {
                MsgKind::Zero => 0,
                MsgKind::Rand => {
                    let m = (1u64 << b) - 1;
                    (src.next_u64n(1u64 << b, m) as i64) - half
                }
                MsgKind::MaxPos => half - 1,
                MsgKind::MinNeg => -half,
                MsgKind::PlusHalf => half,
                MsgKind::Alt => {
                    if (i + j) % 2 == 0 {
                        half - 1
                    } else {
                        -half
                    }
                }
                MsgKind::Unnorm => {
                    let m = (1u64 << (b + 3)) - 1;
                    (src.next_u64n(1u64 << (b + 3), m) as i64) - (half << 3)
                }
            };
            pt.data.at_mut(0, j)[i] = v;
        }
    }
}

pub fn make_sk(n: usize, rank: usize, kind: SkKind, seed: [u8; 32]) -> (GLWESecret<Vec<u8>>, ScalarZnx<Vec<u8>>) {
    let mut sk: GLWESecret<Vec<u8>> = GLWESecret::alloc(Degree(n as u32), Rank(rank as u32));
    let mut shadow: ScalarZnx<Vec<u8>> = ScalarZnx::alloc(n, rank.max(1));
    let mut s1 = Source::new(seed);
    let mut s2 = Source::new(seed);
    match kind {
        SkKind::TernaryProb(p) => {
            sk.fill_ternary_prob(p, &mut s1);
            (0..rank).for_each(|i| shadow.fill_ternary_prob(i, p, &mut s2));
        }
        SkKind::TernaryHw(h) => {
            sk.fill_ternary_hw(h, &mut s1);
            (0..rank).for_each(|i| shadow.fill_ternary_hw(i, h, &mut s2));
        }
        SkKind::BinaryProb(p) => {
            sk.fill_binary_prob(p, &mut s1);
            (0..rank).for_each(|i| shadow.fill_binary_prob(i, p, &mut s2));
        }
        SkKind::BinaryHw(h) => {
            sk.fill_binary_hw(h, &mut s1);
            (0..rank).for_each(|i| shadow.fill_binary_hw(i, h, &mut s2));
        }
        SkKind::BinaryBlock(bs) => {
            sk.fill_binary_block(bs, &mut s1);
            (0..rank).for_each(|i| shadow.fill_binary_block(i, bs, &mut s2));
        }
        SkKind::Zero => {
            sk.fill_zero();
        }
    }
    (sk, shadow)
}

/// Exact phase of coefficient t: body + sum a_i * s_i (mod 1)
pub fn phase_tor(ct: &GLWE<Vec<u8>>, sk: &ScalarZnx<Vec<u8>>, t: usize) -> Tor {
    let b = ct.base2k().as_usize();
    let size = ct.size();
    let rank: usize = ct.rank().into();
    let mut acc = tor_of(ct.data(), b, 0, t, size);
    for i in 0..rank {
        acc.add_assign(&negacyclic_tor(ct.data(), b, i + 1, size, sk.at(i, 0), t));
    }
    acc
}


pub fn seed(a: u32, b: u8) -> [u8; 32] {
    let mut s = [a as u8; 32];
    s[0] = b;
    s[1..5].copy_from_slice(&a.to_le_bytes());
    s[31] = (a as u8).wrapping_mul(31).wrapping_add(b);
    s
}

/// Decides whether a failing case counts against the property.
///  * "(N)" alone (decrypted digits not balanced after a cross-radix normalisation, value correct) is informational.
///  * On the FFT64 backends the f64 transform is exact only while base2k + log2(N)/2 <= ~50 (measured); above that the
///    exact-model checks (and the public-key end-to-end check, whose rounding errors do not cancel) are informational.
pub fn is_hard_failure(backend_name: &str, tags: &[String], n: usize, base2k: usize) -> bool {
    let fft = backend_name.contains("fft64");
    let out_of_fft_domain = fft && (base2k as f64 + 0.5 * (n as f64).log2()) > 49.0;
    tags.iter().any(|t| match t.as_str() {
        "(N)" => false,
        "(A)" | "(B)" => !out_of_fft_domain,
        "(C)" => !(out_of_fft_domain && backend_name.contains("pk")),
        _ => true,
    })
}
