//! C01 audit: GLWE public-key encrypt -> decrypt, coefficient-wise exact oracle.
//!
//! phase(ct) - m = u * e_pk + e_0 + sum_i e_i * s_i,  so
//! |phase - m|_inf <= B * (|u|_1 + 1 + sum_i |s_i|_1)   with B the max noise sample.
mod c01_common;
use c01_common::*;

use std::panic::{AssertUnwindSafe, catch_unwind};

use poulpy_core::{
    EncryptionLayout, GLWEDecrypt, GLWEEncryptPk, GLWEEncryptSk, GLWEPublicKeyGenerate, ScratchTakeCore,
    layouts::{
        Base2K, Degree, GLWE, GLWELayout, GLWEPlaintext, GLWEPublicKey, GLWEPublicKeyPreparedFactory,
        GLWESecretPreparedFactory, Rank, TorusPrecision,
        prepared::{GLWEPublicKeyPrepared, GLWESecretPrepared},
    },
    test_suite::TestBackend,
};
use poulpy_cpu_ref::{
    FFT64Ref, NTT120Ref,
    api::{ModuleNew, ScratchAvailable, ScratchOwnedAlloc, ScratchOwnedBorrow},
    layouts::{DeviceBuf, Module, NoiseInfos, ScalarZnx, Scratch, ScratchOwned, ZnxView, ZnxViewMut},
    source::Source,
};

#[derive(Clone, Debug)]
pub struct Case {
    pub n: usize,
    pub rank: usize,
    pub base2k: usize,
    pub size: usize,    // pk size
    pub ct_size: usize, // ct size
    pub k_noise: usize,
    pub pt_size: usize,
    pub out_base2k: usize,
    pub out_size: usize,
    pub sk: SkKind,
    pub msg: MsgKind,
    pub seed: u32,
    pub zero: bool,
    pub dirty: bool,
    pub exact_scratch: bool,
}

pub fn run_case<BE: TestBackend>(module: &Module<BE>, c: &Case) -> Vec<String>
where
    Module<BE>: GLWEEncryptSk<BE>
        + GLWEDecrypt<BE>
        + GLWESecretPreparedFactory<BE>
        + GLWEEncryptPk<BE>
        + GLWEPublicKeyGenerate<BE>
        + GLWEPublicKeyPreparedFactory<BE>,
    ScratchOwned<BE>: ScratchOwnedAlloc<BE> + ScratchOwnedBorrow<BE>,
    Scratch<BE>: ScratchAvailable + ScratchTakeCore<BE>,
{
    let mut fails: Vec<String> = Vec::new();
    let n = c.n;
    let bound = 6.0 * 3.2;
    let pk_layout = GLWELayout {
        n: Degree(n as u32),
        base2k: Base2K(c.base2k as u32),
        k: TorusPrecision((c.size * c.base2k) as u32),
        rank: Rank(c.rank as u32),
    };
    let ct_layout = GLWELayout {
        n: Degree(n as u32),
        base2k: Base2K(c.base2k as u32),
        k: TorusPrecision((c.ct_size * c.base2k) as u32),
        rank: Rank(c.rank as u32),
    };
    let noise = NoiseInfos::new(c.k_noise, 3.2, bound).unwrap();
    let pk_infos = EncryptionLayout::new(pk_layout, noise).unwrap();
    let ct_infos = EncryptionLayout::new(ct_layout, noise).unwrap();

    let (sk, sk_shadow) = make_sk(n, c.rank, c.sk, seed(c.seed, 1));
    let mut sk_prep: GLWESecretPrepared<DeviceBuf<BE>, BE> = module.glwe_secret_prepared_alloc(Rank(c.rank as u32));
    module.glwe_secret_prepare(&mut sk_prep, &sk);

    // public key
    let mut pk: GLWEPublicKey<Vec<u8>> = GLWEPublicKey::alloc_from_infos(&pk_layout);
    let mut xe_pk = Source::new(seed(c.seed, 5));
    let mut xa_pk = Source::new(seed(c.seed, 6));
    module.glwe_public_key_generate(&mut pk, &sk_prep, &pk_infos, &mut xe_pk, &mut xa_pk);
    let mut pk_prep: GLWEPublicKeyPrepared<DeviceBuf<BE>, BE> = module.glwe_public_key_prepared_alloc_from_infos(&pk_layout);
    module.glwe_public_key_prepare(&mut pk_prep, &pk);

    // shadow of u: same sampler, same seed
    let seed_xu = seed(c.seed, 7);
    let mut u: ScalarZnx<Vec<u8>> = ScalarZnx::alloc(n, 1);
    {
        let mut s = Source::new(seed_xu);
        match c.sk {
            SkKind::TernaryProb(p) => u.fill_ternary_prob(0, p, &mut s),
            SkKind::TernaryHw(h) => u.fill_ternary_hw(0, h, &mut s),
            SkKind::BinaryProb(p) => u.fill_binary_prob(0, p, &mut s),
            SkKind::BinaryHw(h) => u.fill_binary_hw(0, h, &mut s),
            SkKind::BinaryBlock(b) => u.fill_binary_block(0, b, &mut s),
            SkKind::Zero => {}
        }
    }
    let norm1_u: u64 = u.at(0, 0).iter().map(|x| x.unsigned_abs()).sum();
    let norm1_s: u64 = (0..c.rank).map(|i| sk_shadow.at(i, 0).iter().map(|x| x.unsigned_abs()).sum::<u64>()).sum();

    let mut pt: GLWEPlaintext<Vec<u8>> = GLWEPlaintext::alloc(
        Degree(n as u32),
        Base2K(c.base2k as u32),
        TorusPrecision((c.pt_size * c.base2k) as u32),
    );
    let mut src_m = Source::new(seed(c.seed, 2));
    fill_msg(&mut pt, if c.zero { MsgKind::Zero } else { c.msg }, &mut src_m);

    let mut ct: GLWE<Vec<u8>> = GLWE::alloc_from_infos(&ct_layout);
    if c.dirty {
        ct.data_mut().raw_mut().iter_mut().enumerate().for_each(|(i, x)| *x = 0x5A5A_5A5A_5A5A_5A5Ai64 ^ (i as i64));
    }

    let enc_bytes = module.glwe_encrypt_pk_tmp_bytes(&ct_layout).max(module.glwe_encrypt_pk_tmp_bytes(&pk_layout));
    let enc_bytes_declared = module.glwe_encrypt_pk_tmp_bytes(&ct_layout);
    let dec_bytes = module.glwe_decrypt_tmp_bytes(&ct_layout);
    let mut scratch_enc: ScratchOwned<BE> =
        ScratchOwned::alloc(if c.exact_scratch { enc_bytes_declared } else { enc_bytes + 4096 });
    let mut scratch_dec: ScratchOwned<BE> = ScratchOwned::alloc(if c.exact_scratch { dec_bytes } else { dec_bytes + 4096 });
    if c.dirty {
        scratch_enc.borrow().data.fill(0xA7);
        scratch_dec.borrow().data.fill(0xC3);
    }

    let mut source_xu = Source::new(seed_xu);
    let mut source_xe = Source::new(seed(c.seed, 3));
    if c.zero {
        module.glwe_encrypt_zero_pk(&mut ct, &pk_prep, &ct_infos, &mut source_xu, &mut source_xe, scratch_enc.borrow());
    } else {
        module.glwe_encrypt_pk(&mut ct, &pt, &pk_prep, &ct_infos, &mut source_xu, &mut source_xe, scratch_enc.borrow());
    }

    {
        let half = 1i64 << (c.base2k - 1);
        'o: for col in 0..c.rank + 1 {
            for j in 0..c.ct_size {
                for &x in ct.data().at(col, j) {
                    if x < -half || x > half {
                        fails.push(format!("ct not normalised col={col} limb={j} x={x}"));
                        break 'o;
                    }
                }
            }
        }
    }

    // (A) exact phase check
    let (thr1, _lsb, _limb) = noise_threshold(c.k_noise, bound, c.base2k);
    let mut thr = thr1.mul_small(norm1_u + 1 + norm1_s);
    // rounding of the pk*u product into a shorter ct: one unit of ct last limb per column, weighted by the secret
    let kc = c.ct_size * c.base2k;
    if c.ct_size < c.size {
        thr.add_assign(&pow2_neg(kc).mul_small(1 + norm1_s));
    }
    if c.pt_size > c.ct_size {
        // unnormalised messages can drop up to 2^3 units
        thr.add_assign(&pow2_neg(kc).mul_small(8));
    }
    let mut phases: Vec<Tor> = Vec::with_capacity(n);
    let mut ms: Vec<Tor> = Vec::with_capacity(n);
    for t in 0..n {
        let ph = phase_tor(&ct, &sk_shadow, t);
        let m_full = tor_of(&pt.data, c.base2k, 0, t, c.pt_size);
        let e = ph.sub(&m_full);
        let ea = e.abs();
        if !ea.le_unsigned(&thr) {
            fails.push(format!(
                "(A) coeff {t}: |phase - m| = 2^{:.2} > worst-case noise 2^{:.2} (|u|_1={norm1_u} |s|_1={norm1_s})",
                ea.log2_abs(),
                thr.log2_abs()
            ));
        }
        phases.push(ph);
        ms.push(m_full);
    }

    // (B)/(C) decrypt
    let mut pt_out: GLWEPlaintext<Vec<u8>> = GLWEPlaintext::alloc(
        Degree(n as u32),
        Base2K(c.out_base2k as u32),
        TorusPrecision((c.out_size * c.out_base2k) as u32),
    );
    if c.dirty {
        pt_out.data.raw_mut().iter_mut().enumerate().for_each(|(i, x)| *x = 0x1357_9BDF_0246_8ACEi64 ^ ((i as i64) << 7));
    }
    module.glwe_decrypt(&ct, &mut pt_out, &sk_prep, scratch_dec.borrow());

    let ko = c.out_size * c.out_base2k;
    let unit_o = pow2_neg(ko);
    let tol_c = thr.add(&unit_o);
    for t in 0..n {
        let o = tor_of(&pt_out.data, c.out_base2k, 0, t, c.out_size);
        let d = o.sub(&phases[t]).abs();
        if !d.le_unsigned(&unit_o) {
            fails.push(format!(
                "(B) coeff {t}: |decrypt - phase| = 2^{:.2} > 1 unit of out last limb 2^-{ko}",
                d.log2_abs()
            ));
        }
        let dc = o.sub(&ms[t]).abs();
        if !dc.le_unsigned(&tol_c) {
            fails.push(format!(
                "(C) coeff {t}: |decrypt - m| = 2^{:.2} > tol 2^{:.2}",
                dc.log2_abs(),
                tol_c.log2_abs()
            ));
        }
    }
    let mut out: Vec<String> = Vec::new();
    for tag in ["(A)", "(B)", "(C)", "ct not"] {
        out.extend(fails.iter().filter(|m| m.starts_with(tag)).take(2).cloned());
    }
    out
}

pub fn run_guarded<BE: TestBackend>(module: &Module<BE>, c: &Case) -> Vec<String>
where
    Module<BE>: GLWEEncryptSk<BE>
        + GLWEDecrypt<BE>
        + GLWESecretPreparedFactory<BE>
        + GLWEEncryptPk<BE>
        + GLWEPublicKeyGenerate<BE>
        + GLWEPublicKeyPreparedFactory<BE>,
    ScratchOwned<BE>: ScratchOwnedAlloc<BE> + ScratchOwnedBorrow<BE>,
    Scratch<BE>: ScratchAvailable + ScratchTakeCore<BE>,
{
    match catch_unwind(AssertUnwindSafe(|| run_case(module, c))) {
        Ok(v) => v,
        Err(e) => {
            let s = if let Some(s) = e.downcast_ref::<String>() {
                s.clone()
            } else if let Some(s) = e.downcast_ref::<&str>() {
                s.to_string()
            } else {
                "panic".to_string()
            };
            vec![format!("PANIC: {s}")]
        }
    }
}

pub fn sweep<BE: TestBackend>(name: &str, max_base2k: usize, ns: &[usize], same_size_only: bool) -> usize
where
    Module<BE>: ModuleNew<BE>
        + GLWEEncryptSk<BE>
        + GLWEDecrypt<BE>
        + GLWESecretPreparedFactory<BE>
        + GLWEEncryptPk<BE>
        + GLWEPublicKeyGenerate<BE>
        + GLWEPublicKeyPreparedFactory<BE>,
    ScratchOwned<BE>: ScratchOwnedAlloc<BE> + ScratchOwnedBorrow<BE>,
    Scratch<BE>: ScratchAvailable + ScratchTakeCore<BE>,
{
    let mut nfail = 0usize;
    let mut ncase = 0usize;
    let mut per_tag: std::collections::BTreeMap<String, usize> = Default::default();
    let mut seedctr: u32 = 0;
    for &n in ns {
        let module: Module<BE> = Module::<BE>::new(n as u64);
        let base2ks: Vec<usize> = vec![1, 2, 3, 7, 12, 17, 19, 25, 31, 32, 33, 40, 44, max_base2k - 2, max_base2k - 1, max_base2k];
        for &b in &base2ks {
            for rank in 0..=3usize {
                // worst-case noise must stay well below 1/2: bound*(1+(rank+1)*n)*2^-k << 1
                let need = 6 + (((rank + 2) * n) as f64).log2().ceil() as usize + 6;
                let s0 = need.div_ceil(b);
                for size in s0..=s0 + 2 {
                    let mut ks: Vec<usize> = vec![size * b, (size - 1) * b + 1, (size - 1) * b + b.div_ceil(2)];
                    if size > 1 {
                        ks.push((size - 1) * b);
                    }
                    ks.sort();
                    ks.dedup();
                    for &k in &ks {
                        if k < need {
                            continue;
                        }
                        let sks = [
                            SkKind::TernaryProb(0.5),
                            SkKind::TernaryHw(n),
                            SkKind::TernaryHw(1),
                            SkKind::BinaryProb(0.5),
                            SkKind::BinaryHw(n),
                            SkKind::BinaryBlock(4),
                            SkKind::Zero,
                        ];
                        let msgs = [
                            MsgKind::Rand,
                            MsgKind::MaxPos,
                            MsgKind::MinNeg,
                            MsgKind::PlusHalf,
                            MsgKind::Alt,
                            MsgKind::Zero,
                            MsgKind::Unnorm,
                        ];
                        for v in 0..(if std::env::var("C01_THOROUGH").is_ok() { 24 } else { 3 }) {
                            seedctr = seedctr.wrapping_add(1);
                            let mut skk = sks[(seedctr as usize + v) % sks.len()];
                            if rank == 0 && skk == SkKind::Zero {
                                skk = SkKind::TernaryProb(0.5);
                            }
                            let mk = msgs[(seedctr as usize / 2 + v) % msgs.len()];
                            let pt_sizes = [size, 1, size + 1, size.saturating_sub(1).max(1)];
                            let pt_size = pt_sizes[(seedctr as usize + v) % pt_sizes.len()];
                            let ct_sizes = [size, size, size + 1, size.saturating_sub(1).max(1)];
                            let mut ct_size = if same_size_only { size } else { ct_sizes[(seedctr as usize / 5 + v) % ct_sizes.len()] };
                            if ct_size * b < k {
                                ct_size = size;
                            }
                            let outs: Vec<(usize, usize)> = vec![
                                (b, size),
                                (b, (size + 1)),
                                (b, size.saturating_sub(1).max(1)),
                                ((b + 3).min(max_base2k), size),
                                (b.saturating_sub(3).max(1), size + 1),
                                (max_base2k, 1),
                                (1.max(b / 2), 2 * size),
                            ];
                            let (ob, os) = outs[(seedctr as usize / 3 + v) % outs.len()];
                            let c = Case {
                                n,
                                rank,
                                base2k: b,
                                size,
                                ct_size,
                                k_noise: k,
                                pt_size,
                                out_base2k: ob,
                                out_size: os,
                                sk: skk,
                                msg: mk,
                                seed: seedctr,
                                zero: (seedctr as usize + v) % 5 == 0,
                                dirty: (seedctr as usize + v) % 2 == 0,
                                exact_scratch: (seedctr as usize / 2 + v) % 2 == 0,
                            };
                            ncase += 1;
                            let f = run_guarded(&module, &c);
                            if !f.is_empty() {
                                let mut tags: Vec<String> = f.iter().map(|m| m.chars().take(3).collect::<String>()).collect();
                                tags.sort();
                                tags.dedup();
                                if is_hard_failure(name, &tags, c.n, c.base2k) {
                                    nfail += 1;
                                }
                                let key = tags.join("+");
                                println!("F|{name}|{key}|n={}|b={}|rank={}|{:?}|pk_size={} ct_size={} exact_scratch={}", c.n, c.base2k, c.rank, c.sk, c.size, c.ct_size, c.exact_scratch);
                                let cnt = per_tag.entry(key.clone()).or_insert(0);
                                *cnt += 1;
                                if *cnt <= 10 {
                                    println!("[{name}] FAIL[{key}] {c:?}");
                                    for m in &f {
                                        println!("      {m}");
                                    }
                                }
                            }
                        }
                    }
                }
            }
        }
    }
    println!("[{name}] cases={ncase} hard_failures={nfail} per_tag={per_tag:?}");
    nfail
}

#[test]
fn c01_glwe_pk_fft64() {
    let nfail = sweep::<FFT64Ref>("pk-fft64", 50, &[8, 16, 64], false);
    assert_eq!(nfail, 0);
}

#[test]
fn c01_glwe_pk_ntt120() {
    let nfail = sweep::<NTT120Ref>("pk-ntt120", 52, &[8, 16, 64], false);
    assert_eq!(nfail, 0);
}
