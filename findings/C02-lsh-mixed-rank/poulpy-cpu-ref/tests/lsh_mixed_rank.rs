//! glwe_lsh / glwe_lsh_add / glwe_lsh_sub admit `res.rank() >= a.rank()`: a rank-0 plaintext operand must work and leave / zero the mask columns.
use poulpy_core::{
    GLWEShift,
    layouts::{GLWE, GLWELayout},
};
use poulpy_cpu_ref::FFT64Ref as BE;
use poulpy_hal::{
    api::{ModuleNew, ScratchOwnedAlloc, ScratchOwnedBorrow},
    layouts::{Module, ScratchOwned, ZnxView, ZnxViewMut},
};

fn filled(n: usize, rank: usize, seed: i64) -> GLWE<Vec<u8>> {
    let mut g: GLWE<Vec<u8>> =
        GLWE::alloc_from_infos(&GLWELayout { n: (n as u32).into(), base2k: 12u32.into(), k: 24u32.into(), rank: (rank as u32).into() });
    for c in 0..rank + 1 {
        for j in 0..2 {
            for (i, x) in g.data_mut().at_mut(c, j).iter_mut().enumerate() {
                *x = (seed * 31 + (c as i64) * 7 + (j as i64) * 3 + i as i64) % 1000 - 500;
            }
        }
    }
    g
}

#[test]
fn lsh_family_accepts_a_plaintext_operand() {
    let n = 16usize;
    let module: Module<BE> = Module::<BE>::new(n as u64);
    let mut scratch: ScratchOwned<BE> = ScratchOwned::alloc(module.glwe_shift_tmp_bytes());
    let a0 = filled(n, 0, 5); // plaintext
    // reference: the same plaintext embedded in a rank-1 object with a zero mask
    let mut a1 = filled(n, 1, 5);
    for j in 0..2 {
        a1.data_mut().at_mut(1, j).fill(0);
        let src: Vec<i64> = a0.data().at(0, j).to_vec();
        a1.data_mut().at_mut(0, j).copy_from_slice(&src);
    }

    let mut want = filled(n, 1, 9);
    module.glwe_lsh(&mut want, &a1, 5, scratch.borrow());
    let mut got = filled(n, 1, 9);
    module.glwe_lsh(&mut got, &a0, 5, scratch.borrow());
    assert_eq!(got.data().raw(), want.data().raw(), "glwe_lsh");

    let mut want = filled(n, 1, 9);
    module.glwe_lsh_add(&mut want, &a1, 5, scratch.borrow());
    let mut got = filled(n, 1, 9);
    module.glwe_lsh_add(&mut got, &a0, 5, scratch.borrow());
    assert_eq!(got.data().raw(), want.data().raw(), "glwe_lsh_add");

    let mut want = filled(n, 1, 9);
    module.glwe_lsh_sub(&mut want, &a1, 5, scratch.borrow());
    let mut got = filled(n, 1, 9);
    module.glwe_lsh_sub(&mut got, &a0, 5, scratch.borrow());
    assert_eq!(got.data().raw(), want.data().raw(), "glwe_lsh_sub");
}
