//! C09: coefficient-domain ring operations match Z[X]/(X^N+1) exactly.
//!
//! Every check compares the library against an independent exact-integer model of the quotient ring
//! (polynomials as `Vec<i128>`), over dirty result buffers, with `size < max_size` objects, exact-size scratch,
//! distinct source / target columns, and then asserts the group laws through the library alone.

#![allow(clippy::too_many_arguments, clippy::needless_range_loop, clippy::type_complexity)]

use poulpy_cpu_ref::{FFT64Ref, NTT120Ref};
use poulpy_hal::{
    api::*,
    layouts::{
        Backend, CyclotomicOrder, DeviceBuf, GaloisElement, Module, ScalarZnx, ScratchOwned, VecZnx, VecZnxBig, ZnxInfos,
        ZnxView, ZnxViewMut,
    },
    oep::HalImpl,
};

// ───────────────────────────── deterministic PRNG ─────────────────────────────

struct Rng(u64);
impl Rng {
    fn new(seed: u64) -> Self {
        Rng(seed.wrapping_mul(0x9E3779B97F4A7C15) ^ 0xD1B54A32D192ED03)
    }
    fn u64(&mut self) -> u64 {
        self.0 = self.0.wrapping_add(0x9E3779B97F4A7C15);
        let mut z = self.0;
        z = (z ^ (z >> 30)).wrapping_mul(0xBF58476D1CE4E5B9);
        z = (z ^ (z >> 27)).wrapping_mul(0x94D049BB133111EB);
        z ^ (z >> 31)
    }
    fn i64_bits(&mut self, bits: u32) -> i64 {
        // uniform in [-2^(bits-1), 2^(bits-1))
        if bits == 0 {
            return 0;
        }
        (self.u64() as i64) >> (64 - bits)
    }
    fn i128_full(&mut self) -> i128 {
        (((self.u64() as u128) << 64) | self.u64() as u128) as i128
    }
    fn below(&mut self, m: usize) -> usize {
        (self.u64() % m as u64) as usize
    }
}

// ───────────────────────────── exact model of Z[X]/(X^N+1) ─────────────────────────────

type Poly = Vec<i128>;

fn p_zero(n: usize) -> Poly {
    vec![0i128; n]
}
fn p_add(a: &Poly, b: &Poly) -> Poly {
    a.iter().zip(b).map(|(x, y)| x.wrapping_add(*y)).collect()
}
fn p_sub(a: &Poly, b: &Poly) -> Poly {
    a.iter().zip(b).map(|(x, y)| x.wrapping_sub(*y)).collect()
}
fn p_neg(a: &Poly) -> Poly {
    a.iter().map(|x| x.wrapping_neg()).collect()
}
/// X^k * a
fn p_rot(a: &Poly, k: i64) -> Poly {
    let n = a.len() as i128;
    let mut r = p_zero(a.len());
    for i in 0..a.len() {
        let e = (i as i128 + k as i128).rem_euclid(2 * n);
        if e < n {
            r[e as usize] = a[i];
        } else {
            r[(e - n) as usize] = a[i].wrapping_neg();
        }
    }
    r
}
/// a(X^g), g odd
fn p_aut(a: &Poly, g: i64) -> Poly {
    let n = a.len() as i128;
    let mut r = p_zero(a.len());
    for i in 0..a.len() {
        let e = (i as i128 * g as i128).rem_euclid(2 * n);
        if e < n {
            r[e as usize] = a[i];
        } else {
            r[(e - n) as usize] = a[i].wrapping_neg();
        }
    }
    r
}
/// (X^k - 1) * a
fn p_mul_xp_minus_one(a: &Poly, k: i64) -> Poly {
    p_sub(&p_rot(a, k), a)
}
/// ring switching: up X -> X^(n_out/n_in), down keeps the coefficients of X^(j*n_in/n_out)
fn p_switch(a: &Poly, n_out: usize) -> Poly {
    let n_in = a.len();
    let mut r = p_zero(n_out);
    if n_in == n_out {
        return a.clone();
    }
    if n_in > n_out {
        let gap = n_in / n_out;
        for j in 0..n_out {
            r[j] = a[j * gap];
        }
    } else {
        let gap = n_out / n_in;
        for j in 0..n_in {
            r[j * gap] = a[j];
        }
    }
    r
}
/// part i of a split in `parts` sub-rings: coefficient k is a[k * parts + i]
fn p_split(a: &Poly, parts: usize, i: usize) -> Poly {
    let n_out = a.len() / parts;
    (0..n_out).map(|k| a[k * parts + i]).collect()
}

/// Documented size rule for a one-operand map.
fn model_unary(a: &[Poly], res_size: usize, n_out: usize, f: impl Fn(&Poly) -> Poly) -> Vec<Poly> {
    (0..res_size)
        .map(|j| if j < a.len() { f(&a[j]) } else { p_zero(n_out) })
        .collect()
}
/// Documented size rule for a + b / a - b.
fn model_addsub(a: &[Poly], b: &[Poly], res_size: usize, n: usize, sub: bool) -> Vec<Poly> {
    (0..res_size)
        .map(|j| {
            let x = if j < a.len() { a[j].clone() } else { p_zero(n) };
            let y = if j < b.len() { b[j].clone() } else { p_zero(n) };
            if sub { p_sub(&x, &y) } else { p_add(&x, &y) }
        })
        .collect()
}

// ───────────────────────────── containers ─────────────────────────────

trait BigS: Copy + PartialEq + std::fmt::Debug {
    const BITS: u32;
    fn to_i128(self) -> i128;
    fn from_i128(x: i128) -> Self;
}
impl BigS for i64 {
    const BITS: u32 = 64;
    fn to_i128(self) -> i128 {
        self as i128
    }
    fn from_i128(x: i128) -> Self {
        x as i64
    }
}
impl BigS for i128 {
    const BITS: u32 = 128;
    fn to_i128(self) -> i128 {
        self
    }
    fn from_i128(x: i128) -> Self {
        x
    }
}

/// A small vector with `max_size` allocated limbs, all of them dirty, `size` of them active.
fn mk_small(n: usize, cols: usize, size: usize, max_size: usize, bits: u32, rng: &mut Rng) -> VecZnx<Vec<u8>> {
    let mut v = VecZnx::alloc(n, cols, max_size);
    for x in v.raw_mut().iter_mut() {
        *x = rng.i64_bits(bits);
    }
    v.set_size(size);
    v
}

/// Whole-range digits, `i64::MIN` excluded (its negation is not representable).
fn mk_small_full(n: usize, cols: usize, size: usize, max_size: usize, rng: &mut Rng) -> VecZnx<Vec<u8>> {
    let mut v = VecZnx::alloc(n, cols, max_size);
    for x in v.raw_mut().iter_mut() {
        let mut y = rng.u64() as i64;
        match rng.below(8) {
            0 => y = i64::MAX,
            1 => y = -i64::MAX,
            2 => y = 0,
            _ => {}
        }
        if y == i64::MIN {
            y = -i64::MAX;
        }
        *x = y;
    }
    v.set_size(size);
    v
}

fn small_raw(v: &VecZnx<Vec<u8>>) -> Vec<i64> {
    // all allocated limbs, not only the active ones
    let len = v.n() * v.cols() * v.max_size();
    unsafe { std::slice::from_raw_parts(v.as_ptr(), len) }.to_vec()
}

fn small_col(v: &VecZnx<Vec<u8>>, col: usize) -> Vec<Poly> {
    (0..v.size())
        .map(|j| v.at(col, j).iter().map(|x| *x as i128).collect())
        .collect()
}

/// Checks column `res_col` against `want` and that nothing else of the allocation moved.
fn check_small(tag: &str, res: &VecZnx<Vec<u8>>, before: &[i64], res_col: usize, want: &[Poly]) {
    let (n, cols) = (res.n(), res.cols());
    let after = small_raw(res);
    assert_eq!(want.len(), res.size(), "{tag}: model size");
    for j in 0..res.max_size() {
        for i in 0..cols {
            let off = n * (j * cols + i);
            let got = &after[off..off + n];
            if i == res_col && j < res.size() {
                let w: Vec<i64> = want[j].iter().map(|x| *x as i64).collect();
                assert!(
                    want[j].iter().all(|x| *x >= i64::MIN as i128 && *x <= i64::MAX as i128),
                    "{tag}: test error, model overflows i64"
                );
                assert_eq!(got, &w[..], "{tag}: res col {i} limb {j}");
            } else {
                assert_eq!(got, &before[off..off + n], "{tag}: col {i} limb {j} must be untouched");
            }
        }
    }
}

type Big<B> = VecZnxBig<DeviceBuf<B>, B>;

fn mk_big<B: Backend>(n: usize, cols: usize, size: usize, max_size: usize, bits: u32, rng: &mut Rng) -> Big<B>
where
    B::ScalarBig: BigS,
{
    let mut v: Big<B> = VecZnxBig::alloc(n, cols, max_size);
    for x in v.raw_mut().iter_mut() {
        let y: i128 = if bits >= 128 {
            rng.i128_full()
        } else {
            rng.i128_full() >> (128 - bits)
        };
        *x = B::ScalarBig::from_i128(y);
    }
    v.size = size;
    v
}

fn big_raw<B: Backend>(v: &Big<B>) -> Vec<i128>
where
    B::ScalarBig: BigS,
{
    let len = v.n * v.cols * v.max_size;
    unsafe { std::slice::from_raw_parts(v.as_ptr(), len) }
        .iter()
        .map(|x| x.to_i128())
        .collect()
}

fn big_col<B: Backend>(v: &Big<B>, col: usize) -> Vec<Poly>
where
    B::ScalarBig: BigS,
{
    (0..v.size)
        .map(|j| v.at(col, j).iter().map(|x| x.to_i128()).collect())
        .collect()
}

fn check_big<B: Backend>(tag: &str, res: &Big<B>, before: &[i128], res_col: usize, want: &[Poly])
where
    B::ScalarBig: BigS,
{
    let (n, cols) = (res.n, res.cols);
    let after = big_raw::<B>(res);
    assert_eq!(want.len(), res.size, "{tag}: model size");
    for j in 0..res.max_size {
        for i in 0..cols {
            let off = n * (j * cols + i);
            let got = &after[off..off + n];
            if i == res_col && j < res.size {
                // the accumulator wraps at its own width
                let w: Vec<i128> = want[j].iter().map(|x| B::ScalarBig::from_i128(*x).to_i128()).collect();
                assert_eq!(got, &w[..], "{tag}: res col {i} limb {j}");
            } else {
                assert_eq!(got, &before[off..off + n], "{tag}: col {i} limb {j} must be untouched");
            }
        }
    }
}

fn module<B: Backend>(n: usize) -> Module<B> {
    // None of the coefficient-domain operations reads the backend handle: a marker module carries the ring degree only,
    // and exists for every power of two (the FFT / NTT tables do not for the smallest degrees).
    Module::<B>::new_marker(n as u64)
}

fn col_triples(cols: usize) -> Vec<(usize, usize, usize)> {
    let mut v = Vec::new();
    for r in 0..cols {
        for a in 0..cols {
            for b in 0..cols {
                v.push((r, a, b));
            }
        }
    }
    v
}

const NS_SMALL: [usize; 5] = [1, 2, 4, 8, 16];

// ───────────────────────────── add / sub / negate / copy / zero ─────────────────────────────

fn run_small_add_sub<B: Backend + HalImpl<B>>() {
    let mut rng = Rng::new(1);
    for &n in &NS_SMALL {
        let m: Module<B> = module(n);
        for rs in 1..=5usize {
            for asz in 1..=5usize {
                for bsz in 1..=5usize {
                    // distinct allocations, distinct column counts, distinct columns
                    let (rc, ac, bc) = (1 + rng.below(3), 1 + rng.below(3), 1 + rng.below(3));
                    let a = mk_small(n, ac, asz, asz + rng.below(2), 60, &mut rng);
                    let b = mk_small(n, bc, bsz, bsz + rng.below(2), 60, &mut rng);
                    for res_col in 0..rc {
                        let a_col = rng.below(ac);
                        let b_col = rng.below(bc);
                        let am = small_col(&a, a_col);
                        let bm = small_col(&b, b_col);
                        let tag = format!("n={n} res={rs} a={asz} b={bsz} cols=({res_col},{a_col},{b_col})");

                        let mut res = mk_small(n, rc, rs, rs + 1, 60, &mut rng);
                        let before = small_raw(&res);
                        m.vec_znx_add_into(&mut res, res_col, &a, a_col, &b, b_col);
                        check_small(&format!("add_into {tag}"), &res, &before, res_col, &model_addsub(&am, &bm, rs, n, false));

                        let mut res = mk_small(n, rc, rs, rs + 1, 60, &mut rng);
                        let before = small_raw(&res);
                        m.vec_znx_sub(&mut res, res_col, &a, a_col, &b, b_col);
                        check_small(&format!("sub {tag}"), &res, &before, res_col, &model_addsub(&am, &bm, rs, n, true));
                    }
                }
                // one-operand and in-place forms: (res size, a size)
                let (rc, ac) = (1 + rng.below(3), 1 + rng.below(3));
                let a = mk_small(n, ac, asz, asz + rng.below(2), 60, &mut rng);
                for res_col in 0..rc {
                    for a_col in 0..ac {
                        let am = small_col(&a, a_col);
                        let tag = format!("n={n} res={rs} a={asz} cols=({res_col},{a_col})");

                        let mut res = mk_small(n, rc, rs, rs + 1, 60, &mut rng);
                        let before = small_raw(&res);
                        let r0 = small_col(&res, res_col);
                        m.vec_znx_add_assign(&mut res, res_col, &a, a_col);
                        check_small(&format!("add_assign {tag}"), &res, &before, res_col, &model_addsub(&r0, &am, rs, n, false));

                        let mut res = mk_small(n, rc, rs, rs + 1, 60, &mut rng);
                        let before = small_raw(&res);
                        let r0 = small_col(&res, res_col);
                        m.vec_znx_sub_assign(&mut res, res_col, &a, a_col);
                        check_small(&format!("sub_assign {tag}"), &res, &before, res_col, &model_addsub(&r0, &am, rs, n, true));

                        let mut res = mk_small(n, rc, rs, rs + 1, 60, &mut rng);
                        let before = small_raw(&res);
                        let r0 = small_col(&res, res_col);
                        m.vec_znx_sub_negate_assign(&mut res, res_col, &a, a_col);
                        check_small(
                            &format!("sub_negate_assign {tag}"),
                            &res,
                            &before,
                            res_col,
                            &model_addsub(&am, &r0, rs, n, true),
                        );

                        let af = mk_small_full(n, ac, asz, asz, &mut rng);
                        let afm = small_col(&af, a_col);

                        let mut res = mk_small_full(n, rc, rs, rs + 1, &mut rng);
                        let before = small_raw(&res);
                        m.vec_znx_negate(&mut res, res_col, &af, a_col);
                        check_small(&format!("negate {tag}"), &res, &before, res_col, &model_unary(&afm, rs, n, p_neg));

                        let mut res = mk_small_full(n, rc, rs, rs + 1, &mut rng);
                        let before = small_raw(&res);
                        m.vec_znx_copy(&mut res, res_col, &af, a_col);
                        check_small(&format!("copy {tag}"), &res, &before, res_col, &model_unary(&afm, rs, n, |p| p.clone()));
                    }
                    let mut res = mk_small_full(n, rc, rs, rs + 1, &mut rng);
                    let before = small_raw(&res);
                    let r0 = small_col(&res, res_col);
                    m.vec_znx_negate_assign(&mut res, res_col);
                    check_small(
                        &format!("negate_assign n={n} res={rs} col={res_col}"),
                        &res,
                        &before,
                        res_col,
                        &model_unary(&r0, rs, n, p_neg),
                    );

                    let mut res = mk_small_full(n, rc, rs, rs + 1, &mut rng);
                    let before = small_raw(&res);
                    m.vec_znx_zero(&mut res, res_col);
                    check_small(
                        &format!("zero n={n} res={rs} col={res_col}"),
                        &res,
                        &before,
                        res_col,
                        &model_unary(&[], rs, n, |p| p.clone()),
                    );
                }
            }
        }
    }
}

#[test]
fn small_add_sub_negate_copy_zero_fft64() {
    run_small_add_sub::<FFT64Ref>();
}
#[test]
fn small_add_sub_negate_copy_zero_ntt120() {
    run_small_add_sub::<NTT120Ref>();
}

// ───────────────────────────── scalar add / sub on a chosen limb ─────────────────────────────

fn run_small_scalar<B: Backend + HalImpl<B>>() {
    let mut rng = Rng::new(2);
    for &n in &NS_SMALL {
        let m: Module<B> = module(n);
        for rs in 1..=5usize {
            for bsz in 1..=5usize {
                let (rc, sc, bc) = (1 + rng.below(3), 1 + rng.below(3), 1 + rng.below(3));
                let mut s = ScalarZnx::alloc(n, sc);
                for x in s.raw_mut().iter_mut() {
                    *x = rng.i64_bits(60);
                }
                let b = mk_small(n, bc, bsz, bsz + rng.below(2), 60, &mut rng);
                for (res_col, s_col, b_col) in col_triples(3) {
                    if res_col >= rc || s_col >= sc || b_col >= bc {
                        continue;
                    }
                    let sm: Poly = s.at(s_col, 0).iter().map(|x| *x as i128).collect();
                    let bm = small_col(&b, b_col);
                    for limb in 0..rs.min(bsz) {
                        let tag = format!("n={n} res={rs} b={bsz} limb={limb} cols=({res_col},{s_col},{b_col})");
                        for sub in [false, true] {
                            let mut want = model_unary(&bm, rs, n, |p| p.clone());
                            want[limb] = if sub { p_sub(&want[limb], &sm) } else { p_add(&want[limb], &sm) };
                            let mut res = mk_small(n, rc, rs, rs + 1, 60, &mut rng);
                            let before = small_raw(&res);
                            if sub {
                                m.vec_znx_sub_scalar(&mut res, res_col, &s, s_col, &b, b_col, limb);
                            } else {
                                m.vec_znx_add_scalar_into(&mut res, res_col, &s, s_col, &b, b_col, limb);
                            }
                            check_small(&format!("scalar sub={sub} {tag}"), &res, &before, res_col, &want);
                        }
                    }
                    for limb in 0..rs {
                        for sub in [false, true] {
                            let mut res = mk_small(n, rc, rs, rs + 1, 60, &mut rng);
                            let before = small_raw(&res);
                            let mut want = small_col(&res, res_col);
                            want[limb] = if sub { p_sub(&want[limb], &sm) } else { p_add(&want[limb], &sm) };
                            if sub {
                                m.vec_znx_sub_scalar_assign(&mut res, res_col, limb, &s, s_col);
                            } else {
                                m.vec_znx_add_scalar_assign(&mut res, res_col, limb, &s, s_col);
                            }
                            check_small(
                                &format!("scalar_assign sub={sub} n={n} res={rs} limb={limb} cols=({res_col},{s_col})"),
                                &res,
                                &before,
                                res_col,
                                &want,
                            );
                        }
                    }
                }
            }
        }
    }
}

#[test]
fn small_scalar_fft64() {
    run_small_scalar::<FFT64Ref>();
}
#[test]
fn small_scalar_ntt120() {
    run_small_scalar::<NTT120Ref>();
}

// ───────────────────────────── rotations, X^k - 1, automorphisms ─────────────────────────────

fn ks_for(n: usize, rng: &mut Rng) -> Vec<i64> {
    let nn = n as i64;
    if n <= 16 {
        (-4 * nn..=4 * nn).collect()
    } else {
        let mut v = vec![
            0,
            1,
            -1,
            nn - 1,
            nn,
            nn + 1,
            -nn + 1,
            -nn,
            -nn - 1,
            2 * nn - 1,
            2 * nn,
            2 * nn + 1,
            -2 * nn,
            -2 * nn - 1,
            3 * nn,
            -3 * nn,
            4 * nn,
            -4 * nn,
            4 * nn - 1,
            -4 * nn + 1,
            i64::MAX,
            i64::MIN,
            i64::MIN + 1,
        ];
        for _ in 0..8 {
            v.push(rng.i64_bits(16) % (4 * nn + 1));
        }
        v
    }
}

fn gs_for(n: usize, rng: &mut Rng) -> Vec<i64> {
    let nn = n as i64;
    if n <= 32 {
        (-4 * nn..=4 * nn).filter(|g| g & 1 == 1).collect()
    } else {
        let mut v = vec![1, -1, 3, -3, 5, -5, 2 * nn - 1, -(2 * nn - 1), 2 * nn + 1, nn + 1, nn - 1, -(nn + 1), 25, i64::MAX, i64::MIN + 1];
        for _ in 0..8 {
            v.push(rng.i64_bits(20) | 1);
        }
        v
    }
}

fn run_small_rotate_family<B: Backend + HalImpl<B>>(ns: &[usize], sizes: std::ops::RangeInclusive<usize>) {
    let mut rng = Rng::new(3);
    for &n in ns {
        let m: Module<B> = module(n);
        assert_eq!(m.vec_znx_rotate_assign_tmp_bytes(), n * 8);
        let mut sc_rot: ScratchOwned<B> = ScratchOwned::alloc(m.vec_znx_rotate_assign_tmp_bytes());
        let mut sc_mul: ScratchOwned<B> = ScratchOwned::alloc(m.vec_znx_mul_xp_minus_one_assign_tmp_bytes());
        let mut sc_aut: ScratchOwned<B> = ScratchOwned::alloc(m.vec_znx_automorphism_assign_tmp_bytes());
        let ks = ks_for(n, &mut rng);
        let gs = gs_for(n, &mut rng);
        for rs in sizes.clone() {
            for asz in sizes.clone() {
                let (rc, ac) = (1 + rng.below(3), 1 + rng.below(3));
                let a = mk_small_full(n, ac, asz, asz + rng.below(2), &mut rng);
                let a_mid = mk_small(n, ac, asz, asz, 62, &mut rng);
                for &k in &ks {
                    let res_col = rng.below(rc);
                    let a_col = rng.below(ac);
                    let am = small_col(&a, a_col);
                    let tag = format!("n={n} k={k} res={rs} a={asz} cols=({res_col},{a_col})");

                    let mut res = mk_small_full(n, rc, rs, rs + 1, &mut rng);
                    let before = small_raw(&res);
                    m.vec_znx_rotate(k, &mut res, res_col, &a, a_col);
                    check_small(&format!("rotate {tag}"), &res, &before, res_col, &model_unary(&am, rs, n, |p| p_rot(p, k)));

                    let amm = small_col(&a_mid, a_col);
                    let mut res = mk_small_full(n, rc, rs, rs + 1, &mut rng);
                    let before = small_raw(&res);
                    m.vec_znx_mul_xp_minus_one(k, &mut res, res_col, &a_mid, a_col);
                    check_small(
                        &format!("mul_xp_minus_one {tag}"),
                        &res,
                        &before,
                        res_col,
                        &model_unary(&amm, rs, n, |p| p_mul_xp_minus_one(p, k)),
                    );
                }
                for &g in &gs {
                    let res_col = rng.below(rc);
                    let a_col = rng.below(ac);
                    let am = small_col(&a, a_col);
                    let tag = format!("n={n} g={g} res={rs} a={asz} cols=({res_col},{a_col})");
                    let mut res = mk_small_full(n, rc, rs, rs + 1, &mut rng);
                    let before = small_raw(&res);
                    m.vec_znx_automorphism(g, &mut res, res_col, &a, a_col);
                    check_small(&format!("automorphism {tag}"), &res, &before, res_col, &model_unary(&am, rs, n, |p| p_aut(p, g)));
                }
            }
            // in-place forms
            let rc = 1 + rng.below(3);
            for &k in &ks {
                let res_col = rng.below(rc);
                let mut res = mk_small_full(n, rc, rs, rs + 1, &mut rng);
                let before = small_raw(&res);
                let r0 = small_col(&res, res_col);
                m.vec_znx_rotate_assign(k, &mut res, res_col, sc_rot.borrow());
                check_small(
                    &format!("rotate_assign n={n} k={k} res={rs} col={res_col}"),
                    &res,
                    &before,
                    res_col,
                    &model_unary(&r0, rs, n, |p| p_rot(p, k)),
                );

                let mut res = mk_small(n, rc, rs, rs + 1, 62, &mut rng);
                let before = small_raw(&res);
                let r0 = small_col(&res, res_col);
                m.vec_znx_mul_xp_minus_one_assign(k, &mut res, res_col, sc_mul.borrow());
                check_small(
                    &format!("mul_xp_minus_one_assign n={n} k={k} res={rs} col={res_col}"),
                    &res,
                    &before,
                    res_col,
                    &model_unary(&r0, rs, n, |p| p_mul_xp_minus_one(p, k)),
                );
            }
            for &g in &gs {
                let res_col = rng.below(rc);
                let mut res = mk_small_full(n, rc, rs, rs + 1, &mut rng);
                let before = small_raw(&res);
                let r0 = small_col(&res, res_col);
                m.vec_znx_automorphism_assign(g, &mut res, res_col, sc_aut.borrow());
                check_small(
                    &format!("automorphism_assign n={n} g={g} res={rs} col={res_col}"),
                    &res,
                    &before,
                    res_col,
                    &model_unary(&r0, rs, n, |p| p_aut(p, g)),
                );
            }
        }
    }
}

#[test]
fn small_rotate_mulxp_automorphism_fft64() {
    run_small_rotate_family::<FFT64Ref>(&[1, 2, 4, 8, 16], 1..=5);
    run_small_rotate_family::<FFT64Ref>(&[32, 64, 128], 1..=3);
    run_small_rotate_family::<FFT64Ref>(&[1024, 4096], 1..=2);
}
#[test]
fn small_rotate_mulxp_automorphism_ntt120() {
    run_small_rotate_family::<NTT120Ref>(&[1, 2, 4, 8, 16], 1..=5);
    run_small_rotate_family::<NTT120Ref>(&[32, 64, 128], 1..=3);
    run_small_rotate_family::<NTT120Ref>(&[1024, 4096], 1..=2);
}

// ───────────────────────────── group laws through the library alone ─────────────────────────────

fn run_group_laws<B: Backend + HalImpl<B>>() {
    let mut rng = Rng::new(4);
    for n in [1usize, 2, 4, 8, 16, 32, 64, 4096] {
        let m: Module<B> = module(n);
        let two_n = 2 * n as i64;
        let mut sc: ScratchOwned<B> = ScratchOwned::alloc(
            m.vec_znx_rotate_assign_tmp_bytes()
                .max(m.vec_znx_automorphism_assign_tmp_bytes()),
        );
        let size = 3;
        let a = mk_small_full(n, 2, size, size, &mut rng);
        let ks: Vec<i64> = if n <= 16 {
            (-4 * n as i64..=4 * n as i64).collect()
        } else {
            (0..24).map(|_| rng.i64_bits(18) % (4 * n as i64 + 1)).collect()
        };
        // Z/2N: X^k1 (X^k2 a) = X^(k1+k2) a ; X^-k X^k a = a ; X^(k+2N) = X^k ; X^N = -1
        for &k1 in &ks {
            let k2 = ks[rng.below(ks.len())];
            let mut t = VecZnx::alloc(n, 1, size);
            let mut u = VecZnx::alloc(n, 1, size);
            let mut v = VecZnx::alloc(n, 1, size);
            m.vec_znx_rotate(k2, &mut t, 0, &a, 1);
            m.vec_znx_rotate(k1, &mut u, 0, &t, 0);
            m.vec_znx_rotate(k1 + k2, &mut v, 0, &a, 1);
            assert_eq!(u, v, "n={n}: X^{k1} X^{k2} != X^{}", k1 + k2);
            m.vec_znx_rotate_assign(-k2, &mut t, 0, sc.borrow());
            assert_eq!(small_col(&t, 0), small_col(&a, 1), "n={n}: X^-{k2} X^{k2} != 1");
            m.vec_znx_rotate(k1 + two_n, &mut u, 0, &a, 1);
            m.vec_znx_rotate(k1, &mut v, 0, &a, 1);
            assert_eq!(u, v, "n={n}: period 2N at k={k1}");
            m.vec_znx_rotate(k1 + n as i64, &mut u, 0, &a, 1);
            m.vec_znx_negate_assign(&mut u, 0);
            assert_eq!(u, v, "n={n}: X^N = -1 at k={k1}");
        }
        // (Z/2NZ)*: composition, inverse, signed generator convention
        let gens: Vec<i64> = if n <= 16 {
            (-2 * n as i64..=2 * n as i64).collect()
        } else {
            (0..24).map(|_| rng.i64_bits(14)).collect()
        };
        for &e1 in &gens {
            let e2 = gens[rng.below(gens.len())];
            let g1 = m.galois_element(e1);
            let g2 = m.galois_element(e2);
            let g1_inv = m.galois_element_inv(g1);
            assert_eq!((g1 as i128 * g1_inv as i128).rem_euclid(two_n as i128), 1 % two_n as i128, "n={n} g={g1} inv={g1_inv}");
            let mut t = VecZnx::alloc(n, 1, size);
            let mut u = VecZnx::alloc(n, 1, size);
            let mut v = VecZnx::alloc(n, 1, size);
            m.vec_znx_automorphism(g2, &mut t, 0, &a, 0);
            m.vec_znx_automorphism(g1, &mut u, 0, &t, 0);
            m.vec_znx_automorphism(g1.wrapping_mul(g2), &mut v, 0, &a, 0);
            assert_eq!(u, v, "n={n}: sigma_{g1} sigma_{g2} != sigma_{}", g1.wrapping_mul(g2));
            // same-sign exponents add
            if (e1 >= 0) == (e2 >= 0) && e1.checked_add(e2).is_some() && e1 != 0 && e2 != 0 {
                let g12 = m.galois_element(e1 + e2);
                let s = if e1 < 0 { -1i64 } else { 1 };
                // (s 5^|e1|)(s 5^|e2|) = 5^|e1+e2| = s * galois_element(e1+e2)
                m.vec_znx_automorphism(g12.wrapping_mul(s), &mut v, 0, &a, 0);
                assert_eq!(u, v, "n={n}: generator exponents {e1} + {e2}");
            }
            m.vec_znx_automorphism_assign(g1_inv, &mut u, 0, sc.borrow());
            assert_eq!(u, t, "n={n}: sigma_{g1}^-1 sigma_{g1} != 1");
            // automorphism / rotation interplay: sigma_g(X^k a) = X^(g k) sigma_g(a)
            let k = ks[rng.below(ks.len())];
            m.vec_znx_rotate(k, &mut t, 0, &a, 0);
            m.vec_znx_automorphism(g1, &mut u, 0, &t, 0);
            m.vec_znx_automorphism(g1, &mut t, 0, &a, 0);
            m.vec_znx_rotate(g1.wrapping_mul(k), &mut v, 0, &t, 0);
            assert_eq!(u, v, "n={n}: sigma_{g1}(X^{k} a)");
        }
    }
}

#[test]
fn group_laws_fft64() {
    run_group_laws::<FFT64Ref>();
}
#[test]
fn group_laws_ntt120() {
    run_group_laws::<NTT120Ref>();
}

#[test]
fn galois_element_convention() {
    for log_n in 0..=12u32 {
        let n = 1usize << log_n;
        let m: Module<FFT64Ref> = module(n);
        let two_n = m.cyclotomic_order();
        assert_eq!(two_n, 2 * n as i64);
        let pow5 = |e: u64| -> i128 {
            let mut r: i128 = 1 % two_n as i128;
            for _ in 0..e {
                r = (r * 5) % two_n as i128;
            }
            r
        };
        let lim = (2 * n as i64 + 3).min(600);
        for e in -lim..=lim {
            let g = m.galois_element(e);
            let want = pow5(e.unsigned_abs()) * if e < 0 { -1 } else { 1 };
            assert_eq!(
                (g as i128).rem_euclid(two_n as i128),
                want.rem_euclid(two_n as i128),
                "n={n} e={e}: galois_element = {g}"
            );
            assert!(g.unsigned_abs() < two_n as u64, "n={n} e={e}: |{g}| >= 2N");
            if e != 0 {
                assert_eq!(g.signum(), e.signum(), "n={n} e={e}: sign convention");
            }
            let gi = m.galois_element_inv(g);
            assert_eq!(
                (g as i128 * gi as i128).rem_euclid(two_n as i128),
                1 % two_n as i128,
                "n={n} e={e}: {g} * {gi} != 1 mod 2N"
            );
            assert_eq!(m.galois_element_inv(gi).rem_euclid(two_n), g.rem_euclid(two_n), "n={n}: inv inv");
        }
        // every odd element has an inverse
        if n <= 256 {
            for g in (-(2 * n as i64) + 1..2 * n as i64).filter(|g| g & 1 == 1) {
                let gi = m.galois_element_inv(g);
                assert_eq!((g as i128 * gi as i128).rem_euclid(two_n as i128), 1 % two_n as i128, "n={n} g={g} inv={gi}");
            }
        }
        // large exponents
        for e in [i64::MAX, i64::MIN + 1, i64::MIN, 1 << 40, -(1 << 40)] {
            let g = m.galois_element(e);
            // 5 has order N/2 in (Z/2NZ)* (N >= 4)
            let ord = (n as u64 / 2).max(1);
            let want = pow5(e.unsigned_abs() % ord) * e.signum() as i128;
            assert_eq!((g as i128).rem_euclid(two_n as i128), want.rem_euclid(two_n as i128), "n={n} e={e}");
        }
    }
}

// ───────────────────────────── ring switching, splitting, merging ─────────────────────────────

fn run_switch_ring<B: Backend + HalImpl<B>>() {
    let mut rng = Rng::new(5);
    let ns = [1usize, 2, 4, 8, 16, 32, 64];
    for &n_in in &ns {
        for &n_out in &ns {
            // the module's own degree plays no role
            let m: Module<B> = module([n_in, n_out, 8][rng.below(3)]);
            for rs in 1..=5usize {
                for asz in 1..=5usize {
                    let (rc, ac) = (1 + rng.below(3), 1 + rng.below(3));
                    let a = mk_small_full(n_in, ac, asz, asz + rng.below(2), &mut rng);
                    for res_col in 0..rc {
                        let a_col = rng.below(ac);
                        let am = small_col(&a, a_col);
                        let mut res = mk_small_full(n_out, rc, rs, rs + 1, &mut rng);
                        let before = small_raw(&res);
                        m.vec_znx_switch_ring(&mut res, res_col, &a, a_col);
                        check_small(
                            &format!("switch_ring {n_in}->{n_out} res={rs} a={asz} cols=({res_col},{a_col})"),
                            &res,
                            &before,
                            res_col,
                            &model_unary(&am, rs, n_out, |p| p_switch(p, n_out)),
                        );
                    }
                }
            }
            // down after up is the identity
            if n_out >= n_in {
                let a = mk_small_full(n_in, 1, 3, 3, &mut rng);
                let mut up = VecZnx::alloc(n_out, 1, 3);
                let mut back = VecZnx::alloc(n_in, 1, 3);
                m.vec_znx_switch_ring(&mut up, 0, &a, 0);
                m.vec_znx_switch_ring(&mut back, 0, &up, 0);
                assert_eq!(back, a, "switch_ring {n_in}->{n_out}->{n_in}");
            }
        }
    }
    // the embedding is a ring morphism: it commutes with X -> X^gap rotations and with automorphisms
    for &(n_in, n_out) in &[(4usize, 16usize), (8, 128), (2, 32), (1, 16), (256, 4096)] {
        let gap = (n_out / n_in) as i64;
        let (mi, mo): (Module<B>, Module<B>) = (module(n_in), module(n_out));
        let a = mk_small_full(n_in, 1, 2, 2, &mut rng);
        for k in [-3i64, -1, 0, 1, 2, n_in as i64, 2 * n_in as i64 + 1] {
            let mut t = VecZnx::alloc(n_in, 1, 2);
            let mut u = VecZnx::alloc(n_out, 1, 2);
            let mut v = VecZnx::alloc(n_out, 1, 2);
            let mut w = VecZnx::alloc(n_out, 1, 2);
            mi.vec_znx_rotate(k, &mut t, 0, &a, 0);
            mo.vec_znx_switch_ring(&mut u, 0, &t, 0);
            mo.vec_znx_switch_ring(&mut v, 0, &a, 0);
            mo.vec_znx_rotate(k * gap, &mut w, 0, &v, 0);
            assert_eq!(u, w, "embedding {n_in}->{n_out} vs X^{k}");
            let g = 2 * k + 1;
            mi.vec_znx_automorphism(g, &mut t, 0, &a, 0);
            mo.vec_znx_switch_ring(&mut u, 0, &t, 0);
            mo.vec_znx_automorphism(g, &mut w, 0, &v, 0);
            assert_eq!(u, w, "embedding {n_in}->{n_out} vs sigma_{g}");
        }
    }
}

#[test]
fn switch_ring_fft64() {
    run_switch_ring::<FFT64Ref>();
}
#[test]
fn switch_ring_ntt120() {
    run_switch_ring::<NTT120Ref>();
}

fn run_split_merge<B: Backend + HalImpl<B>>() {
    let mut rng = Rng::new(6);
    for n_big in [2usize, 4, 8, 16, 32, 64, 256] {
        let m: Module<B> = module(n_big);
        assert_eq!(m.vec_znx_split_ring_tmp_bytes(), n_big * 8);
        assert_eq!(m.vec_znx_merge_rings_tmp_bytes(), n_big * 8);
        let mut sc_s: ScratchOwned<B> = ScratchOwned::alloc(m.vec_znx_split_ring_tmp_bytes());
        let mut sc_m: ScratchOwned<B> = ScratchOwned::alloc(m.vec_znx_merge_rings_tmp_bytes());
        let mut parts = 2usize;
        while parts <= n_big && parts <= 64 {
            let n_small = n_big / parts;
            for asz in 1..=5usize {
                for trial in 0..4 {
                    let (ac, pc) = (1 + rng.below(3), 1 + rng.below(3));
                    let a_col = rng.below(ac);
                    let p_col = rng.below(pc);
                    // ── split: every part has its own size
                    let a = mk_small_full(n_big, ac, asz, asz + rng.below(2), &mut rng);
                    let am = small_col(&a, a_col);
                    let psz: Vec<usize> = (0..parts).map(|_| if trial == 0 { asz } else { 1 + rng.below(5) }).collect();
                    let mut ps: Vec<VecZnx<Vec<u8>>> = psz.iter().map(|&s| mk_small_full(n_small, pc, s, s + 1, &mut rng)).collect();
                    let befores: Vec<Vec<i64>> = ps.iter().map(small_raw).collect();
                    m.vec_znx_split_ring(&mut ps, p_col, &a, a_col, sc_s.borrow());
                    for i in 0..parts {
                        check_small(
                            &format!("split_ring n={n_big} parts={parts} part={i} a={asz} p={}", psz[i]),
                            &ps[i],
                            &befores[i],
                            p_col,
                            &model_unary(&am, psz[i], n_small, |p| p_split(p, parts, i)),
                        );
                    }
                    // ── merge of parts of unequal sizes
                    let rs = 1 + rng.below(5);
                    let pm: Vec<Vec<Poly>> = ps.iter().map(|p| small_col(p, p_col)).collect();
                    let want: Vec<Poly> = (0..rs)
                        .map(|j| {
                            let mut r = p_zero(n_big);
                            for i in 0..parts {
                                if j < pm[i].len() {
                                    for k in 0..n_small {
                                        r[k * parts + i] = pm[i][j][k];
                                    }
                                }
                            }
                            r
                        })
                        .collect();
                    let mut res = mk_small_full(n_big, ac, rs, rs + 1, &mut rng);
                    let before = small_raw(&res);
                    m.vec_znx_merge_rings(&mut res, a_col, &ps, p_col, sc_m.borrow());
                    check_small(
                        &format!("merge_rings n={n_big} parts={parts} res={rs} sizes={psz:?}"),
                        &res,
                        &before,
                        a_col,
                        &want,
                    );
                    // ── round trip
                    if trial == 0 {
                        let mut back = mk_small_full(n_big, ac, asz, asz, &mut rng);
                        m.vec_znx_merge_rings(&mut back, a_col, &ps, p_col, sc_m.borrow());
                        assert_eq!(small_col(&back, a_col), am, "merge(split(a)) != a, n={n_big} parts={parts}");
                    }
                }
            }
            parts *= 2;
        }
    }
}

#[test]
fn split_merge_fft64() {
    run_split_merge::<FFT64Ref>();
}
#[test]
fn split_merge_ntt120() {
    run_split_merge::<NTT120Ref>();
}

// ───────────────────────────── big accumulators ─────────────────────────────

fn run_big<B: Backend + HalImpl<B>>()
where
    B::ScalarBig: BigS,
{
    let mut rng = Rng::new(7);
    let wide = B::ScalarBig::BITS == 128;
    // i128 accumulators wrap (documented); i64 accumulators must not overflow
    let bbits: u32 = if wide { 128 } else { 61 };
    let sbits: u32 = if wide { 64 } else { 61 };
    for &n in &NS_SMALL {
        let m: Module<B> = module(n);
        let mut sc: ScratchOwned<B> = ScratchOwned::alloc(m.vec_znx_big_automorphism_assign_tmp_bytes());
        for rs in 1..=5usize {
            for asz in 1..=5usize {
                for bsz in 1..=5usize {
                    let (rc, ac, bc) = (1 + rng.below(3), 1 + rng.below(3), 1 + rng.below(3));
                    let a: Big<B> = mk_big(n, ac, asz, asz + rng.below(2), bbits, &mut rng);
                    let b: Big<B> = mk_big(n, bc, bsz, bsz + rng.below(2), bbits, &mut rng);
                    let sa = mk_small(n, ac, asz, asz + rng.below(2), sbits, &mut rng);
                    let sb = mk_small(n, bc, bsz, bsz + rng.below(2), sbits, &mut rng);
                    for res_col in 0..rc {
                        let a_col = rng.below(ac);
                        let b_col = rng.below(bc);
                        let (am, bm) = (big_col(&a, a_col), big_col(&b, b_col));
                        let (sam, sbm) = (small_col(&sa, a_col), small_col(&sb, b_col));
                        let tag = format!("n={n} res={rs} a={asz} b={bsz} cols=({res_col},{a_col},{b_col})");

                        let mut res: Big<B> = mk_big(n, rc, rs, rs + 1, bbits, &mut rng);
                        let before = big_raw(&res);
                        m.vec_znx_big_add_into(&mut res, res_col, &a, a_col, &b, b_col);
                        check_big(&format!("big_add_into {tag}"), &res, &before, res_col, &model_addsub(&am, &bm, rs, n, false));

                        let mut res: Big<B> = mk_big(n, rc, rs, rs + 1, bbits, &mut rng);
                        let before = big_raw(&res);
                        m.vec_znx_big_sub(&mut res, res_col, &a, a_col, &b, b_col);
                        check_big(&format!("big_sub {tag}"), &res, &before, res_col, &model_addsub(&am, &bm, rs, n, true));

                        let mut res: Big<B> = mk_big(n, rc, rs, rs + 1, bbits, &mut rng);
                        let before = big_raw(&res);
                        m.vec_znx_big_add_small_into(&mut res, res_col, &a, a_col, &sb, b_col);
                        check_big(
                            &format!("big_add_small_into {tag}"),
                            &res,
                            &before,
                            res_col,
                            &model_addsub(&am, &sbm, rs, n, false),
                        );

                        let mut res: Big<B> = mk_big(n, rc, rs, rs + 1, bbits, &mut rng);
                        let before = big_raw(&res);
                        m.vec_znx_big_sub_small_a(&mut res, res_col, &sa, a_col, &b, b_col);
                        check_big(&format!("big_sub_small_a {tag}"), &res, &before, res_col, &model_addsub(&sam, &bm, rs, n, true));

                        let mut res: Big<B> = mk_big(n, rc, rs, rs + 1, bbits, &mut rng);
                        let before = big_raw(&res);
                        m.vec_znx_big_sub_small_b(&mut res, res_col, &a, a_col, &sb, b_col);
                        check_big(&format!("big_sub_small_b {tag}"), &res, &before, res_col, &model_addsub(&am, &sbm, rs, n, true));
                    }
                }
                // (res, a) forms
                let (rc, ac) = (1 + rng.below(3), 1 + rng.below(3));
                let a: Big<B> = mk_big(n, ac, asz, asz + rng.below(2), bbits, &mut rng);
                let sa = mk_small(n, ac, asz, asz + rng.below(2), sbits, &mut rng);
                // whole-range operands for the maps that only move / negate coefficients
                let af: Big<B> = mk_big(n, ac, asz, asz + rng.below(2), if wide { 128 } else { 63 }, &mut rng);
                let saf = mk_small_full(n, ac, asz, asz + rng.below(2), &mut rng);
                for res_col in 0..rc {
                    for a_col in 0..ac {
                        let (am, sam, afm, safm) = (big_col(&a, a_col), small_col(&sa, a_col), big_col(&af, a_col), small_col(&saf, a_col));
                        let tag = format!("n={n} res={rs} a={asz} cols=({res_col},{a_col})");
                        macro_rules! inplace {
                            ($name:literal, $call:expr, $model:expr) => {{
                                let mut res: Big<B> = mk_big(n, rc, rs, rs + 1, bbits, &mut rng);
                                let before = big_raw(&res);
                                let r0 = big_col(&res, res_col);
                                #[allow(clippy::redundant_closure_call)]
                                ($call)(&mut res);
                                #[allow(clippy::redundant_closure_call)]
                                let want: Vec<Poly> = ($model)(&r0);
                                check_big(&format!("{} {tag}", $name), &res, &before, res_col, &want);
                            }};
                        }
                        inplace!(
                            "big_add_assign",
                            |r: &mut Big<B>| m.vec_znx_big_add_assign(r, res_col, &a, a_col),
                            |r0: &Vec<Poly>| model_addsub(r0, &am, rs, n, false)
                        );
                        inplace!(
                            "big_sub_assign",
                            |r: &mut Big<B>| m.vec_znx_big_sub_assign(r, res_col, &a, a_col),
                            |r0: &Vec<Poly>| model_addsub(r0, &am, rs, n, true)
                        );
                        inplace!(
                            "big_sub_negate_assign",
                            |r: &mut Big<B>| m.vec_znx_big_sub_negate_assign(r, res_col, &a, a_col),
                            |r0: &Vec<Poly>| model_addsub(&am, r0, rs, n, true)
                        );
                        inplace!(
                            "big_add_small_assign",
                            |r: &mut Big<B>| m.vec_znx_big_add_small_assign(r, res_col, &sa, a_col),
                            |r0: &Vec<Poly>| model_addsub(r0, &sam, rs, n, false)
                        );
                        inplace!(
                            "big_sub_small_assign",
                            |r: &mut Big<B>| m.vec_znx_big_sub_small_assign(r, res_col, &sa, a_col),
                            |r0: &Vec<Poly>| model_addsub(r0, &sam, rs, n, true)
                        );
                        inplace!(
                            "big_sub_small_negate_assign",
                            |r: &mut Big<B>| m.vec_znx_big_sub_small_negate_assign(r, res_col, &sa, a_col),
                            |r0: &Vec<Poly>| model_addsub(&sam, r0, rs, n, true)
                        );
                        inplace!(
                            "big_negate",
                            |r: &mut Big<B>| m.vec_znx_big_negate(r, res_col, &af, a_col),
                            |_r0: &Vec<Poly>| model_unary(&afm, rs, n, p_neg)
                        );
                        inplace!(
                            "big_from_small",
                            |r: &mut Big<B>| m.vec_znx_big_from_small(r, res_col, &saf, a_col),
                            |_r0: &Vec<Poly>| model_unary(&safm, rs, n, |p| p.clone())
                        );
                        let g = (rng.i64_bits(12)) | 1;
                        inplace!(
                            "big_automorphism",
                            |r: &mut Big<B>| m.vec_znx_big_automorphism(g, r, res_col, &af, a_col),
                            |_r0: &Vec<Poly>| model_unary(&afm, rs, n, |p| p_aut(p, g))
                        );
                    }
                    let tag = format!("n={n} res={rs} col={res_col}");
                    let mut res: Big<B> = mk_big(n, rc, rs, rs + 1, if wide { 128 } else { 63 }, &mut rng);
                    let before = big_raw(&res);
                    let r0 = big_col(&res, res_col);
                    m.vec_znx_big_negate_assign(&mut res, res_col);
                    check_big(&format!("big_negate_assign {tag}"), &res, &before, res_col, &model_unary(&r0, rs, n, p_neg));
                    for g in (-2 * n as i64..=2 * n as i64).filter(|g| g & 1 == 1) {
                        let mut res: Big<B> = mk_big(n, rc, rs, rs + 1, if wide { 128 } else { 63 }, &mut rng);
                        let before = big_raw(&res);
                        let r0 = big_col(&res, res_col);
                        m.vec_znx_big_automorphism_assign(g, &mut res, res_col, sc.borrow());
                        check_big(
                            &format!("big_automorphism_assign g={g} {tag}"),
                            &res,
                            &before,
                            res_col,
                            &model_unary(&r0, rs, n, |p| p_aut(p, g)),
                        );
                    }
                }
            }
        }
        // automorphisms of the accumulator compose and invert
        let a: Big<B> = mk_big(n, 1, 2, 2, if wide { 128 } else { 63 }, &mut rng);
        for e1 in -(n as i64)..=n as i64 {
            let e2 = rng.i64_bits(6);
            let (g1, g2) = (m.galois_element(e1), m.galois_element(e2));
            let mut t: Big<B> = VecZnxBig::alloc(n, 1, 2);
            let mut u: Big<B> = VecZnxBig::alloc(n, 1, 2);
            let mut v: Big<B> = VecZnxBig::alloc(n, 1, 2);
            m.vec_znx_big_automorphism(g2, &mut t, 0, &a, 0);
            m.vec_znx_big_automorphism(g1, &mut u, 0, &t, 0);
            m.vec_znx_big_automorphism(g1.wrapping_mul(g2), &mut v, 0, &a, 0);
            assert_eq!(big_raw(&u), big_raw(&v), "n={n}: big sigma_{g1} sigma_{g2}");
            m.vec_znx_big_automorphism_assign(m.galois_element_inv(g1), &mut u, 0, sc.borrow());
            assert_eq!(big_raw(&u), big_raw(&t), "n={n}: big sigma_{g1}^-1");
        }
    }
    // large degree spot check
    for n in [64usize, 4096] {
        let m: Module<B> = module(n);
        let mut sc: ScratchOwned<B> = ScratchOwned::alloc(m.vec_znx_big_automorphism_assign_tmp_bytes());
        let a: Big<B> = mk_big(n, 2, 2, 3, if wide { 128 } else { 63 }, &mut rng);
        for g in [1i64, -1, 5, -5, 2 * n as i64 - 1, 2 * n as i64 + 3, m.galois_element(7), m.galois_element(-9)] {
            let am = big_col(&a, 1);
            let mut res: Big<B> = mk_big(n, 2, 3, 4, bbits, &mut rng);
            let before = big_raw(&res);
            m.vec_znx_big_automorphism(g, &mut res, 0, &a, 1);
            check_big(&format!("big_automorphism n={n} g={g}"), &res, &before, 0, &model_unary(&am, 3, n, |p| p_aut(p, g)));
            let mut res: Big<B> = mk_big(n, 2, 3, 4, if wide { 128 } else { 63 }, &mut rng);
            let before = big_raw(&res);
            let r0 = big_col(&res, 1);
            m.vec_znx_big_automorphism_assign(g, &mut res, 1, sc.borrow());
            check_big(
                &format!("big_automorphism_assign n={n} g={g}"),
                &res,
                &before,
                1,
                &model_unary(&r0, 3, n, |p| p_aut(p, g)),
            );
        }
    }
}

#[test]
fn big_fft64() {
    run_big::<FFT64Ref>();
}
#[test]
fn big_ntt120() {
    run_big::<NTT120Ref>();
}
