//! C09 edge cases: empty operands / results, whole-range digits, arguments at and beyond the object.
#![allow(clippy::too_many_arguments, clippy::needless_range_loop)]

use std::panic::{AssertUnwindSafe, catch_unwind};

use poulpy_cpu_ref::{FFT64Ref, NTT120Ref};
use poulpy_hal::{
    api::*,
    layouts::{Backend, DeviceBuf, Module, ScalarZnx, ScratchOwned, VecZnx, VecZnxBig, ZnxInfos, ZnxView, ZnxViewMut},
    oep::HalImpl,
};

fn filled(n: usize, cols: usize, size: usize, seed: i64) -> VecZnx<Vec<u8>> {
    let mut v = VecZnx::alloc(n, cols, size);
    for (i, x) in v.raw_mut().iter_mut().enumerate() {
        *x = seed.wrapping_mul(1_000_003).wrapping_add(i as i64 * 7919 + 1);
    }
    v
}

fn is_zero_col(v: &VecZnx<Vec<u8>>, col: usize) -> bool {
    (0..v.size()).all(|j| v.at(col, j).iter().all(|x| *x == 0))
}

fn run_empty<B: Backend + HalImpl<B>>()
where
    B::ScalarBig: rand_zero::Z + PartialEq,
{
    for n in [1usize, 4, 16] {
        let m: Module<B> = Module::new_marker(n as u64);
        let mut sc: ScratchOwned<B> = ScratchOwned::alloc(n * 8);
        let e = VecZnx::alloc(n, 2, 0); // no limb at all
        let a = filled(n, 2, 3, 5);

        // empty operand: the map of 0
        for op in 0..7 {
            let mut res = filled(n, 2, 3, 9);
            let other: Vec<i64> = (0..3).flat_map(|j| res.at(0, j).to_vec()).collect();
            match op {
                0 => m.vec_znx_copy(&mut res, 1, &e, 0),
                1 => m.vec_znx_negate(&mut res, 1, &e, 1),
                2 => m.vec_znx_rotate(3, &mut res, 1, &e, 0),
                3 => m.vec_znx_automorphism(-5, &mut res, 1, &e, 1),
                4 => m.vec_znx_mul_xp_minus_one(2, &mut res, 1, &e, 0),
                5 => m.vec_znx_add_into(&mut res, 1, &e, 0, &e, 1),
                _ => m.vec_znx_sub(&mut res, 1, &e, 0, &e, 1),
            }
            assert!(is_zero_col(&res, 1), "n={n} op={op}: empty operand must give 0");
            let other2: Vec<i64> = (0..3).flat_map(|j| res.at(0, j).to_vec()).collect();
            assert_eq!(other, other2, "n={n} op={op}: other column");
        }
        // a + empty = a, a - empty = a, empty - a = -a
        let mut res = filled(n, 2, 4, 9);
        m.vec_znx_add_into(&mut res, 0, &a, 1, &e, 0);
        for j in 0..4 {
            if j < 3 {
                assert_eq!(res.at(0, j), a.at(1, j));
            } else {
                assert!(res.at(0, j).iter().all(|x| *x == 0));
            }
        }
        m.vec_znx_add_into(&mut res, 0, &e, 0, &a, 1);
        for j in 0..3 {
            assert_eq!(res.at(0, j), a.at(1, j));
        }
        m.vec_znx_sub(&mut res, 0, &a, 1, &e, 0);
        for j in 0..3 {
            assert_eq!(res.at(0, j), a.at(1, j));
        }
        m.vec_znx_sub(&mut res, 0, &e, 0, &a, 1);
        for j in 0..3 {
            let w: Vec<i64> = a.at(1, j).iter().map(|x| -x).collect();
            assert_eq!(res.at(0, j), &w[..]);
        }
        assert!(res.at(0, 3).iter().all(|x| *x == 0));
        // in-place forms with an empty operand
        let mut res = filled(n, 2, 3, 9);
        let r0 = filled(n, 2, 3, 9);
        m.vec_znx_add_assign(&mut res, 1, &e, 0);
        assert_eq!(res, r0);
        m.vec_znx_sub_assign(&mut res, 1, &e, 0);
        assert_eq!(res, r0);
        m.vec_znx_sub_negate_assign(&mut res, 1, &e, 0);
        for j in 0..3 {
            let w: Vec<i64> = r0.at(1, j).iter().map(|x| -x).collect();
            assert_eq!(res.at(1, j), &w[..]);
            assert_eq!(res.at(0, j), r0.at(0, j));
        }

        // empty result: nothing happens, nothing panics
        let mut z = VecZnx::alloc(n, 2, 0);
        m.vec_znx_copy(&mut z, 1, &a, 0);
        m.vec_znx_negate(&mut z, 1, &a, 0);
        m.vec_znx_negate_assign(&mut z, 1);
        m.vec_znx_zero(&mut z, 1);
        m.vec_znx_rotate(3, &mut z, 1, &a, 0);
        m.vec_znx_rotate_assign(3, &mut z, 1, sc.borrow());
        m.vec_znx_automorphism(3, &mut z, 1, &a, 0);
        m.vec_znx_automorphism_assign(3, &mut z, 1, sc.borrow());
        m.vec_znx_mul_xp_minus_one(3, &mut z, 1, &a, 0);
        m.vec_znx_mul_xp_minus_one_assign(3, &mut z, 1, sc.borrow());
        m.vec_znx_add_into(&mut z, 0, &a, 0, &a, 1);
        m.vec_znx_sub(&mut z, 0, &a, 0, &a, 1);
        m.vec_znx_add_assign(&mut z, 0, &a, 0);
        m.vec_znx_sub_assign(&mut z, 0, &a, 0);
        m.vec_znx_sub_negate_assign(&mut z, 0, &a, 0);
        if n >= 4 {
            let mut zs = VecZnx::alloc(n / 2, 2, 0);
            m.vec_znx_switch_ring(&mut zs, 0, &a, 0);
            let mut zb = VecZnx::alloc(n * 2, 2, 0);
            m.vec_znx_switch_ring(&mut zb, 0, &a, 0);
            let es = VecZnx::alloc(n / 2, 1, 0);
            let mut r = filled(n, 1, 2, 3);
            m.vec_znx_switch_ring(&mut r, 0, &es, 0);
            assert!(is_zero_col(&r, 0));
            // split into empty / partly empty parts, merge of empty parts
            let mut parts = vec![VecZnx::alloc(n / 2, 1, 0), filled(n / 2, 1, 2, 4)];
            m.vec_znx_split_ring(&mut parts, 0, &a, 1, sc.borrow());
            for j in 0..2 {
                let w: Vec<i64> = (0..n / 2).map(|k| a.at(1, j)[2 * k + 1]).collect();
                assert_eq!(parts[1].at(0, j), &w[..]);
            }
            let mut r = filled(n, 1, 3, 3);
            m.vec_znx_merge_rings(&mut r, 0, &parts, 0, sc.borrow());
            for j in 0..3 {
                for k in 0..n / 2 {
                    assert_eq!(r.at(0, j)[2 * k], 0);
                    assert_eq!(r.at(0, j)[2 * k + 1], if j < 2 { parts[1].at(0, j)[k] } else { 0 });
                }
            }
            let parts = vec![VecZnx::alloc(n / 2, 1, 0), VecZnx::alloc(n / 2, 1, 0)];
            m.vec_znx_merge_rings(&mut r, 0, &parts, 0, sc.borrow());
            assert!(is_zero_col(&r, 0));
            let mut parts = vec![filled(n / 2, 1, 2, 4), filled(n / 2, 1, 1, 4)];
            let ea = VecZnx::alloc(n, 1, 0);
            m.vec_znx_split_ring(&mut parts, 0, &ea, 0, sc.borrow());
            assert!(is_zero_col(&parts[0], 0) && is_zero_col(&parts[1], 0));
        }

        // big accumulators
        let eb: VecZnxBig<DeviceBuf<B>, B> = VecZnxBig::alloc(n, 2, 0);
        let mut zb: VecZnxBig<DeviceBuf<B>, B> = VecZnxBig::alloc(n, 2, 0);
        let mut rb: VecZnxBig<DeviceBuf<B>, B> = VecZnxBig::alloc(n, 2, 2);
        let mut scb: ScratchOwned<B> = ScratchOwned::alloc(m.vec_znx_big_automorphism_assign_tmp_bytes());
        m.vec_znx_big_from_small(&mut rb, 0, &a, 1);
        m.vec_znx_big_from_small(&mut rb, 1, &a, 0);
        m.vec_znx_big_from_small(&mut zb, 0, &a, 1);
        m.vec_znx_big_add_into(&mut zb, 0, &rb, 0, &rb, 1);
        m.vec_znx_big_sub(&mut zb, 0, &rb, 0, &rb, 1);
        m.vec_znx_big_add_small_into(&mut zb, 0, &rb, 0, &a, 1);
        m.vec_znx_big_sub_small_a(&mut zb, 0, &a, 0, &rb, 1);
        m.vec_znx_big_sub_small_b(&mut zb, 0, &rb, 0, &a, 1);
        m.vec_znx_big_negate(&mut zb, 0, &rb, 0);
        m.vec_znx_big_negate_assign(&mut zb, 0);
        m.vec_znx_big_automorphism(3, &mut zb, 0, &rb, 0);
        m.vec_znx_big_automorphism_assign(3, &mut zb, 0, scb.borrow());
        m.vec_znx_big_add_assign(&mut zb, 0, &rb, 0);
        m.vec_znx_big_sub_assign(&mut zb, 0, &rb, 0);
        m.vec_znx_big_sub_negate_assign(&mut zb, 0, &rb, 0);
        m.vec_znx_big_add_small_assign(&mut zb, 0, &a, 0);
        m.vec_znx_big_sub_small_assign(&mut zb, 0, &a, 0);
        m.vec_znx_big_sub_small_negate_assign(&mut zb, 0, &a, 0);
        let zero = |v: &VecZnxBig<DeviceBuf<B>, B>, c: usize| (0..v.size).all(|j| v.at(c, j).iter().all(|x| *x == <B::ScalarBig as rand_zero::Z>::z()));
        m.vec_znx_big_negate(&mut rb, 0, &eb, 0);
        assert!(zero(&rb, 0));
        m.vec_znx_big_from_small(&mut rb, 0, &a, 1);
        m.vec_znx_big_automorphism(3, &mut rb, 0, &eb, 0);
        assert!(zero(&rb, 0));
        m.vec_znx_big_from_small(&mut rb, 0, &a, 1);
        m.vec_znx_big_add_into(&mut rb, 0, &eb, 0, &eb, 1);
        assert!(zero(&rb, 0));
        m.vec_znx_big_from_small(&mut rb, 0, &a, 1);
        m.vec_znx_big_sub(&mut rb, 0, &eb, 0, &eb, 1);
        assert!(zero(&rb, 0));
        m.vec_znx_big_from_small(&mut rb, 0, &a, 1);
        m.vec_znx_big_from_small(&mut rb, 0, &e, 1);
        assert!(zero(&rb, 0));
        m.vec_znx_big_from_small(&mut rb, 0, &a, 1);
        m.vec_znx_big_add_small_into(&mut rb, 0, &eb, 0, &e, 1);
        assert!(zero(&rb, 0));
        m.vec_znx_big_from_small(&mut rb, 0, &a, 1);
        m.vec_znx_big_sub_small_a(&mut rb, 0, &e, 0, &eb, 1);
        assert!(zero(&rb, 0));
        m.vec_znx_big_from_small(&mut rb, 0, &a, 1);
        m.vec_znx_big_sub_small_b(&mut rb, 0, &eb, 0, &e, 1);
        assert!(zero(&rb, 0));
    }
}

mod rand_zero {
    pub trait Z {
        fn z() -> Self;
    }
    impl Z for i64 {
        fn z() -> Self {
            0
        }
    }
    impl Z for i128 {
        fn z() -> Self {
            0
        }
    }
}

#[test]
fn empty_objects_fft64() {
    run_empty::<FFT64Ref>();
}
#[test]
fn empty_objects_ntt120() {
    run_empty::<NTT120Ref>();
}

/// Rotations and automorphisms only move coefficients and flip signs: every digit except `i64::MIN` is exact,
/// `i64::MIN` itself is its own two's-complement negation.  Records what each form does with it.
fn run_int_min<B: Backend + HalImpl<B>>() -> Vec<(String, String)> {
    let n = 8usize;
    let m: Module<B> = Module::new_marker(n as u64);
    let mut a = VecZnx::alloc(n, 1, 1);
    a.at_mut(0, 0).copy_from_slice(&[i64::MIN, 1, 2, 3, 4, 5, 6, i64::MIN]);
    let mut out = Vec::new();
    let mut rec = |name: &str, f: &mut dyn FnMut() -> Vec<i64>, want: Vec<i64>| {
        let r = catch_unwind(AssertUnwindSafe(|| f()));
        let s = match r {
            Ok(v) if v == want => "exact (wrapping)".to_string(),
            Ok(v) => format!("WRONG {v:?} != {want:?}"),
            Err(_) => "panic".to_string(),
        };
        out.push((name.to_string(), s));
    };
    let w = |v: Vec<i64>| v;
    rec(
        "rotate k=1",
        &mut || {
            let mut r = VecZnx::alloc(n, 1, 1);
            m.vec_znx_rotate(1, &mut r, 0, &a, 0);
            r.at(0, 0).to_vec()
        },
        w(vec![i64::MIN, i64::MIN, 1, 2, 3, 4, 5, 6]),
    );
    rec(
        "rotate k=0",
        &mut || {
            let mut r = VecZnx::alloc(n, 1, 1);
            m.vec_znx_rotate(0, &mut r, 0, &a, 0);
            r.at(0, 0).to_vec()
        },
        w(a.at(0, 0).to_vec()),
    );
    rec(
        "automorphism g=1",
        &mut || {
            let mut r = VecZnx::alloc(n, 1, 1);
            m.vec_znx_automorphism(1, &mut r, 0, &a, 0);
            r.at(0, 0).to_vec()
        },
        w(a.at(0, 0).to_vec()),
    );
    rec(
        "automorphism g=3",
        &mut || {
            let mut r = VecZnx::alloc(n, 1, 1);
            m.vec_znx_automorphism(3, &mut r, 0, &a, 0);
            r.at(0, 0).to_vec()
        },
        // i -> 3i mod 16: 0->0, 1->3, 2->6, 3->9(-1), 4->12(-4), 5->15(-7), 6->18=2, 7->21=5
        w(vec![i64::MIN, -3, 6, 1, -4, i64::MIN, 2, -5]),
    );
    rec(
        "negate",
        &mut || {
            let mut r = VecZnx::alloc(n, 1, 1);
            m.vec_znx_negate(&mut r, 0, &a, 0);
            r.at(0, 0).to_vec()
        },
        w(vec![i64::MIN, -1, -2, -3, -4, -5, -6, i64::MIN]),
    );
    out
}

#[test]
fn int_min_digits_report() {
    for (b, r) in [("fft64", run_int_min::<FFT64Ref>()), ("ntt120", run_int_min::<NTT120Ref>())] {
        for (name, s) in r {
            println!("[int_min] {b} {name}: {s}");
            assert!(!s.starts_with("WRONG"), "{b} {name}: {s}");
        }
    }
}

/// The chosen limb exists in the operand but not in the (shorter) result: the digit is truncated away with the limb.
#[test]
fn scalar_limb_beyond_result() {
    let n = 4usize;
    let m: Module<FFT64Ref> = Module::new_marker(n as u64);
    let b = filled(n, 1, 3, 2);
    let mut s = ScalarZnx::alloc(n, 1);
    s.raw_mut().copy_from_slice(&[1, 2, 3, 4]);
    for sub in [false, true] {
        let mut res = filled(n, 1, 2, 8);
        let r = catch_unwind(AssertUnwindSafe(|| {
            if sub {
                m.vec_znx_sub_scalar(&mut res, 0, &s, 0, &b, 0, 2);
            } else {
                m.vec_znx_add_scalar_into(&mut res, 0, &s, 0, &b, 0, 2);
            }
        }));
        match r {
            Err(_) => println!("[scalar_limb_beyond_result] sub={sub}: rejected by assertion"),
            Ok(()) => {
                for j in 0..2 {
                    assert_eq!(res.at(0, j), b.at(0, j), "sub={sub}: limbs of b");
                }
                println!("[scalar_limb_beyond_result] sub={sub}: truncated copy of b");
            }
        }
    }
}

/// `vec_znx_split_ring` / `vec_znx_merge_rings` document `parts.n() * parts.len() <= a.n()`: fewer parts than the ratio.
#[test]
fn split_merge_fewer_parts_than_ratio() {
    let (n, ns) = (16usize, 4usize); // ratio 4, two parts given
    let m: Module<FFT64Ref> = Module::new_marker(n as u64);
    let mut sc: ScratchOwned<FFT64Ref> = ScratchOwned::alloc(n * 8);
    let a = filled(n, 1, 1, 3);
    let mut parts = vec![VecZnx::alloc(ns, 1, 1), VecZnx::alloc(ns, 1, 1)];
    let r = catch_unwind(AssertUnwindSafe(|| m.vec_znx_split_ring(&mut parts, 0, &a, 0, sc.borrow())));
    if r.is_err() {
        println!("[fewer_parts] split: rejected by assertion");
        return;
    }
    for i in 0..2 {
        let w: Vec<i64> = (0..ns).map(|k| a.at(0, 0)[4 * k + i]).collect();
        assert_eq!(parts[i].at(0, 0), &w[..], "split part {i}");
    }
    let mut back = filled(n, 1, 1, 9);
    let mut sc: ScratchOwned<FFT64Ref> = ScratchOwned::alloc(n * 8);
    let r = catch_unwind(AssertUnwindSafe(|| m.vec_znx_merge_rings(&mut back, 0, &parts, 0, sc.borrow())));
    if r.is_err() {
        println!("[fewer_parts] merge: rejected by assertion");
        return;
    }
    let mut want = vec![0i64; n];
    for i in 0..2 {
        for k in 0..ns {
            want[4 * k + i] = parts[i].at(0, 0)[k];
        }
    }
    assert_eq!(back.at(0, 0), &want[..], "merge of 2 parts of a ratio-4 split is not the inverse of the split");
}
