//! C05 audit: glwe_mul_plain(_assign) / glwe_mul_const(_assign) against an exact integer oracle.
mod c05_common;
use c05_common::*;

use std::{
    collections::BTreeMap,
    panic::{AssertUnwindSafe, catch_unwind},
};

use poulpy_core::{
    GLWEMulConst, GLWEMulPlain, ScratchTakeCore,
    layouts::{GLWE, GLWEPlaintext, LWEInfos},
};
use poulpy_cpu_ref::{FFT64Ref, NTT120Ref};
use poulpy_hal::{
    api::{ModuleNew, ScratchAvailable, ScratchOwnedAlloc, ScratchOwnedBorrow},
    layouts::{Backend, Module, Scratch, ScratchOwned, ZnxView, ZnxViewMut},
};

#[derive(Clone, Copy, Debug)]
struct Cfg {
    n: usize,
    rank: usize,
    k_in: usize,
    k_res: usize,
    a_alloc: usize,
    a_k: usize,
    b_k: usize, // plaintext precision / constant: b_k.div_ceil(k_in) limbs
    res_size: usize,
    off: usize,
    fill: Fill,
    seed: u64,
}

fn glwe(n: usize, k: usize, size: usize, rank: usize) -> GLWE<Vec<u8>> {
    let g = GLWE::<Vec<u8>>::alloc((n as u32).into(), (k as u32).into(), ((size * k) as u32).into(), (rank as u32).into());
    assert_eq!(g.size(), size);
    g
}

#[derive(Default, Debug, Clone)]
struct Out {
    plain: f64,        // ulps vs exact full product
    plain_assign: f64, // idem (only when k_res == k_in)
    konst: f64,
    konst_assign_full: f64, // vs exact full product
    konst_assign_cut: f64,  // vs product truncated to the limbs the implementation keeps
    raw_plain: Vec<i64>,
    raw_const: Vec<i64>,
}

fn err_cols<BE: Backend>(
    res: &GLWE<Vec<u8>>,
    a_l: &[Vec<Vec<i128>>],
    b_l: &[Vec<i128>],
    k_in: usize,
    k_res: usize,
    off: usize,
    cut: usize,
) -> f64 {
    let cols = a_l.len();
    let res_size = res.size();
    let mut e = 0f64;
    for i in 0..cols {
        let want = torus_of_product(&product_limbs(&a_l[i], b_l), k_in, off, cut);
        let have = torus_of_limbs(&limbs_of(res.data(), i, res_size, !0i64), k_res);
        e = e.max(max_ulps(&centered_diff(&have, &want), res_size * k_res));
    }
    e
}

fn run<BE: Backend>(module: &Module<BE>, c: &Cfg, slack: usize) -> Out
where
    Module<BE>: GLWEMulPlain<BE> + GLWEMulConst<BE>,
    ScratchOwned<BE>: ScratchOwnedAlloc<BE> + ScratchOwnedBorrow<BE>,
    Scratch<BE>: ScratchAvailable + ScratchTakeCore<BE>,
{
    let mut rng = Rng(c.seed | 1);
    let n = c.n;
    let cols = c.rank + 1;
    let sa = c.a_k.div_ceil(c.k_in);
    let sb = c.b_k.div_ceil(c.k_in);

    let mut a = glwe(n, c.k_in, c.a_alloc, c.rank);
    fill_digits(a.data_mut(), c.k_in, c.fill, &mut rng);

    // plaintext with exactly sb limbs
    let mut pt = GLWEPlaintext::<Vec<u8>>::alloc((n as u32).into(), (c.k_in as u32).into(), ((sb * c.k_in) as u32).into());
    assert_eq!(pt.size(), sb);
    fill_digits(pt.data_mut(), c.k_in, c.fill, &mut rng);

    // multi-limb constant (sb digits); mirrored in a constant plaintext for the oracle
    let b_const: Vec<i64> = (0..sb)
        .map(|_| match c.fill {
            Fill::MaxNeg => -(1i64 << (c.k_in - 1)),
            Fill::MaxPos => (1i64 << (c.k_in - 1)) - 1,
            _ => rng.digit(c.k_in),
        })
        .collect();

    let a_mask = msb_mask(c.k_in, c.a_k);
    let b_mask = msb_mask(c.k_in, c.b_k);
    let a_l: Vec<_> = (0..cols).map(|i| limbs_of(a.data(), i, sa, a_mask)).collect();
    let a_l_full: Vec<_> = (0..cols).map(|i| limbs_of(a.data(), i, c.a_alloc, !0i64)).collect();
    let pt_l = limbs_of(pt.data(), 0, sb, b_mask);
    let cst_l: Vec<Vec<i128>> = b_const
        .iter()
        .map(|&d| {
            let mut v = vec![0i128; n];
            v[0] = d as i128;
            v
        })
        .collect();

    let mut out = Out::default();
    let full = usize::MAX;

    // ---------------- glwe_mul_plain
    {
        let mut res = glwe(n, c.k_res, c.res_size, c.rank);
        fill_garbage(res.data_mut(), &mut rng);
        let a_view = glwe(n, c.k_in, sa, c.rank);
        let bytes = module.glwe_mul_plain_tmp_bytes(&res, &a_view, &pt);
        let mut scratch = ScratchOwned::<BE>::alloc(bytes + slack);
        scratch.data.as_mut().fill(0xA5);
        module.glwe_mul_plain(c.off, &mut res, &a, c.a_k, &pt, c.b_k, scratch.borrow());
        out.plain = err_cols::<BE>(&res, &a_l, &pt_l, c.k_in, c.k_res, c.off, full);
        out.raw_plain = res.data().raw().to_vec();
    }

    // ---------------- glwe_mul_plain_assign (same radix only; res is both operand and destination)
    if c.k_res == c.k_in && c.res_size >= sa {
        let mut res = glwe(n, c.k_in, c.res_size, c.rank);
        fill_digits(res.data_mut(), c.k_in, c.fill, &mut rng);
        let r_l: Vec<_> = (0..cols).map(|i| limbs_of(res.data(), i, sa, a_mask)).collect();
        let bytes = module.glwe_mul_plain_tmp_bytes(&res, &res, &pt);
        let mut scratch = ScratchOwned::<BE>::alloc(bytes + slack);
        scratch.data.as_mut().fill(0x3C);
        module.glwe_mul_plain_assign(c.off, &mut res, c.a_k, &pt, c.b_k, scratch.borrow());
        out.plain_assign = err_cols::<BE>(&res, &r_l, &pt_l, c.k_in, c.k_in, c.off, full);
    }

    // ---------------- glwe_mul_const (uses all limbs of `a`: there is no effective_k parameter)
    {
        let mut res = glwe(n, c.k_res, c.res_size, c.rank);
        fill_garbage(res.data_mut(), &mut rng);
        let bytes = module.glwe_mul_const_tmp_bytes(&res, &a, b_const.len());
        let mut scratch = ScratchOwned::<BE>::alloc(bytes + slack);
        scratch.data.as_mut().fill(0x99);
        module.glwe_mul_const(c.off, &mut res, &a, &b_const, scratch.borrow());
        out.konst = err_cols::<BE>(&res, &a_l_full, &cst_l, c.k_in, c.k_res, c.off, full);
        out.raw_const = res.data().raw().to_vec();
    }

    // ---------------- glwe_mul_const_assign
    if c.k_res == c.k_in && c.off < (c.res_size + sb) * c.k_in {
        let mut res = glwe(n, c.k_in, c.res_size, c.rank);
        fill_digits(res.data_mut(), c.k_in, c.fill, &mut rng);
        let r_l: Vec<_> = (0..cols).map(|i| limbs_of(res.data(), i, c.res_size, !0i64)).collect();
        let bytes = module.glwe_mul_const_tmp_bytes(&res, &res, b_const.len());
        let mut scratch = ScratchOwned::<BE>::alloc(bytes + slack);
        scratch.data.as_mut().fill(0x42);
        module.glwe_mul_const_assign(c.off, &mut res, &b_const, scratch.borrow());
        let (hi, _) = split_offset(c.off, c.k_in);
        out.konst_assign_full = err_cols::<BE>(&res, &r_l, &cst_l, c.k_in, c.k_in, c.off, full);
        out.konst_assign_cut = err_cols::<BE>(&res, &r_l, &cst_l, c.k_in, c.k_in, c.off, hi + c.res_size);
    }
    out
}

fn offsets(sa: usize, sb: usize, k: usize) -> Vec<usize> {
    let max = (sa + sb) * k + k - 1;
    let mut v = vec![];
    for m in 0..=(sa + sb + 1) {
        for d in [-1i64, 0, 1, (k / 2) as i64] {
            let o = (m * k) as i64 + d;
            if o >= 0 && (o as usize) <= max {
                v.push(o as usize);
            }
        }
    }
    v.sort();
    v.dedup();
    v
}

fn k_choices(alloc: usize, k: usize) -> Vec<usize> {
    let mut v = vec![];
    for s in 1..=alloc {
        v.push(s * k);
        v.push((s - 1) * k + 1);
        v.push((s - 1) * k + k / 2);
        v.push(s * k - 1);
    }
    v.sort();
    v.dedup();
    v
}

fn msg(e: &Box<dyn std::any::Any + Send>) -> String {
    e.downcast_ref::<String>()
        .cloned()
        .or_else(|| e.downcast_ref::<&str>().map(|s| s.to_string()))
        .unwrap_or_default()
}

fn sweep(radices: &[(usize, usize)], ranks: &[usize], alloc: usize, res_sizes: &[usize], fills: &[Fill]) {
    std::panic::set_hook(Box::new(|_| {}));
    let n = 8usize;
    let m_fft: Module<FFT64Ref> = Module::<FFT64Ref>::new(n as u64);
    let m_ntt: Module<NTT120Ref> = Module::<NTT120Ref>::new(n as u64);
    let mut hist: BTreeMap<String, (usize, String)> = BTreeMap::new();
    let mut runs = 0usize;
    let mut seed = 0xD1B54A32D192ED03u64;
    let mut worst = Out::default();

    let mut note = |hist: &mut BTreeMap<String, (usize, String)>, key: String, c: &Cfg, extra: String| {
        let e = hist.entry(key).or_insert((0, String::new()));
        e.0 += 1;
        if e.1.is_empty() {
            e.1 = format!("{extra} {c:?}");
        }
    };

    for &(k_in, k_res) in radices {
        for &rank in ranks {
            for &fill in fills {
                for a_k in k_choices(alloc, k_in) {
                    for b_k in k_choices(alloc, k_in) {
                        let sa = a_k.div_ceil(k_in);
                        let sb = b_k.div_ceil(k_in);
                        if fill != Fill::Random && (a_k + b_k) % 3 != 0 {
                            continue;
                        }
                        for &res_size in res_sizes {
                            if res_size * k_res > 118 {
                                continue;
                            }
                            for off in offsets(sa, sb, k_in) {
                                seed = seed.wrapping_mul(6364136223846793005).wrapping_add(1442695040888963407);
                                let a_alloc = if seed & 1 == 0 { sa } else { alloc };
                                let c = Cfg {
                                    n,
                                    rank,
                                    k_in,
                                    k_res,
                                    a_alloc,
                                    a_k,
                                    b_k,
                                    res_size,
                                    off,
                                    fill,
                                    seed,
                                };
                                // mul_const uses all a_alloc limbs: keep the offset inside its domain too
                                if off > (a_alloc + sb) * k_in + k_in - 1 {
                                    continue;
                                }
                                runs += 1;
                                let (hi, lo) = split_offset(off, k_in);
                                let class_a = lo < 0 && res_size * k_res < k_in && k_res != k_in;
                                let mut outs = vec![];
                                for be in 0..2 {
                                    let name = if be == 0 { "fft64" } else { "ntt120" };
                                    let mut r = if be == 0 {
                                        catch_unwind(AssertUnwindSafe(|| run(&m_fft, &c, 0)))
                                    } else {
                                        catch_unwind(AssertUnwindSafe(|| run(&m_ntt, &c, 0)))
                                    };
                                    if let Err(e) = &r {
                                        if msg(e).contains("from scratch") || msg(e).contains("scratch.available") {
                                            note(&mut hist, format!("SCRATCH {name}"), &c, msg(e));
                                            r = if be == 0 {
                                                catch_unwind(AssertUnwindSafe(|| run(&m_fft, &c, 1 << 14)))
                                            } else {
                                                catch_unwind(AssertUnwindSafe(|| run(&m_ntt, &c, 1 << 14)))
                                            };
                                        }
                                    }
                                    match r {
                                        Ok(o) => {
                                            let tag = format!(
                                                "{name} kin={k_in} kres={k_res} lo_neg={} classA={class_a}",
                                                lo < 0
                                            );
                                            if o.plain > 1.01 {
                                                note(&mut hist, format!("ERR mul_plain {tag}"), &c, format!("{:.2}", o.plain));
                                            }
                                            if o.plain_assign > 1.01 {
                                                note(
                                                    &mut hist,
                                                    format!("ERR mul_plain_assign {tag}"),
                                                    &c,
                                                    format!("{:.2}", o.plain_assign),
                                                );
                                            }
                                            if o.konst > 1.01 {
                                                note(&mut hist, format!("ERR mul_const {tag}"), &c, format!("{:.2}", o.konst));
                                            }
                                            // Specification: same result as glwe_mul_const, i.e. the exactly rounded full product.
                                            if o.konst_assign_full > 1.01 {
                                                note(
                                                    &mut hist,
                                                    format!("ERR mul_const_assign(vs full product) {tag} hi={hi}"),
                                                    &c,
                                                    format!("{:.2}", o.konst_assign_full),
                                                );
                                                // Model of the audited implementation (accumulator of res.size() limbs): explains the error.
                                                if o.konst_assign_cut <= 1.01 {
                                                    note(
                                                        &mut hist,
                                                        "INFO mul_const_assign error fully explained by the res.size()-limb accumulator".to_string(),
                                                        &c,
                                                        String::new(),
                                                    );
                                                }
                                            }
                                            if !class_a {
                                                worst.plain = worst.plain.max(o.plain);
                                                worst.plain_assign = worst.plain_assign.max(o.plain_assign);
                                                worst.konst = worst.konst.max(o.konst);
                                                worst.konst_assign_cut = worst.konst_assign_cut.max(o.konst_assign_cut);
                                                worst.konst_assign_full = worst.konst_assign_full.max(o.konst_assign_full);
                                            }
                                            outs.push(o);
                                        }
                                        Err(e) => {
                                            note(&mut hist, format!("PANIC {name} [{}]", msg(&e)), &c, String::new());
                                        }
                                    }
                                }
                                if outs.len() == 2 && k_in == k_res {
                                    if outs[0].raw_plain != outs[1].raw_plain {
                                        note(&mut hist, "NEQ backends mul_plain (same radix)".into(), &c, String::new());
                                    }
                                    if outs[0].raw_const != outs[1].raw_const {
                                        note(&mut hist, "NEQ backends mul_const (same radix)".into(), &c, String::new());
                                    }
                                }
                            }
                        }
                    }
                }
            }
        }
    }
    println!("runs: {runs}");
    println!(
        "worst (outside class A) ulps: plain={:.3} plain_assign={:.3} const={:.3} const_assign(kept)={:.3} const_assign(full)={:.3}",
        worst.plain, worst.plain_assign, worst.konst, worst.konst_assign_cut, worst.konst_assign_full
    );
    let mut bad = 0;
    for (k, (cnt, first)) in hist.iter() {
        println!("  HIST {k}: {cnt}  first: {first}");
        if !k.starts_with("INFO") {
            bad += cnt;
        }
    }
    assert_eq!(bad, 0, "{bad} failing configurations");
}

#[test]
fn mul_same_radix() {
    sweep(&[(12, 12)], &[1, 2], 3, &[1, 2, 3, 4, 5, 6, 7], &[Fill::Random, Fill::MaxNeg, Fill::MaxPos, Fill::Mixed]);
}

#[test]
fn mul_cross_radix() {
    sweep(&[(12, 10), (12, 15), (15, 12), (12, 7)], &[1, 2], 3, &[1, 2, 3, 4, 5, 6, 7], &[Fill::Random, Fill::Mixed]);
}
