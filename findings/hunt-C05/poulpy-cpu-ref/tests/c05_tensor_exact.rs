//! C05 audit: glwe_tensor_apply / glwe_tensor_square_apply / glwe_tensor_apply_add_assign
//! against an exact integer oracle (no encryption involved: the tensor product is a deterministic
//! function of the ciphertext polynomials).
mod c05_common;
use c05_common::*;

use std::panic::{AssertUnwindSafe, catch_unwind};

use poulpy_core::{
    GLWETensoring, ScratchTakeCore,
    layouts::{GLWE, GLWETensor, LWEInfos},
};
use poulpy_cpu_ref::{FFT64Ref, NTT120Ref};
use poulpy_hal::{
    api::{ModuleNew, ScratchAvailable, ScratchOwnedAlloc, ScratchOwnedBorrow},
    layouts::{Backend, Module, Scratch, ScratchOwned, ZnxView},
};

#[derive(Clone, Copy, Debug)]
struct Cfg {
    n: usize,
    rank: usize,
    k_in: usize,
    k_res: usize,
    a_alloc: usize, // limbs allocated
    a_k: usize,     // effective precision
    b_alloc: usize,
    b_k: usize,
    res_size: usize,
    off: usize,
    fill: Fill,
    seed: u64,
}

#[derive(Debug, Default, Clone)]
struct Outcome {
    raw: Vec<i64>,
    raw_sq: Option<Vec<i64>>,
    max_diag: f64,
    max_cross: f64,
}

fn run<BE: Backend>(module: &Module<BE>, c: &Cfg, square: bool, slack: usize) -> Outcome
where
    Module<BE>: GLWETensoring<BE>,
    ScratchOwned<BE>: ScratchOwnedAlloc<BE> + ScratchOwnedBorrow<BE>,
    Scratch<BE>: ScratchAvailable + ScratchTakeCore<BE>,
{
    let mut rng = Rng(c.seed | 1);
    let cols = c.rank + 1;
    let n = c.n;

    let mut a = GLWE::<Vec<u8>>::alloc(
        (n as u32).into(),
        (c.k_in as u32).into(),
        ((c.a_alloc * c.k_in) as u32).into(),
        (c.rank as u32).into(),
    );
    let mut b = GLWE::<Vec<u8>>::alloc(
        (n as u32).into(),
        (c.k_in as u32).into(),
        ((c.b_alloc * c.k_in) as u32).into(),
        (c.rank as u32).into(),
    );
    assert_eq!(a.size(), c.a_alloc);
    fill_digits(a.data_mut(), c.k_in, c.fill, &mut rng);
    fill_digits(b.data_mut(), c.k_in, c.fill, &mut rng);

    let mut res = GLWETensor::<Vec<u8>>::alloc(
        (n as u32).into(),
        (c.k_res as u32).into(),
        ((c.res_size * c.k_res) as u32).into(),
        (c.rank as u32).into(),
    );
    assert_eq!(res.size(), c.res_size);
    fill_garbage(res.data_mut(), &mut rng);

    let sa = c.a_k.div_ceil(c.k_in);
    let sb = c.b_k.div_ceil(c.k_in);

    // exact-size, dirty scratch. The tmp_bytes helper is queried with the effective views' sizes, as the library does.
    let a_view = GLWE::<Vec<u8>>::alloc(
        (n as u32).into(),
        (c.k_in as u32).into(),
        ((sa * c.k_in) as u32).into(),
        (c.rank as u32).into(),
    );
    let b_view = GLWE::<Vec<u8>>::alloc(
        (n as u32).into(),
        (c.k_in as u32).into(),
        ((sb * c.k_in) as u32).into(),
        (c.rank as u32).into(),
    );
    let bytes = module.glwe_tensor_apply_tmp_bytes(&res, &a_view, &b_view);
    let mut scratch = ScratchOwned::<BE>::alloc(bytes + slack);
    scratch.data.as_mut().fill(0xA5);

    module.glwe_tensor_apply(c.off, &mut res, &a, c.a_k, &b, c.b_k, scratch.borrow());

    // ---- oracle
    let a_mask = msb_mask(c.k_in, c.a_k);
    let b_mask = msb_mask(c.k_in, c.b_k);
    let al: Vec<_> = (0..cols).map(|i| limbs_of(a.data(), i, sa, a_mask)).collect();
    let bl: Vec<_> = (0..cols).map(|i| limbs_of(b.data(), i, sb, b_mask)).collect();
    let cut = kept_cut(sa, sb, c.res_size, c.k_res, c.k_in, c.off);
    let res_bits = c.res_size * c.k_res;

    let mut out = Outcome::default();
    for i in 0..cols {
        for j in i..cols {
            let mut want = torus_of_product(&product_limbs(&al[i], &bl[j]), c.k_in, c.off, cut);
            if i != j {
                let w2 = torus_of_product(&product_limbs(&al[j], &bl[i]), c.k_in, c.off, cut);
                torus_add(&mut want, &w2);
            }
            let col = tensor_col(cols, i, j);
            let have = torus_of_limbs(&limbs_of(res.data(), col, c.res_size, !0i64), c.k_res);
            let e = max_ulps(&centered_diff(&have, &want), res_bits);
            if i == j {
                out.max_diag = out.max_diag.max(e);
            } else {
                out.max_cross = out.max_cross.max(e);
            }
        }
    }
    out.raw = res.data().raw().to_vec();

    // ---- sibling: add_assign == acc + apply (limb-wise)
    {
        let mut acc = GLWETensor::<Vec<u8>>::alloc(
            (n as u32).into(),
            (c.k_res as u32).into(),
            ((c.res_size * c.k_res) as u32).into(),
            (c.rank as u32).into(),
        );
        fill_digits(acc.data_mut(), c.k_res, Fill::Random, &mut rng);
        let init = acc.data().raw().to_vec();
        scratch.data.as_mut().fill(0x5A);
        module.glwe_tensor_apply_add_assign(c.off, &mut acc, &a, c.a_k, &b, c.b_k, scratch.borrow());
        let want: Vec<i64> = init.iter().zip(&out.raw).map(|(x, y)| x + y).collect();
        assert_eq!(acc.data().raw(), want.as_slice(), "add_assign != acc + apply");
    }

    // ---- sibling: square(a) == apply(a, a)
    if square && c.off <= 2 * sa * c.k_in + c.k_in - 1 {
        let mut res_aa = GLWETensor::<Vec<u8>>::alloc(
            (n as u32).into(),
            (c.k_res as u32).into(),
            ((c.res_size * c.k_res) as u32).into(),
            (c.rank as u32).into(),
        );
        fill_garbage(res_aa.data_mut(), &mut rng);
        let bytes_aa = module.glwe_tensor_apply_tmp_bytes(&res_aa, &a_view, &a_view);
        let mut s_aa = ScratchOwned::<BE>::alloc(bytes_aa + slack);
        s_aa.data.as_mut().fill(0x11);
        module.glwe_tensor_apply(c.off, &mut res_aa, &a, c.a_k, &a, c.a_k, s_aa.borrow());

        let mut res_sq = GLWETensor::<Vec<u8>>::alloc(
            (n as u32).into(),
            (c.k_res as u32).into(),
            ((c.res_size * c.k_res) as u32).into(),
            (c.rank as u32).into(),
        );
        fill_garbage(res_sq.data_mut(), &mut rng);
        let bytes_sq = module.glwe_tensor_square_apply_tmp_bytes(&res_sq, &a_view);
        let mut s_sq = ScratchOwned::<BE>::alloc(bytes_sq + slack);
        s_sq.data.as_mut().fill(0x77);
        module.glwe_tensor_square_apply(c.off, &mut res_sq, &a, c.a_k, s_sq.borrow());
        assert_eq!(res_sq.data().raw(), res_aa.data().raw(), "square != apply(a,a)");
        out.raw_sq = Some(res_sq.data().raw().to_vec());
    }
    out
}

fn offsets(sa: usize, sb: usize, k: usize) -> Vec<usize> {
    let max = (sa + sb) * k + k - 1;
    let mut v = vec![];
    for m in 0..=(sa + sb + 1) {
        for d in [-1i64, 0, 1, (k / 2) as i64] {
            let o = (m * k) as i64 + d;
            if o >= 0 && (o as usize) <= max {
                v.push(o as usize);
            }
        }
    }
    v.sort();
    v.dedup();
    v
}

fn k_choices(alloc: usize, k: usize) -> Vec<usize> {
    // full limbs and partially used top limbs
    let mut v = vec![];
    for s in 1..=alloc {
        v.push(s * k);
        v.push((s - 1) * k + 1);
        v.push((s - 1) * k + k / 2);
        v.push(s * k - 1);
    }
    v.sort();
    v.dedup();
    v
}

struct Report {
    runs: usize,
    failures: Vec<String>,
    worst_diag: (f64, String),
    worst_cross: (f64, String),
    scratch_short: (usize, String),
    fail_keys: Vec<(String, ())>,
    neq_cross: usize,
}

fn sweep(radices: &[(usize, usize)], ranks: &[usize], alloc: usize, res_sizes: &[usize], fills: &[Fill], tol_diag: f64, tol_cross: f64) {
    std::panic::set_hook(Box::new(|_| {}));
    let n = 8usize;
    let m_fft: Module<FFT64Ref> = Module::<FFT64Ref>::new(n as u64);
    let m_ntt: Module<NTT120Ref> = Module::<NTT120Ref>::new(n as u64);
    let mut rep = Report {
        runs: 0,
        failures: vec![],
        worst_diag: (0.0, String::new()),
        worst_cross: (0.0, String::new()),
        scratch_short: (0, String::new()),
        fail_keys: vec![],
        neq_cross: 0,
    };
    let mut seed = 0x9E3779B97F4A7C15u64;

    for &(k_in, k_res) in radices {
        for &rank in ranks {
            for &fill in fills {
                for a_k in k_choices(alloc, k_in) {
                    for b_k in k_choices(alloc, k_in) {
                        let sa = a_k.div_ceil(k_in);
                        let sb = b_k.div_ceil(k_in);
                        // thin the quadratic domain: keep all pairs where one side is "interesting"
                        if fill != Fill::Random && (a_k + b_k) % 3 != 0 {
                            continue;
                        }
                        for &res_size in res_sizes {
                            if res_size * k_res > 118 {
                                continue;
                            }
                            for off in offsets(sa, sb, k_in) {
                                seed = seed.wrapping_mul(6364136223846793005).wrapping_add(1442695040888963407);
                                // alternate exact-size / oversized operand allocation
                                let a_alloc = if seed & 1 == 0 { sa } else { alloc };
                                let b_alloc = if seed & 2 == 0 { sb } else { alloc };
                                let c = Cfg {
                                    n,
                                    rank,
                                    k_in,
                                    k_res,
                                    a_alloc,
                                    a_k,
                                    b_alloc,
                                    b_k,
                                    res_size,
                                    off,
                                    fill,
                                    seed,
                                };
                                rep.runs += 1;
                                if std::env::var("C05_TRACE").is_ok() {
                                    eprintln!("CFG {c:?}");
                                }
                                let square = seed & 12 == 0;
                                let msg = |e: &Box<dyn std::any::Any + Send>| {
                                    e.downcast_ref::<String>()
                                        .cloned()
                                        .or_else(|| e.downcast_ref::<&str>().map(|s| s.to_string()))
                                        .unwrap_or_default()
                                };
                                let mut r_fft = catch_unwind(AssertUnwindSafe(|| run(&m_fft, &c, square, 0)));
                                if let Err(e) = &r_fft {
                                    if msg(e).contains("from scratch") {
                                        rep.scratch_short.0 += 1;
                                        if rep.scratch_short.1.is_empty() {
                                            rep.scratch_short.1 = format!("fft64 [{}] {c:?}", msg(e));
                                        }
                                        r_fft = catch_unwind(AssertUnwindSafe(|| run(&m_fft, &c, square, 1 << 14)));
                                    }
                                }
                                let mut r_ntt = catch_unwind(AssertUnwindSafe(|| run(&m_ntt, &c, square, 0)));
                                if let Err(e) = &r_ntt {
                                    if msg(e).contains("from scratch") {
                                        rep.scratch_short.0 += 1;
                                        if rep.scratch_short.1.is_empty() {
                                            rep.scratch_short.1 = format!("ntt120 [{}] {c:?}", msg(e));
                                        }
                                        r_ntt = catch_unwind(AssertUnwindSafe(|| run(&m_ntt, &c, square, 1 << 14)));
                                    }
                                }
                                match (r_fft, r_ntt) {
                                    (Ok(f), Ok(t)) => {
                                        if f.raw != t.raw && c.k_in != c.k_res {
                                            // cross-radix: NTT120 and FFT64 round the last limb differently (both within tolerance)
                                            rep.neq_cross += 1;
                                        } else if f.raw != t.raw {
                                            rep.failures.push(format!("fft64 != ntt120: {c:?}"));
                                            let (hi, lo) = split_offset(c.off, c.k_in);
                                            rep.fail_keys.push((
                                                format!("NEQ kin={} kres={} lo_neg={} hi={} res_size={}", c.k_in, c.k_res, lo < 0, hi, c.res_size),
                                                (),
                                            ));
                                        }
                                        for (name, o) in [("fft64", &f), ("ntt120", &t)] {
                                            if o.max_diag > rep.worst_diag.0 {
                                                rep.worst_diag = (o.max_diag, format!("{name} {c:?}"));
                                            }
                                            if o.max_cross > rep.worst_cross.0 {
                                                rep.worst_cross = (o.max_cross, format!("{name} {c:?}"));
                                            }
                                            if o.max_diag > tol_diag || o.max_cross > tol_cross {
                                                let (hi, lo) = split_offset(c.off, c.k_in);
                                                rep.fail_keys.push((
                                                    format!(
                                                        "ERR {name} kin={} kres={} lo_neg={} hi={} res_size={} big={}",
                                                        c.k_in,
                                                        c.k_res,
                                                        lo < 0,
                                                        hi,
                                                        c.res_size,
                                                        o.max_diag.max(o.max_cross) > 16.0
                                                    ),
                                                    (),
                                                ));
                                                rep.failures.push(format!(
                                                    "{name}: err diag={:.3} cross={:.3} ulps: {c:?}",
                                                    o.max_diag, o.max_cross
                                                ));
                                            }
                                        }
                                    }
                                    (f, t) => {
                                        if let Err(e) = f {
                                            rep.failures.push(format!("fft64 PANIC [{}]: {c:?}", msg(&e)));
                                        }
                                        if let Err(e) = t {
                                            rep.failures.push(format!("ntt120 PANIC [{}]: {c:?}", msg(&e)));
                                        }
                                    }
                                }
                            }
                        }
                    }
                }
            }
        }
    }
    println!("runs: {}", rep.runs);
    println!("worst diag : {:.3} ulps @ {}", rep.worst_diag.0, rep.worst_diag.1);
    println!("worst cross: {:.3} ulps @ {}", rep.worst_cross.0, rep.worst_cross.1);
    println!("exact-size scratch too short: {} configs, first: {}", rep.scratch_short.0, rep.scratch_short.1);
    println!("cross-radix configs where fft64 and ntt120 differ in the last limb (both within tolerance): {}", rep.neq_cross);
    println!("failures: {}", rep.failures.len());
    let mut hist: std::collections::BTreeMap<String, usize> = Default::default();
    for (k, _) in rep.fail_keys.iter() {
        *hist.entry(k.clone()).or_default() += 1;
    }
    for (k, v) in hist.iter() {
        println!("  HIST {k}: {v}");
    }
    for f in rep.failures.iter().take(12) {
        println!("  {f}");
    }
    assert!(rep.failures.is_empty(), "{} failing configurations", rep.failures.len());
}

#[test]
fn tensor_same_radix() {
    sweep(&[(12, 12)], &[1, 2], 3, &[1, 2, 3, 4, 5, 6, 7], &[Fill::Random, Fill::MaxNeg, Fill::MaxPos, Fill::Mixed], 1.01, 3.01);
}

#[test]
fn tensor_cross_radix() {
    sweep(
        &[(12, 10), (12, 15), (15, 12), (12, 7)],
        &[1, 2],
        3,
        &[1, 2, 3, 4, 5, 6, 7],
        &[Fill::Random, Fill::MaxNeg, Fill::Mixed],
        1.01,
        3.01,
    );
}

#[test]
fn tensor_rank3_same_radix() {
    sweep(&[(12, 12), (12, 11)], &[3], 2, &[1, 2, 3, 5], &[Fill::Random, Fill::Mixed], 1.01, 3.01);
}

#[test]
fn dbg_neq() {
    let c = Cfg { n: 8, rank: 1, k_in: 12, k_res: 10, a_alloc: 1, a_k: 1, b_alloc: 2, b_k: 23, res_size: 2, off: 0, fill: Fill::Random, seed: 752149720255244096 };
    let m_fft: Module<FFT64Ref> = Module::<FFT64Ref>::new(8);
    let m_ntt: Module<NTT120Ref> = Module::<NTT120Ref>::new(8);
    let f = run(&m_fft, &c, false, 1 << 14);
    let t = run(&m_ntt, &c, false, 1 << 14);
    println!("fft {:?}", f.raw);
    println!("ntt {:?}", t.raw);
    println!("fft err {} {}", f.max_diag, f.max_cross);
    println!("ntt err {} {}", t.max_diag, t.max_cross);
}
