//! C05 audit: end-to-end encrypted multiplication: encrypt, (tensor | square | mul_plain | mul_const), relinearise, decrypt,
//! and compare with the exact product of the plaintexts in Z[X]/(X^N+1) at the expected torus position.
mod c05_common;
use c05_common::*;

use poulpy_core::{
    EncryptionLayout, GLWEDecrypt, GLWEEncryptSk, GLWEMulConst, GLWEMulPlain, GLWETensorDecrypt, GLWETensorKeyEncryptSk,
    GLWETensoring, ScratchTakeCore,
    layouts::{
        Dsize, GLWE, GLWELayout, GLWEPlaintext, GLWESecret, GLWESecretPreparedFactory, GLWESecretTensor, GLWESecretTensorFactory,
        GLWESecretTensorPrepared, GLWESecretTensorPreparedFactory, GLWETensor, GLWETensorKey, GLWETensorKeyLayout,
        GLWETensorKeyPrepared, GLWETensorKeyPreparedFactory, LWEInfos, TorusPrecision, prepared::GLWESecretPrepared,
    },
};
use poulpy_cpu_ref::{FFT64Ref, NTT120Ref};
use poulpy_hal::{
    api::{ModuleNew, ScratchAvailable, ScratchOwnedAlloc, ScratchOwnedBorrow},
    layouts::{DeviceBuf, Module, Scratch, ScratchOwned},
    source::Source,
};

#[derive(Clone, Copy, Debug)]
struct Cfg {
    n: usize,
    rank: usize,
    k_in: usize,   // radix of the operands
    k_t: usize,    // radix of the tensor
    k_key: usize,  // radix of the tensor key
    k_res: usize,  // radix of the relinearised result
    ka: usize,     // precision of a (encryption noise at 2^-ka)
    kb: usize,     // precision of b
    alloc_extra: usize, // extra (unused, dirty) limbs allocated on the operands
    scale_a: usize,
    scale_b: usize,
    off: usize,
    dsize: usize,
    seed: u64,
}

fn std_log2(d: &[i128]) -> f64 {
    let n = d.len() as f64;
    let mean = d.iter().map(|x| *x as f64).sum::<f64>() / n;
    let var = d.iter().map(|x| (*x as f64 - mean).powi(2)).sum::<f64>() / n;
    (var.sqrt() + 1e-300).log2() - D as f64
}

struct Res {
    tensor: f64,
    relin: f64,
    square_relin: f64,
    plain: f64,
    konst: f64,
    predicted: f64,
}

fn run<BE: poulpy_core::test_suite::TestBackend>(module: &Module<BE>, c: &Cfg) -> Res
where
    Module<BE>: GLWETensoring<BE>
        + GLWEMulPlain<BE>
        + GLWEMulConst<BE>
        + GLWEEncryptSk<BE>
        + GLWEDecrypt<BE>
        + GLWETensorDecrypt<BE>
        + GLWESecretPreparedFactory<BE>
        + GLWESecretTensorFactory<BE>
        + GLWESecretTensorPreparedFactory<BE>
        + GLWETensorKeyEncryptSk<BE>
        + GLWETensorKeyPreparedFactory<BE>,
    ScratchOwned<BE>: ScratchOwnedAlloc<BE> + ScratchOwnedBorrow<BE>,
    Scratch<BE>: ScratchAvailable + ScratchTakeCore<BE>,
{
    let n = c.n;
    let rank = c.rank;
    let mut rng = Rng(c.seed | 1);
    let mut scratch: ScratchOwned<BE> = ScratchOwned::alloc(1 << 23);

    let mut sb = [0u8; 32];
    sb[..8].copy_from_slice(&c.seed.to_le_bytes());
    let mut source_xs = Source::new(sb);
    sb[9] = 1;
    let mut source_xe = Source::new(sb);
    sb[9] = 2;
    let mut source_xa = Source::new(sb);

    let mut sk: GLWESecret<Vec<u8>> = GLWESecret::alloc((n as u32).into(), (rank as u32).into());
    sk.fill_ternary_prob(0.5, &mut source_xs);
    let mut sk_prep: GLWESecretPrepared<DeviceBuf<BE>, BE> = module.glwe_secret_prepared_alloc_from_infos(&sk);
    module.glwe_secret_prepare(&mut sk_prep, &sk);
    let mut sk_tensor: GLWESecretTensor<Vec<u8>> = GLWESecretTensor::alloc((n as u32).into(), (rank as u32).into());
    module.glwe_secret_tensor_prepare(&mut sk_tensor, &sk, scratch.borrow());
    let mut sk_tensor_prep: GLWESecretTensorPrepared<DeviceBuf<BE>, BE> = module.glwe_secret_tensor_prepared_alloc((rank as u32).into());
    module.glwe_secret_tensor_prepared_prepare(&mut sk_tensor_prep, &sk_tensor);

    // ---- plaintexts: small signed integers placed at 2^-scale
    let data_a: Vec<i64> = (0..n).map(|_| rng.digit(4)).collect();
    let data_b: Vec<i64> = (0..n).map(|_| rng.digit(4)).collect();

    let enc = |k: usize, scale: usize, data: &[i64], source_xe: &mut Source, source_xa: &mut Source, scratch: &mut ScratchOwned<BE>, rng: &mut Rng| {
        let lay = GLWELayout {
            n: (n as u32).into(),
            base2k: (c.k_in as u32).into(),
            k: (k as u32).into(),
            rank: (rank as u32).into(),
        };
        let enc_lay = EncryptionLayout::new_from_default_sigma(lay).unwrap();
        let mut ct = GLWE::<Vec<u8>>::alloc_from_infos(&lay);
        let mut pt = GLWEPlaintext::<Vec<u8>>::alloc_from_infos(&lay);
        pt.encode_vec_i64(data, TorusPrecision(scale as u32));
        module.glwe_encrypt_sk(&mut ct, &pt, &sk_prep, &enc_lay, source_xe, source_xa, scratch.borrow());
        // re-host in a larger, dirty buffer: the extra limbs must be ignored thanks to the effective precision
        let size = ct.size();
        let mut big = GLWE::<Vec<u8>>::alloc(
            (n as u32).into(),
            (c.k_in as u32).into(),
            (((size + c.alloc_extra) * c.k_in) as u32).into(),
            (rank as u32).into(),
        );
        fill_garbage(big.data_mut(), rng);
        use poulpy_hal::layouts::{ZnxView, ZnxViewMut};
        for col in 0..rank + 1 {
            for j in 0..size {
                big.data_mut().at_mut(col, j).copy_from_slice(ct.data().at(col, j));
            }
        }
        (big, pt)
    };

    let (a, _pt_a) = enc(c.ka, c.scale_a, &data_a, &mut source_xe, &mut source_xa, &mut scratch, &mut rng);
    let (b, pt_b_full) = enc(c.kb, c.scale_b, &data_b, &mut source_xe, &mut source_xa, &mut scratch, &mut rng);

    // ---- expected product
    let da: Vec<i128> = data_a.iter().map(|x| *x as i128).collect();
    let db: Vec<i128> = data_b.iter().map(|x| *x as i128).collect();
    let torus_at = |p: &[i128], bits: i64| -> Vec<u128> {
        // p * 2^-bits
        let e = D as i64 - bits;
        assert!(e >= 0);
        if e >= D as i64 {
            return vec![0u128; p.len()];
        }
        p.iter().map(|x| (*x as u128).wrapping_shl(e as u32) & mask_d()).collect()
    };
    let want_ab = torus_at(&negacyclic(&da, &db), (c.scale_a + c.scale_b) as i64 - c.off as i64);
    let want_aa = torus_at(&negacyclic(&da, &da), (2 * c.scale_a) as i64 - c.off as i64);

    // ---- tensor
    let k_out = c.ka.max(c.kb);
    let mut t = GLWETensor::<Vec<u8>>::alloc((n as u32).into(), (c.k_t as u32).into(), (k_out as u32).into(), (rank as u32).into());
    fill_garbage(t.data_mut(), &mut rng);
    module.glwe_tensor_apply(c.off, &mut t, &a, c.ka, &b, c.kb, scratch.borrow());

    let mut pt_t = GLWEPlaintext::<Vec<u8>>::alloc((n as u32).into(), (c.k_t as u32).into(), (k_out as u32).into());
    module.glwe_tensor_decrypt(&t, &mut pt_t, &sk_prep, &sk_tensor_prep, scratch.borrow());
    let have_t = torus_of_limbs(&limbs_of(pt_t.data(), 0, pt_t.size(), !0i64), c.k_t);
    let tensor = std_log2(&centered_diff(&have_t, &want_ab));

    // ---- tensor key
    let p_t = t.size() * c.k_t;
    let a_dft_size = p_t.div_ceil(c.k_key);
    let dnum = a_dft_size.div_ceil(c.dsize);
    let k_tsk = (dnum * c.dsize + c.dsize) * c.k_key;
    let tsk_layout = GLWETensorKeyLayout {
        n: (n as u32).into(),
        base2k: (c.k_key as u32).into(),
        k: (k_tsk as u32).into(),
        rank: (rank as u32).into(),
        dnum: (dnum as u32).into(),
        dsize: Dsize(c.dsize as u32),
    };
    let tsk_enc = EncryptionLayout::new_from_default_sigma(tsk_layout).unwrap();
    let mut tsk: GLWETensorKey<Vec<u8>> = GLWETensorKey::alloc_from_infos(&tsk_layout);
    module.glwe_tensor_key_encrypt_sk(&mut tsk, &sk, &tsk_enc, &mut source_xe, &mut source_xa, scratch.borrow());
    let mut tsk_prep: GLWETensorKeyPrepared<DeviceBuf<BE>, BE> = module.alloc_tensor_key_prepared_from_infos(&tsk_layout);
    module.prepare_tensor_key(&mut tsk_prep, &tsk, scratch.borrow());

    let mut r = GLWE::<Vec<u8>>::alloc((n as u32).into(), (c.k_res as u32).into(), (k_out as u32).into(), (rank as u32).into());
    fill_garbage(r.data_mut(), &mut rng);
    module.glwe_tensor_relinearize(&mut r, &t, &tsk_prep, tsk_prep.size(), scratch.borrow());
    let mut pt_r = GLWEPlaintext::<Vec<u8>>::alloc((n as u32).into(), (c.k_res as u32).into(), (k_out as u32).into());
    module.glwe_decrypt(&r, &mut pt_r, &sk_prep, scratch.borrow());
    let have_r = torus_of_limbs(&limbs_of(pt_r.data(), 0, pt_r.size(), !0i64), c.k_res);
    let relin = std_log2(&centered_diff(&have_r, &want_ab));

    // ---- square
    let mut tsq = GLWETensor::<Vec<u8>>::alloc((n as u32).into(), (c.k_t as u32).into(), (k_out as u32).into(), (rank as u32).into());
    fill_garbage(tsq.data_mut(), &mut rng);
    module.glwe_tensor_square_apply(c.off, &mut tsq, &a, c.ka, scratch.borrow());
    module.glwe_tensor_relinearize(&mut r, &tsq, &tsk_prep, tsk_prep.size(), scratch.borrow());
    module.glwe_decrypt(&r, &mut pt_r, &sk_prep, scratch.borrow());
    let have_sq = torus_of_limbs(&limbs_of(pt_r.data(), 0, pt_r.size(), !0i64), c.k_res);
    let square_relin = std_log2(&centered_diff(&have_sq, &want_aa));

    // ---- mul_plain: a * pt_b  (pt_b has exactly ceil(kb / k_in) limbs)
    let mut rp = GLWE::<Vec<u8>>::alloc((n as u32).into(), (c.k_res as u32).into(), (k_out as u32).into(), (rank as u32).into());
    fill_garbage(rp.data_mut(), &mut rng);
    module.glwe_mul_plain(c.off, &mut rp, &a, c.ka, &pt_b_full, c.kb, scratch.borrow());
    module.glwe_decrypt(&rp, &mut pt_r, &sk_prep, scratch.borrow());
    let have_p = torus_of_limbs(&limbs_of(pt_r.data(), 0, pt_r.size(), !0i64), c.k_res);
    let plain = std_log2(&centered_diff(&have_p, &want_ab));

    // ---- mul_const: a * (c0 * 2^-scale_b) with the constant given as base-2^k_in digits
    let c0 = data_b[0];
    let sbl = c.scale_b.div_ceil(c.k_in);
    let mut digits = vec![0i64; sbl];
    digits[sbl - 1] = c0 << (sbl * c.k_in - c.scale_b);
    // `a` holds dirty extra limbs that mul_const cannot be told to ignore (no effective_k): give it a clean operand
    let a_clean = {
        use poulpy_hal::layouts::{ZnxView, ZnxViewMut};
        let size = c.ka.div_ceil(c.k_in);
        let mut g = GLWE::<Vec<u8>>::alloc((n as u32).into(), (c.k_in as u32).into(), ((size * c.k_in) as u32).into(), (rank as u32).into());
        for col in 0..rank + 1 {
            for j in 0..size {
                g.data_mut().at_mut(col, j).copy_from_slice(a.data().at(col, j));
            }
        }
        g
    };
    fill_garbage(rp.data_mut(), &mut rng);
    module.glwe_mul_const(c.off, &mut rp, &a_clean, &digits, scratch.borrow());
    module.glwe_decrypt(&rp, &mut pt_r, &sk_prep, scratch.borrow());
    let have_c = torus_of_limbs(&limbs_of(pt_r.data(), 0, pt_r.size(), !0i64), c.k_res);
    let dac: Vec<i128> = da.iter().map(|x| x * c0 as i128).collect();
    let want_c = torus_at(&dac, (c.scale_a + c.scale_b) as i64 - c.off as i64);
    let konst = std_log2(&centered_diff(&have_c, &want_c));

    let predicted = -(c.ka.min(c.kb) as f64) + c.off as f64 + (n as f64).log2() + (rank as f64 - 1.0) / std::f64::consts::SQRT_2;
    Res {
        tensor,
        relin,
        square_relin,
        plain,
        konst,
        predicted,
    }
}

fn sweep(rank: usize, dsize: usize) {
    let n = 32;
    let m_fft: Module<FFT64Ref> = Module::<FFT64Ref>::new(n as u64);
    let m_ntt: Module<NTT120Ref> = Module::<NTT120Ref>::new(n as u64);
    let mut seed = 0xABCDEF12345u64 + (rank * 10 + dsize) as u64;
    let mut fails = vec![];
    let mut worst = f64::NEG_INFINITY;
    for &(k_in, k_t, k_key, k_res) in &[(12usize, 12usize, 12usize, 12usize), (12, 11, 12, 10), (12, 13, 14, 12)] {
        for &(ka, kb) in &[(60usize, 60usize), (61, 43), (40, 59), (37, 37)] {
            for &(scale_a, scale_b) in &[(20usize, 20usize), (24, 13), (9, 30)] {
                for extra in [0usize, 2] {
                    for d_off in [0usize, 1, 5, 11, 12, 13, 17] {
                        let off = scale_a.max(scale_b) + d_off;
                        seed = seed.wrapping_mul(6364136223846793005).wrapping_add(1442695040888963407);
                        let c = Cfg {
                            n,
                            rank,
                            k_in,
                            k_t,
                            k_key,
                            k_res,
                            ka,
                            kb,
                            alloc_extra: extra,
                            scale_a,
                            scale_b,
                            off,
                            dsize,
                            seed,
                        };
                        for be in 0..2 {
                            let r = if be == 0 { run(&m_fft, &c) } else { run(&m_ntt, &c) };
                            let name = if be == 0 { "fft64" } else { "ntt120" };
                            for (what, v) in [
                                ("tensor", r.tensor),
                                ("relin", r.relin),
                                ("square", r.square_relin),
                                ("mul_plain", r.plain),
                                ("mul_const", r.konst),
                            ] {
                                // the prediction is a heuristic (it ignores the factor 2 of a square and the magnitude of the
                                // messages): allow 2.5 bits; skip configurations whose predicted noise fills the torus.
                                if r.predicted > -6.0 {
                                    continue;
                                }
                                let margin = v - r.predicted;
                                worst = worst.max(margin);
                                if margin > 2.5 {
                                    fails.push(format!("{name} {what}: noise 2^{v:.1} > predicted 2^{:.1}: {c:?}", r.predicted));
                                }
                            }
                        }
                    }
                }
            }
        }
    }
    println!("rank={rank} dsize={dsize}: worst log2(noise/predicted) = {worst:.2}; failures = {}", fails.len());
    for f in fails.iter().take(20) {
        println!("  {f}");
    }
    assert!(fails.is_empty());
}

#[test]
fn e2e_rank1_dsize1() {
    sweep(1, 1);
}
#[test]
fn e2e_rank1_dsize2() {
    sweep(1, 2);
}
#[test]
fn e2e_rank1_dsize3() {
    sweep(1, 3);
}
#[test]
fn e2e_rank2_dsize1() {
    sweep(2, 1);
}
#[test]
fn e2e_rank2_dsize2() {
    sweep(2, 2);
}
#[test]
fn e2e_rank2_dsize3() {
    sweep(2, 3);
}
