//! Shared helpers for the C05 (ciphertext multiplication) audit tests.
//!
//! Exact oracle: every torus value is represented as an integer modulo 2^D (D = 120), i.e. x = X / 2^D mod 1.
//! Products of limb polynomials are evaluated exactly in i128 (wrapping modulo 2^128, of which 2^D is a divisor).
#![allow(dead_code)]

use poulpy_hal::layouts::{DataMut, DataRef, VecZnx, ZnxInfos, ZnxView, ZnxViewMut};

pub const D: u32 = 120;

/// Small deterministic PRNG (xorshift64*), independent from the library sources.
pub struct Rng(pub u64);
impl Rng {
    pub fn next_u64(&mut self) -> u64 {
        let mut x = self.0;
        x ^= x >> 12;
        x ^= x << 25;
        x ^= x >> 27;
        self.0 = x;
        x.wrapping_mul(0x2545F4914F6CDD1D)
    }
    pub fn below(&mut self, m: u64) -> u64 {
        self.next_u64() % m
    }
    /// Balanced digit in [-2^{k-1}, 2^{k-1})
    pub fn digit(&mut self, k: usize) -> i64 {
        let r = self.next_u64() & ((1u64 << k) - 1);
        (r as i64) - (1i64 << (k - 1))
    }
}

#[derive(Clone, Copy, Debug, PartialEq, Eq)]
pub enum Fill {
    Random,
    MaxPos,
    MaxNeg,
    Mixed,
}

/// Fills every limb of every column with balanced base-2^k digits.
pub fn fill_digits<Dm: DataMut>(v: &mut VecZnx<Dm>, k: usize, fill: Fill, rng: &mut Rng) {
    let cols = v.cols();
    let size = v.size();
    for c in 0..cols {
        for j in 0..size {
            for x in v.at_mut(c, j).iter_mut() {
                *x = match fill {
                    Fill::Random => rng.digit(k),
                    Fill::MaxPos => (1i64 << (k - 1)) - 1,
                    Fill::MaxNeg => -(1i64 << (k - 1)),
                    Fill::Mixed => match rng.below(4) {
                        0 => (1i64 << (k - 1)) - 1,
                        1 => -(1i64 << (k - 1)),
                        2 => 0,
                        _ => rng.digit(k),
                    },
                };
            }
        }
    }
}

/// Fills with garbage that is NOT a valid digit pattern (used for dirty outputs).
pub fn fill_garbage<Dm: DataMut>(v: &mut VecZnx<Dm>, rng: &mut Rng) {
    let cols = v.cols();
    let size = v.size();
    for c in 0..cols {
        for j in 0..size {
            for x in v.at_mut(c, j).iter_mut() {
                *x = (rng.next_u64() as i64) >> 20;
            }
        }
    }
}

pub fn msb_mask(base2k: usize, k: usize) -> i64 {
    match k % base2k {
        0 => !0i64,
        r => (!0i64) << (base2k - r),
    }
}

/// Extracts the first `size` limbs of column `col`, masking the last one.
pub fn limbs_of<Dr: DataRef>(v: &VecZnx<Dr>, col: usize, size: usize, mask: i64) -> Vec<Vec<i128>> {
    (0..size)
        .map(|j| {
            v.at(col, j)
                .iter()
                .map(|&x| if j + 1 == size { (x & mask) as i128 } else { x as i128 })
                .collect()
        })
        .collect()
}

pub fn negacyclic(a: &[i128], b: &[i128]) -> Vec<i128> {
    let n = a.len();
    let mut r = vec![0i128; n];
    for i in 0..n {
        if a[i] == 0 {
            continue;
        }
        for j in 0..n {
            let p = a[i].wrapping_mul(b[j]);
            if i + j < n {
                r[i + j] = r[i + j].wrapping_add(p);
            } else {
                r[i + j - n] = r[i + j - n].wrapping_sub(p);
            }
        }
    }
    r
}

pub fn poly_add(a: &mut [i128], b: &[i128]) {
    for (x, y) in a.iter_mut().zip(b) {
        *x = x.wrapping_add(*y);
    }
}

/// Un-normalised product limbs P[idx] = sum_{i+j=idx} a_i * b_j, idx in 0..sa+sb-1
pub fn product_limbs(a: &[Vec<i128>], b: &[Vec<i128>]) -> Vec<Vec<i128>> {
    let n = a[0].len();
    let mut p = vec![vec![0i128; n]; a.len() + b.len() - 1];
    for (i, ai) in a.iter().enumerate() {
        for (j, bj) in b.iter().enumerate() {
            let t = negacyclic(ai, bj);
            poly_add(&mut p[i + j], &t);
        }
    }
    p
}

pub fn mask_d() -> u128 {
    (1u128 << D) - 1
}

/// Torus value (mod 2^D) of (sum_{idx<cut} P[idx] 2^{-(idx+2) k_in}) * 2^{cnv_offset}
pub fn torus_of_product(p: &[Vec<i128>], k_in: usize, cnv_offset: usize, cut: usize) -> Vec<u128> {
    let n = p[0].len();
    let mut r = vec![0u128; n];
    for (idx, limb) in p.iter().enumerate() {
        if idx >= cut {
            break;
        }
        let e: i64 = D as i64 - ((idx + 2) * k_in) as i64 + cnv_offset as i64;
        assert!(e >= 0, "oracle precision exhausted: e={e}");
        if e >= D as i64 {
            continue;
        }
        for (x, y) in r.iter_mut().zip(limb) {
            *x = x.wrapping_add((*y as u128).wrapping_shl(e as u32)) & mask_d();
        }
    }
    r
}

/// Torus value (mod 2^D) of sum_j limb_j 2^{-(j+1) k}
pub fn torus_of_limbs(l: &[Vec<i128>], k: usize) -> Vec<u128> {
    let n = l[0].len();
    let mut r = vec![0u128; n];
    for (j, limb) in l.iter().enumerate() {
        let e: i64 = D as i64 - ((j + 1) * k) as i64;
        assert!(e >= 0, "oracle precision exhausted (limbs): e={e}");
        for (x, y) in r.iter_mut().zip(limb) {
            *x = x.wrapping_add((*y as u128).wrapping_shl(e as u32)) & mask_d();
        }
    }
    r
}

pub fn torus_add(a: &mut [u128], b: &[u128]) {
    for (x, y) in a.iter_mut().zip(b) {
        *x = x.wrapping_add(*y) & mask_d();
    }
}

pub fn torus_sub(a: &mut [u128], b: &[u128]) {
    for (x, y) in a.iter_mut().zip(b) {
        *x = x.wrapping_sub(*y) & mask_d();
    }
}

/// Centered difference (have - want) mod 2^D, as signed integers.
pub fn centered_diff(have: &[u128], want: &[u128]) -> Vec<i128> {
    have.iter()
        .zip(want)
        .map(|(h, w)| {
            let d = h.wrapping_sub(*w) & mask_d();
            if d >= (1u128 << (D - 1)) { d as i128 - (1i128 << D) } else { d as i128 }
        })
        .collect()
}

/// max |diff| expressed in units of 2^{-prec_bits}
pub fn max_ulps(diff: &[i128], prec_bits: usize) -> f64 {
    let m = diff.iter().map(|d| d.unsigned_abs()).max().unwrap_or(0);
    (m as f64) / ((D as usize - prec_bits) as f64).exp2()
}

/// (hi, lo) split of the convolution offset exactly as specified: product * 2^{cnv_offset} = conv(hi) * 2^{lo}
pub fn split_offset(cnv_offset: usize, k: usize) -> (usize, i64) {
    if cnv_offset < k {
        (0, cnv_offset as i64 - k as i64)
    } else {
        (cnv_offset / k - 1, (cnv_offset % k) as i64)
    }
}

/// Number of product limbs (absolute index, exclusive) the library is expected to feed to the normalisation.
pub fn kept_cut(sa: usize, sb: usize, res_size: usize, k_res: usize, k_in: usize, cnv_offset: usize) -> usize {
    let (hi, lo) = split_offset(cnv_offset, k_in);
    let lo_pos = lo.rem_euclid(k_in as i64) as usize;
    let full = sa + sb - hi;
    let m = full.min((res_size * k_res + lo_pos).div_ceil(k_in));
    hi + m
}

/// column of the (i, j) pair (i <= j) in a GLWETensor of rank `rank`
pub fn tensor_col(cols: usize, i: usize, j: usize) -> usize {
    assert!(i <= j);
    i * cols - (i * (i + 1) / 2) + j
}
