//! C05 audit: minimal reproductions of the defects found by the sweeps. Every test here FAILS on the audited tree.
mod c05_common;
use c05_common::*;

use poulpy_core::{
    EncryptionLayout, GLWEDecrypt, GLWEMulConst, GLWETensorKeyEncryptSk, GLWETensoring,
    layouts::{
        Dsize, GLWE, GLWESecret, GLWESecretPreparedFactory, GLWETensor, GLWETensorKey, GLWETensorKeyLayout, GLWETensorKeyPrepared,
        GLWETensorKeyPreparedFactory, LWEInfos, prepared::GLWESecretPrepared,
    },
};
use poulpy_cpu_ref::{FFT64Ref, NTT120Ref};
use poulpy_hal::{
    api::{Convolution, ModuleNew, ScratchOwnedAlloc, ScratchOwnedBorrow},
    layouts::{DeviceBuf, Module, ScratchOwned, ZnxView, ZnxViewMut},
    source::Source,
};

fn glwe(n: usize, k: usize, size: usize, rank: usize) -> GLWE<Vec<u8>> {
    GLWE::<Vec<u8>>::alloc((n as u32).into(), (k as u32).into(), ((size * k) as u32).into(), (rank as u32).into())
}

/// D1a. `Module::cnv_pairwise_apply_dft_tmp_bytes(cnv_offset, res_size, a_size, b_size)` forwards its first two
/// arguments swapped to the backend (poulpy-hal/src/delegates/convolution.rs:98-100).
#[test]
fn d1a_pairwise_tmp_bytes_arguments_swapped() {
    let m: Module<FFT64Ref> = Module::<FFT64Ref>::new(8);
    // the scratch need of the FFT64 pairwise convolution grows with res_size and does not depend on cnv_offset
    let small_res = m.cnv_pairwise_apply_dft_tmp_bytes(0, 1, 3, 3);
    let large_res = m.cnv_pairwise_apply_dft_tmp_bytes(0, 5, 3, 3);
    let off_only = m.cnv_pairwise_apply_dft_tmp_bytes(5, 1, 3, 3);
    println!("tmp_bytes(off=0,res=1)={small_res} tmp_bytes(off=0,res=5)={large_res} tmp_bytes(off=5,res=1)={off_only}");
    assert!(large_res > small_res, "res_size is ignored");
    assert_eq!(off_only, small_res, "cnv_offset is taken for res_size");
}

/// D1b. Consequence: `glwe_tensor_apply_tmp_bytes` (and the square variant) under-declare on FFT64; a scratch of exactly the
/// advertised size makes `glwe_tensor_apply` panic in `take_slice`.
#[test]
fn d1b_tensor_apply_exact_scratch_fft64() {
    let m: Module<FFT64Ref> = Module::<FFT64Ref>::new(8);
    let (n, k, rank) = (8, 12, 1);
    let mut rng = Rng(7);
    let mut a = glwe(n, k, 3, rank);
    let mut b = glwe(n, k, 3, rank);
    fill_digits(a.data_mut(), k, Fill::Random, &mut rng);
    fill_digits(b.data_mut(), k, Fill::Random, &mut rng);
    let mut res = GLWETensor::<Vec<u8>>::alloc((n as u32).into(), (k as u32).into(), ((3 * k) as u32).into(), (rank as u32).into());
    let bytes = m.glwe_tensor_apply_tmp_bytes(&res, &a, &b);
    let mut scratch = ScratchOwned::<FFT64Ref>::alloc(bytes);
    m.glwe_tensor_apply(2 * k + 5, &mut res, &a, 3 * k, &b, 3 * k, scratch.borrow());
}

/// D2. NTT120 `vmp_apply_dft_to_dft`: when the output has fewer limbs than the prepared matrix and
/// `cols_out * res.size()` is odd, the last output column is read with the single-column layout although it is stored
/// as the first half of a column pair (poulpy-cpu-ref/src/reference/ntt120/vmp.rs:257-277; FFT64 has the
/// `ncols == col_max` distinction). Reached from `glwe_tensor_relinearize` with rank 2 and an odd `tsk_size < tsk.size()`.
#[test]
fn d2_ntt120_relinearize_reduced_tsk_size_rank2() {
    fn relin<BE: poulpy_core::test_suite::TestBackend>(m: &Module<BE>, tsk_size_delta: usize) -> Vec<i64>
    where
        Module<BE>: GLWETensoring<BE> + GLWESecretPreparedFactory<BE> + GLWETensorKeyEncryptSk<BE> + GLWETensorKeyPreparedFactory<BE> + GLWEDecrypt<BE>,
        ScratchOwned<BE>: ScratchOwnedAlloc<BE> + ScratchOwnedBorrow<BE>,
        poulpy_hal::layouts::Scratch<BE>: poulpy_hal::api::ScratchAvailable + poulpy_core::ScratchTakeCore<BE>,
    {
        let (n, k, rank) = (16usize, 12usize, 2usize);
        let mut scratch: ScratchOwned<BE> = ScratchOwned::alloc(1 << 22);
        let mut sk: GLWESecret<Vec<u8>> = GLWESecret::alloc((n as u32).into(), (rank as u32).into());
        sk.fill_ternary_prob(0.5, &mut Source::new([1u8; 32]));
        let mut sk_prep: GLWESecretPrepared<DeviceBuf<BE>, BE> = m.glwe_secret_prepared_alloc_from_infos(&sk);
        m.glwe_secret_prepare(&mut sk_prep, &sk);
        let lay = GLWETensorKeyLayout {
            n: (n as u32).into(),
            base2k: (k as u32).into(),
            k: ((4 * k) as u32).into(), // 4 limbs
            rank: (rank as u32).into(),
            dnum: 3u32.into(),
            dsize: Dsize(1),
        };
        let enc = EncryptionLayout::new_from_default_sigma(lay).unwrap();
        let mut tsk: GLWETensorKey<Vec<u8>> = GLWETensorKey::alloc_from_infos(&lay);
        m.glwe_tensor_key_encrypt_sk(&mut tsk, &sk, &enc, &mut Source::new([2u8; 32]), &mut Source::new([3u8; 32]), scratch.borrow());
        let mut tsk_prep: GLWETensorKeyPrepared<DeviceBuf<BE>, BE> = m.alloc_tensor_key_prepared_from_infos(&lay);
        m.prepare_tensor_key(&mut tsk_prep, &tsk, scratch.borrow());

        let mut t = GLWETensor::<Vec<u8>>::alloc((n as u32).into(), (k as u32).into(), ((2 * k) as u32).into(), (rank as u32).into());
        fill_digits(t.data_mut(), k, Fill::Random, &mut Rng(99));
        let mut res = glwe(n, k, 3, rank);
        m.glwe_tensor_relinearize(&mut res, &t, &tsk_prep, tsk_prep.size() - tsk_size_delta, scratch.borrow());
        res.data().raw().to_vec()
    }
    let m_fft: Module<FFT64Ref> = Module::<FFT64Ref>::new(16);
    let m_ntt: Module<NTT120Ref> = Module::<NTT120Ref>::new(16);
    assert_eq!(relin(&m_fft, 0), relin(&m_ntt, 0), "full tsk_size: backends agree");
    assert_eq!(relin(&m_fft, 2), relin(&m_ntt, 2), "tsk_size = 2 (3 * 2 even): backends agree");
    let (f, t) = (relin(&m_fft, 1), relin(&m_ntt, 1));
    let bad: Vec<usize> = (0..f.len()).filter(|i| f[*i] != t[*i]).collect();
    println!("tsk_size = 3 of 4: {} of {} coefficients differ, first at flat index {:?}", bad.len(), f.len(), bad.first());
    assert_eq!(f, t, "tsk_size = 3 (3 * 3 odd): NTT120 differs from FFT64 (FFT64 matches the exact phase, see c05_relin_exact)");
}

/// D3. `glwe_mul_const_assign` accumulates the product into `res.size()` limbs only, `glwe_mul_const` (and
/// `glwe_mul_plain_assign`) into `a.size() + b.len() - cnv_offset_hi`: the in-place form drops the low product limbs.
/// res = 1000 (one limb, K = 12), b = [0, 2047] i.e. 2047 * 2^-24, cnv_offset = 12:
/// exact result = 1000 * 2047 * 2^-24 = 499.76 * 2^-12 -> digit 500.
#[test]
fn d3_mul_const_assign_drops_low_limbs() {
    let m: Module<FFT64Ref> = Module::<FFT64Ref>::new(8);
    let (n, k, rank) = (8, 12, 1);
    let b = [0i64, 2047];
    let mut a = glwe(n, k, 1, rank);
    a.data_mut().at_mut(0, 0)[0] = 1000;
    a.data_mut().at_mut(1, 0)[3] = -777;

    let mut out = glwe(n, k, 1, rank);
    let mut scratch = ScratchOwned::<FFT64Ref>::alloc(m.glwe_mul_const_tmp_bytes(&out, &a, b.len()));
    m.glwe_mul_const(12, &mut out, &a, &b, scratch.borrow());

    let mut inplace = glwe(n, k, 1, rank);
    inplace.data_mut().raw_mut().copy_from_slice(a.data().raw());
    m.glwe_mul_const_assign(12, &mut inplace, &b, scratch.borrow());

    println!("out-of-place: body[0]={} mask[3]={}", out.data().at(0, 0)[0], out.data().at(1, 0)[3]);
    println!("in-place    : body[0]={} mask[3]={}", inplace.data().at(0, 0)[0], inplace.data().at(1, 0)[3]);
    assert_eq!(out.data().at(0, 0)[0], 500);
    assert_eq!(out.data().at(1, 0)[3], -388); // -777 * 2047 / 4096 = -388.3
    assert_eq!(inplace.data().raw(), out.data().raw(), "glwe_mul_const_assign != glwe_mul_const");
}

/// D4. Result narrower than one operand limb (res.size() * res_base2k < a_base2k), different radices, cnv_offset < a_base2k:
/// the carry that leaves the top of the product is written into the result without being divided by the
/// 2^(a_base2k - res bits) it still has to cross (cross-radix counterpart of the same-radix chain fixed in cebdde8).
/// a = 2047 (one limb, K = 12), b = [2047], cnv_offset = 0, res: one limb of 10 bits:
/// exact = 2047 * 2047 * 2^-24 = 0.24976 = 255.75 * 2^-10 -> digit 256.
#[test]
fn d4_cross_radix_result_narrower_than_one_limb() {
    let (n, k_in, k_res, rank) = (8, 12, 10, 1);
    let run = |k_res: usize| -> i64 {
        let m: Module<FFT64Ref> = Module::<FFT64Ref>::new(8);
        let mut a = glwe(n, k_in, 1, rank);
        a.data_mut().at_mut(0, 0)[0] = 2047;
        let mut out = glwe(n, k_res, 1, rank);
        let mut scratch = ScratchOwned::<FFT64Ref>::alloc(m.glwe_mul_const_tmp_bytes(&out, &a, 1));
        m.glwe_mul_const(0, &mut out, &a, &[2047], scratch.borrow());
        out.data().at(0, 0)[0]
    };
    let same_radix = run(k_in); // 2047*2047*2^-24 = 1023.0 * 2^-12 -> 1023
    let cross = run(k_res);
    println!("same radix (12-bit result): {same_radix}; cross radix (10-bit result): {cross} (expected 256)");
    assert_eq!(same_radix, 1023);
    assert_eq!(cross, 256);
}
