//! C05 audit: glwe_tensor_relinearize and glwe_tensor_decrypt against an exact phase oracle.
//!
//! The tensor ciphertext is filled with arbitrary digits (relinearisation is linear in the tensor, it does not need to
//! come from an actual product). The secret is recovered through the public API (decryption of unit ciphertexts), then
//!   phase(T)   = T_0 + sum_i T_i s_i + sum_{i<=j} T_ij s_i s_j
//!   phase(res) = res_0 + sum_i res_i s_i
//! are evaluated exactly modulo 1 and compared. The tensor key is encrypted with the smallest admissible noise
//! (sigma = bound = 1, i.e. e in {-1,0,1} * 2^-k_tsk) so that a deterministic bound applies.
mod c05_common;
use c05_common::*;

use std::{
    collections::BTreeMap,
    panic::{AssertUnwindSafe, catch_unwind},
};

use poulpy_core::{
    EncryptionLayout, GLWEDecrypt, GLWETensorDecrypt, GLWETensorKeyEncryptSk, GLWETensoring, ScratchTakeCore,
    layouts::{
        Dsize, GLWE, GLWEPlaintext, GLWESecret, GLWESecretPreparedFactory, GLWESecretTensor, GLWESecretTensorFactory,
        GLWESecretTensorPrepared, GLWESecretTensorPreparedFactory, GLWETensor, GLWETensorKey, GLWETensorKeyLayout,
        GLWETensorKeyPrepared, GLWETensorKeyPreparedFactory, LWEInfos, prepared::GLWESecretPrepared,
    },
};
use poulpy_cpu_ref::{FFT64Ref, NTT120Ref};
use poulpy_hal::{
    api::{ModuleN, ModuleNew, ScratchAvailable, ScratchOwnedAlloc, ScratchOwnedBorrow},
    layouts::{DeviceBuf, Module, NoiseInfos, Scratch, ScratchOwned, ZnxView, ZnxViewMut},
    source::Source,
};

#[derive(Clone, Copy, Debug)]
struct Cfg {
    n: usize,
    rank: usize,
    k_t: usize,   // tensor radix
    k_key: usize, // key radix
    k_res: usize, // result radix
    size_t: usize,
    size_res: usize,
    dsize: usize,
    dnum_delta: i64,     // dnum = ceil(a_dft_size / dsize) + delta
    tsk_size_delta: i64, // tsk_size argument = tsk.size() + delta
    seed: u64,
}

fn mul_small(a: &[u128], s: &[i64]) -> Vec<u128> {
    let n = a.len();
    let mut r = vec![0u128; n];
    for (j, &sj) in s.iter().enumerate() {
        if sj == 0 {
            continue;
        }
        for i in 0..n {
            let p = a[i].wrapping_mul(sj as i128 as u128);
            if i + j < n {
                r[i + j] = r[i + j].wrapping_add(p);
            } else {
                r[i + j - n] = r[i + j - n].wrapping_sub(p);
            }
        }
    }
    r.iter().map(|x| x & mask_d()).collect()
}

fn mul_small_small(a: &[i64], b: &[i64]) -> Vec<i64> {
    let n = a.len();
    let mut r = vec![0i64; n];
    for i in 0..n {
        for j in 0..n {
            let p = a[i] * b[j];
            if i + j < n {
                r[i + j] += p;
            } else {
                r[i + j - n] -= p;
            }
        }
    }
    r
}

#[derive(Debug, Clone, Default)]
struct Out {
    log2_err: f64,       // log2 of max |phase(res) - phase(T)| (torus)
    log2_bound: f64,     // log2 of the deterministic bound
    log2_dec_err: f64,   // glwe_tensor_decrypt vs exact phase, in ulps of the plaintext
    raw: Vec<i64>,
}

fn run<BE: poulpy_core::test_suite::TestBackend>(module: &Module<BE>, c: &Cfg, slack: usize) -> Out
where
    Module<BE>: GLWETensoring<BE>
        + GLWEDecrypt<BE>
        + GLWETensorDecrypt<BE>
        + GLWESecretPreparedFactory<BE>
        + GLWESecretTensorFactory<BE>
        + GLWESecretTensorPreparedFactory<BE>
        + GLWETensorKeyEncryptSk<BE>
        + GLWETensorKeyPreparedFactory<BE>,
    ScratchOwned<BE>: ScratchOwnedAlloc<BE> + ScratchOwnedBorrow<BE>,
    Scratch<BE>: ScratchAvailable + ScratchTakeCore<BE>,
{
    let n = c.n;
    let rank = c.rank;
    let cols = rank + 1;
    let pairs = rank * (rank + 1) / 2;
    let mut rng = Rng(c.seed | 1);

    let mut big_scratch: ScratchOwned<BE> = ScratchOwned::alloc(1 << 22);

    // ---- secret
    let mut seed_bytes = [0u8; 32];
    seed_bytes[..8].copy_from_slice(&c.seed.to_le_bytes());
    let mut source_xs = Source::new(seed_bytes);
    seed_bytes[8] = 1;
    let mut source_xe = Source::new(seed_bytes);
    seed_bytes[8] = 2;
    let mut source_xa = Source::new(seed_bytes);

    let mut sk: GLWESecret<Vec<u8>> = GLWESecret::alloc((n as u32).into(), (rank as u32).into());
    sk.fill_ternary_prob(0.5, &mut source_xs);
    let mut sk_prep: GLWESecretPrepared<DeviceBuf<BE>, BE> = module.glwe_secret_prepared_alloc_from_infos(&sk);
    module.glwe_secret_prepare(&mut sk_prep, &sk);

    // ---- recover s_i through decryption of unit ciphertexts
    let mut s: Vec<Vec<i64>> = vec![];
    for i in 0..rank {
        let mut unit = GLWE::<Vec<u8>>::alloc((n as u32).into(), 12u32.into(), 12u32.into(), (rank as u32).into());
        unit.data_mut().at_mut(i + 1, 0)[0] = 1;
        let mut pt = GLWEPlaintext::<Vec<u8>>::alloc((n as u32).into(), 12u32.into(), 12u32.into());
        module.glwe_decrypt(&unit, &mut pt, &sk_prep, big_scratch.borrow());
        let si: Vec<i64> = pt.data().at(0, 0).to_vec();
        assert!(si.iter().all(|x| x.abs() <= 1), "secret extraction failed: {si:?}");
        s.push(si);
    }
    let mut s_pairs: Vec<Vec<i64>> = vec![];
    for i in 0..rank {
        for j in i..rank {
            s_pairs.push(mul_small_small(&s[i], &s[j]));
        }
    }
    assert_eq!(s_pairs.len(), pairs);

    // ---- tensor key
    let p_t = c.size_t * c.k_t;
    let a_dft_size = p_t.div_ceil(c.k_key);
    let dnum = (a_dft_size.div_ceil(c.dsize) as i64 + c.dnum_delta).max(1) as usize;
    let k_tsk = (dnum * c.dsize + c.dsize) * c.k_key;
    let tsk_layout = GLWETensorKeyLayout {
        n: (n as u32).into(),
        base2k: (c.k_key as u32).into(),
        k: (k_tsk as u32).into(),
        rank: (rank as u32).into(),
        dnum: (dnum as u32).into(),
        dsize: Dsize(c.dsize as u32),
    };
    let tsk_enc = EncryptionLayout::new(tsk_layout, NoiseInfos::new(k_tsk, 1.0, 1.0).unwrap()).unwrap();
    let mut tsk: GLWETensorKey<Vec<u8>> = GLWETensorKey::alloc_from_infos(&tsk_layout);
    module.glwe_tensor_key_encrypt_sk(&mut tsk, &sk, &tsk_enc, &mut source_xe, &mut source_xa, big_scratch.borrow());
    let mut tsk_prep: GLWETensorKeyPrepared<DeviceBuf<BE>, BE> = module.alloc_tensor_key_prepared_from_infos(&tsk_layout);
    module.prepare_tensor_key(&mut tsk_prep, &tsk, big_scratch.borrow());

    // ---- tensor with arbitrary digits
    let mut t = GLWETensor::<Vec<u8>>::alloc((n as u32).into(), (c.k_t as u32).into(), (p_t as u32).into(), (rank as u32).into());
    assert_eq!(t.size(), c.size_t);
    fill_digits(t.data_mut(), c.k_t, Fill::Random, &mut rng);

    let mut res = GLWE::<Vec<u8>>::alloc(
        (n as u32).into(),
        (c.k_res as u32).into(),
        ((c.size_res * c.k_res) as u32).into(),
        (rank as u32).into(),
    );
    fill_garbage(res.data_mut(), &mut rng);

    let tsk_size = (tsk_prep.size() as i64 + c.tsk_size_delta).max(1) as usize;

    let bytes = module.glwe_tensor_relinearize_tmp_bytes(&res, &t, &tsk_prep);
    let mut scratch = ScratchOwned::<BE>::alloc(bytes + slack);
    scratch.data.as_mut().fill(0xA5);
    module.glwe_tensor_relinearize(&mut res, &t, &tsk_prep, tsk_size, scratch.borrow());

    // ---- exact phases
    let t_cols: Vec<Vec<u128>> = (0..cols + pairs)
        .map(|col| torus_of_limbs(&limbs_of(t.data(), col, c.size_t, !0i64), c.k_t))
        .collect();
    let mut phase_t = t_cols[0].clone();
    for i in 0..rank {
        torus_add(&mut phase_t, &mul_small(&t_cols[1 + i], &s[i]));
    }
    for p in 0..pairs {
        torus_add(&mut phase_t, &mul_small(&t_cols[cols + p], &s_pairs[p]));
    }

    let r_cols: Vec<Vec<u128>> = (0..cols)
        .map(|col| torus_of_limbs(&limbs_of(res.data(), col, c.size_res, !0i64), c.k_res))
        .collect();
    let mut phase_r = r_cols[0].clone();
    for i in 0..rank {
        torus_add(&mut phase_r, &mul_small(&r_cols[1 + i], &s[i]));
    }

    let diff = centered_diff(&phase_r, &phase_t);
    let max = diff.iter().map(|d| d.unsigned_abs()).max().unwrap();
    let log2_err = ((max as f64) + 0.5).log2() - D as f64;

    // deterministic bound
    let nn = n as f64;
    let res_bits = (c.size_res * c.k_res) as f64;
    let digits_used = dnum.min(a_dft_size.div_ceil(c.dsize));
    let covered_bits = ((digits_used * c.dsize * c.k_key) as f64).min(p_t as f64);
    // (1) rounding of res columns
    let e_round = (1.0 + rank as f64 * nn) * (-res_bits).exp2();
    // (2) key noise: each of the pairs * digits products multiplies a digit < 2^{k_key * dsize} by |e| <= 1 ulp of k_tsk
    let e_key = (pairs * digits_used) as f64 * nn * ((c.k_key * c.dsize) as f64 - k_tsk as f64).exp2() * (1.0 + rank as f64 * nn);
    // (3) truncation of the accumulator to tsk_size limbs
    let acc_bits = (tsk_size.min(tsk_prep.size()) * c.k_key) as f64;
    let e_acc = (pairs * digits_used) as f64 * nn * ((c.k_key * c.dsize) as f64 - acc_bits).exp2() * (1.0 + rank as f64 * nn);
    // (4) tensor bits not covered by the key's digits
    let e_cov = if covered_bits < p_t as f64 { pairs as f64 * nn * (-covered_bits).exp2() } else { 0.0 };
    let log2_bound = (e_round + e_key + e_acc + e_cov).log2();

    // ---- glwe_tensor_decrypt against the exact phase
    let mut sk_tensor: GLWESecretTensor<Vec<u8>> = GLWESecretTensor::alloc((n as u32).into(), (rank as u32).into());
    module.glwe_secret_tensor_prepare(&mut sk_tensor, &sk, big_scratch.borrow());
    let mut sk_tensor_prep: GLWESecretTensorPrepared<DeviceBuf<BE>, BE> = module.glwe_secret_tensor_prepared_alloc((rank as u32).into());
    module.glwe_secret_tensor_prepared_prepare(&mut sk_tensor_prep, &sk_tensor);
    let mut pt = GLWEPlaintext::<Vec<u8>>::alloc((n as u32).into(), (c.k_t as u32).into(), (p_t as u32).into());
    fill_garbage(pt.data_mut(), &mut rng);
    let dec_bytes = module.glwe_tensor_decrypt_tmp_bytes(&t);
    let mut dec_scratch = ScratchOwned::<BE>::alloc(dec_bytes + slack);
    dec_scratch.data.as_mut().fill(0x5A);
    module.glwe_tensor_decrypt(&t, &mut pt, &sk_prep, &sk_tensor_prep, dec_scratch.borrow());
    let pt_t = torus_of_limbs(&limbs_of(pt.data(), 0, pt.size(), !0i64), c.k_t);
    let dec_err = max_ulps(&centered_diff(&pt_t, &phase_t), p_t);

    Out {
        log2_err,
        log2_bound,
        log2_dec_err: dec_err,
        raw: res.data().raw().to_vec(),
    }
}

fn msg(e: &Box<dyn std::any::Any + Send>) -> String {
    e.downcast_ref::<String>()
        .cloned()
        .or_else(|| e.downcast_ref::<&str>().map(|s| s.to_string()))
        .unwrap_or_default()
}

fn sweep(n: usize, radices: &[(usize, usize, usize)], ranks: &[usize], dnum_deltas: &[i64], tsk_deltas: &[i64]) {
    if std::env::var("C05_TRACE").is_err() {
        std::panic::set_hook(Box::new(|_| {}));
    }
    let m_fft: Module<FFT64Ref> = Module::<FFT64Ref>::new(n as u64);
    let m_ntt: Module<NTT120Ref> = Module::<NTT120Ref>::new(n as u64);
    assert_eq!(m_fft.n(), n);
    let mut hist: BTreeMap<String, (usize, String)> = BTreeMap::new();
    let mut runs = 0;
    let mut seed = 0x2545F4914F6CDD1Du64;
    let mut worst_margin = f64::NEG_INFINITY;
    let mut worst_cfg = String::new();
    let mut worst_dec = 0f64;
    let mut margins: BTreeMap<String, (f64, f64)> = BTreeMap::new();

    for &(k_t, k_key, k_res) in radices {
        for &rank in ranks {
            for dsize in 1..=3usize {
                for size_t in 1..=5usize {
                    if size_t * k_t > 100 {
                        continue;
                    }
                    for size_res in [1usize, 2, 3, 4, 6] {
                        if size_res * k_res > 110 {
                            continue;
                        }
                        for &dnum_delta in dnum_deltas {
                            for &tsk_size_delta in tsk_deltas {
                                seed = seed.wrapping_mul(6364136223846793005).wrapping_add(1442695040888963407);
                                let c = Cfg {
                                    n,
                                    rank,
                                    k_t,
                                    k_key,
                                    k_res,
                                    size_t,
                                    size_res,
                                    dsize,
                                    dnum_delta,
                                    tsk_size_delta,
                                    seed,
                                };
                                runs += 1;
                                if std::env::var("C05_TRACE").is_ok() {
                                    eprintln!("CFG {c:?}");
                                }
                                let mut outs = vec![];
                                for be in 0..2 {
                                    let name = if be == 0 { "fft64" } else { "ntt120" };
                                    let go = |slack: usize| {
                                        if be == 0 {
                                            catch_unwind(AssertUnwindSafe(|| run(&m_fft, &c, slack)))
                                        } else {
                                            catch_unwind(AssertUnwindSafe(|| run(&m_ntt, &c, slack)))
                                        }
                                    };
                                    let mut r = go(0);
                                    let key = |what: &str| {
                                        format!(
                                            "{what} {name} dsize={dsize} tskΔ={tsk_size_delta} dnumΔ={dnum_delta} radix(t,key,res)=({k_t},{k_key},{k_res})"
                                        )
                                    };
                                    if let Err(e) = &r {
                                        let m = msg(e);
                                        if m.contains("from scratch") || m.contains("scratch.available") {
                                            let ent = hist.entry(key("SCRATCH")).or_insert((0, String::new()));
                                            ent.0 += 1;
                                            if ent.1.is_empty() {
                                                ent.1 = format!("[{m}] {c:?}");
                                            }
                                            r = go(1 << 16);
                                        }
                                    }
                                    match r {
                                        Ok(o) => {
                                            let margin = o.log2_err - o.log2_bound;
                                            if margin > worst_margin {
                                                worst_margin = margin;
                                                worst_cfg = format!("{name} err=2^{:.1} bound=2^{:.1} {c:?}", o.log2_err, o.log2_bound);
                                            }
                                            worst_dec = worst_dec.max(o.log2_dec_err);
                                            {
                                                let big_res = size_res * k_res >= size_t * k_t + 12;
                                                let e = margins
                                                    .entry(format!("{name} dsize={dsize} big_res={big_res} radix=({k_t},{k_key},{k_res}) tskΔ={tsk_size_delta} dnumΔ={dnum_delta}"))
                                                    .or_insert((f64::INFINITY, f64::NEG_INFINITY));
                                                e.0 = e.0.min(margin);
                                                e.1 = e.1.max(margin);
                                            }
                                            if margin > 0.0 {
                                                let ent = hist.entry(key("ERR")).or_insert((0, String::new()));
                                                ent.0 += 1;
                                                if ent.1.is_empty() {
                                                    ent.1 = format!("err=2^{:.1} bound=2^{:.1} {c:?}", o.log2_err, o.log2_bound);
                                                }
                                            }
                                            if o.log2_dec_err > 1.0 + (rank + rank * (rank + 1) / 2) as f64 * 0.0 {
                                                let ent = hist.entry(key("DECRYPT")).or_insert((0, String::new()));
                                                ent.0 += 1;
                                                if ent.1.is_empty() {
                                                    ent.1 = format!("{:.2} ulps {c:?}", o.log2_dec_err);
                                                }
                                            }
                                            outs.push(o);
                                        }
                                        Err(e) => {
                                            let ent = hist.entry(key(&format!("PANIC [{}]", msg(&e)))).or_insert((0, String::new()));
                                            ent.0 += 1;
                                            if ent.1.is_empty() {
                                                ent.1 = format!("{c:?}");
                                            }
                                        }
                                    }
                                }
                                let _ = outs;
                            }
                        }
                    }
                }
            }
        }
    }
    println!("runs: {runs}");
    println!("worst margin log2(err/bound) = {worst_margin:.2} @ {worst_cfg}");
    println!("worst tensor_decrypt error: {worst_dec:.3} ulps");
    for (k, (lo, hi)) in margins.iter() {
        println!("  MARGIN {k}: [{lo:.1}, {hi:.1}]");
    }
    let mut bad = 0;
    for (k, (cnt, first)) in hist.iter() {
        println!("  HIST {k}: {cnt}  first: {first}");
        bad += cnt;
    }
    assert_eq!(bad, 0, "{bad} failing configurations");
}

#[test]
fn relin_nominal() {
    // dnum covers the tensor, tsk_size = tsk.size()
    sweep(16, &[(12, 12, 12), (11, 12, 12), (12, 12, 10), (13, 12, 14), (12, 14, 12)], &[1, 2], &[0], &[0]);
}

#[test]
fn relin_rank3() {
    sweep(16, &[(12, 12, 12), (11, 12, 10)], &[3], &[0], &[0]);
}

#[test]
fn relin_unusual_tsk_size() {
    // tsk_size smaller / larger than the key, fewer / more digits than the tensor needs
    sweep(16, &[(12, 12, 12), (11, 12, 12)], &[1, 2], &[-1, 0, 1], &[-100, -2, -1, 1, 2]);
}

#[test]
fn dbg_ntt_tsk_size() {
    for delta in [0i64, -1, -2] {
        let c = Cfg { n: 16, rank: 2, k_t: 12, k_key: 12, k_res: 12, size_t: 2, size_res: 3, dsize: 1, dnum_delta: 1, tsk_size_delta: delta, seed: 7086218567491464786 };
        let m_fft: Module<FFT64Ref> = Module::<FFT64Ref>::new(16);
        let m_ntt: Module<NTT120Ref> = Module::<NTT120Ref>::new(16);
        let f = run(&m_fft, &c, 1 << 16);
        let t = run(&m_ntt, &c, 1 << 16);
        println!("delta={delta} fft err 2^{:.1} ntt err 2^{:.1} bound 2^{:.1}", f.log2_err, t.log2_err, f.log2_bound);
        let n = 16;
        for limb in 0..3 {
            for col in 0..3 {
                let o = (limb * 3 + col) * n;
                println!(" limb {limb} col {col} fft {:?}", &f.raw[o..o + 6]);
                println!(" limb {limb} col {col} ntt {:?}", &t.raw[o..o + 6]);
            }
        }
    }
}
