#![cfg(all(feature = "enable-avx", target_feature = "avx2", target_feature = "fma"))]
use poulpy_cpu_avx::FFT64Avx;
use poulpy_cpu_ref::FFT64Ref;
use poulpy_hal::{
    api::{ModuleNew, VecZnxDftAddInto, VecZnxDftAlloc, VecZnxDftApply},
    layouts::{Module, VecZnx, VecZnxDftOwned, ZnxViewMut},
};

fn run<B: poulpy_hal::layouts::Backend>(n: usize) -> Vec<u8>
where
    Module<B>: ModuleNew<B> + VecZnxDftAlloc<B> + VecZnxDftApply<B> + VecZnxDftAddInto<B>,
{
    let module: Module<B> = Module::<B>::new(n as u64);
    let mut a: VecZnx<Vec<u8>> = VecZnx::alloc(n, 1, 1);
    let mut b: VecZnx<Vec<u8>> = VecZnx::alloc(n, 1, 1);
    for i in 0..n {
        a.at_mut(0, 0)[i] = (i as i64) + 1;
        b.at_mut(0, 0)[i] = 10 * (i as i64) + 3;
    }
    let mut a_dft: VecZnxDftOwned<B> = module.vec_znx_dft_alloc(1, 1);
    let mut b_dft: VecZnxDftOwned<B> = module.vec_znx_dft_alloc(1, 1);
    let mut r_dft: VecZnxDftOwned<B> = module.vec_znx_dft_alloc(1, 1);
    module.vec_znx_dft_apply(1, 0, &mut a_dft, 0, &a, 0);
    module.vec_znx_dft_apply(1, 0, &mut b_dft, 0, &b, 0);
    // dirty output
    r_dft.data.as_mut().iter_mut().for_each(|x| *x = 0x5A);
    module.vec_znx_dft_add_into(&mut r_dft, 0, &a_dft, 0, &b_dft, 0);
    r_dft.data.as_ref().to_vec()
}

#[test]
fn dft_add_small_degrees_match_reference() {
    for n in [2usize, 4, 8] {
        let r = std::panic::catch_unwind(|| (run::<FFT64Ref>(n), run::<FFT64Avx>(n)));
        match r {
            Ok((x, y)) => assert_eq!(x, y, "n={n}: FFT64Avx differs from FFT64Ref"),
            Err(_) => println!("n={n}: module construction / operation panicked (degree not admissible)"),
        }
    }
}
