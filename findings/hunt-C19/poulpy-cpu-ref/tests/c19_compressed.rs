//! C19: seed-compressed objects expand to exactly what full encryption would produce.
#![allow(clippy::needless_range_loop)]

#[path = "c19/model.rs"]
mod model;

mod fft64 {
    type BE = poulpy_cpu_ref::FFT64Ref;
    const BASE2KS: &[usize] = &[8, 12, 17];
    include!("c19/body.rs");
}

mod ntt120 {
    type BE = poulpy_cpu_ref::NTT120Ref;
    const BASE2KS: &[usize] = &[12, 17, 40, 52];
    include!("c19/body.rs");
}

/// Cross-backend agreement: the same inputs give byte-identical compressed objects and byte-identical expansions on
/// FFT64Ref and NTT120Ref (same base2k, parameters small enough for the f64 FFT to be exact).
mod cross {
    use poulpy_core::{
        GGLWECompressedEncryptSk, GGSWCompressedEncryptSk, GLWEAutomorphismKeyCompressedEncryptSk, GLWECompressedEncryptSk,
        GLWETensorKeyCompressedEncryptSk,
        layouts::{
            Base2K, Degree, Dnum, Dsize, GGLWE, GGLWECompressed, GGLWEDecompress, GGSW, GGSWCompressed, GGSWDecompress, GLWE,
            GLWEAutomorphismKey, GLWEAutomorphismKeyCompressed, GLWEAutomorphismKeyDecompress, GLWECompressed, GLWEDecompress,
            GLWEPlaintext, GLWESecret, GLWESecretPrepared, GLWESecretPreparedFactory, GLWETensorKey, GLWETensorKeyCompressed,
            GLWETensorKeyDecompress, Rank, TorusPrecision,
        },
    };
    use poulpy_hal::{
        api::{ModuleNew, ScratchOwnedAlloc, ScratchOwnedBorrow},
        layouts::{DeviceBuf, FillUniform, Module, NoiseInfos, ScalarZnx, ScratchOwned, WriterTo, ZnxViewMut},
        source::Source,
    };

    fn ser<T: WriterTo>(t: &T) -> Vec<u8> {
        let mut v = Vec::new();
        t.write_to(&mut v).unwrap();
        v
    }

    macro_rules! produce {
        ($be:ty, $n:expr, $base2k:expr, $size:expr, $rank:expr, $dnum:expr, $dsize:expr) => {{
            type BE = $be;
            let (n, base2k, size, rank, dnum, dsize): (usize, usize, usize, usize, usize, usize) = ($n, $base2k, $size, $rank, $dnum, $dsize);
            let module: Module<BE> = Module::<BE>::new(n as u64);
            let k = size * base2k;
            let noise = NoiseInfos::new(k, 3.2, 19.2).unwrap();
            let (nn, b, kk, r, dn, ds) =
                (Degree(n as u32), Base2K(base2k as u32), TorusPrecision(k as u32), Rank(rank as u32), Dnum(dnum as u32), Dsize(dsize as u32));
            let mut sk: GLWESecret<Vec<u8>> = GLWESecret::alloc(nn, r);
            sk.fill_ternary_prob(0.5, &mut Source::new([1u8; 32]));
            let mut skp: GLWESecretPrepared<DeviceBuf<BE>, BE> = module.glwe_secret_prepared_alloc(r);
            module.glwe_secret_prepare(&mut skp, &sk);
            let mut out: Vec<Vec<u8>> = Vec::new();

            let mut pt: GLWEPlaintext<Vec<u8>> = GLWEPlaintext::alloc(nn, b, kk);
            pt.data_mut().fill_uniform(base2k, &mut Source::new([2u8; 32]));
            let mut c: GLWECompressed<Vec<u8>> = GLWECompressed::alloc(nn, b, kk, r);
            let mut scratch: ScratchOwned<BE> = ScratchOwned::alloc(module.glwe_compressed_encrypt_sk_tmp_bytes(&c));
            module.glwe_compressed_encrypt_sk(&mut c, &pt, &skp, [3u8; 32], &noise, &mut Source::new([4u8; 32]), scratch.borrow());
            let mut d: GLWE<Vec<u8>> = GLWE::alloc(nn, b, kk, r);
            module.decompress_glwe(&mut d, &c);
            out.push(ser(&c));
            out.push(ser(&d));

            let mut spt: ScalarZnx<Vec<u8>> = ScalarZnx::alloc(n, rank);
            for i in 0..rank {
                spt.fill_ternary_prob(i, 0.5, &mut Source::new([5u8 + i as u8; 32]));
            }
            let mut c: GGLWECompressed<Vec<u8>> = GGLWECompressed::alloc(nn, b, kk, r, r, dn, ds);
            let mut scratch: ScratchOwned<BE> = ScratchOwned::alloc(module.gglwe_compressed_encrypt_sk_tmp_bytes(&c));
            module.gglwe_compressed_encrypt_sk(&mut c, &spt, &skp, [3u8; 32], &noise, &mut Source::new([4u8; 32]), scratch.borrow());
            let mut d: GGLWE<Vec<u8>> = GGLWE::alloc(nn, b, kk, r, r, dn, ds);
            module.decompress_gglwe(&mut d, &c);
            out.push(ser(&c));
            out.push(ser(&d));

            let mut spt1: ScalarZnx<Vec<u8>> = ScalarZnx::alloc(n, 1);
            spt1.at_mut(0, 0)[1] = 1;
            let mut c: GGSWCompressed<Vec<u8>> = GGSWCompressed::alloc(nn, b, kk, r, dn, ds);
            let mut scratch: ScratchOwned<BE> = ScratchOwned::alloc(module.ggsw_compressed_encrypt_sk_tmp_bytes(&c));
            module.ggsw_compressed_encrypt_sk(&mut c, &spt1, &skp, [3u8; 32], &noise, &mut Source::new([4u8; 32]), scratch.borrow());
            let mut d: GGSW<Vec<u8>> = GGSW::alloc(nn, b, kk, r, dn, ds);
            module.decompress_ggsw(&mut d, &c);
            out.push(ser(&c));
            out.push(ser(&d));

            let mut c: GLWEAutomorphismKeyCompressed<Vec<u8>> = GLWEAutomorphismKeyCompressed::alloc(nn, b, kk, r, dn, ds);
            let mut scratch: ScratchOwned<BE> = ScratchOwned::alloc(module.glwe_automorphism_key_compressed_encrypt_sk_tmp_bytes(&c));
            module.glwe_automorphism_key_compressed_encrypt_sk(&mut c, 5, &sk, [3u8; 32], &noise, &mut Source::new([4u8; 32]), scratch.borrow());
            let mut d: GLWEAutomorphismKey<Vec<u8>> = GLWEAutomorphismKey::alloc(nn, b, kk, r, dn, ds);
            module.decompress_automorphism_key(&mut d, &c);
            out.push(ser(&c));
            out.push(ser(&d));

            let mut c: GLWETensorKeyCompressed<Vec<u8>> = GLWETensorKeyCompressed::alloc(nn, b, kk, r, dn, ds);
            let mut scratch: ScratchOwned<BE> = ScratchOwned::alloc(module.glwe_tensor_key_compressed_encrypt_sk_tmp_bytes(&c));
            module.glwe_tensor_key_compressed_encrypt_sk(&mut c, &sk, [3u8; 32], &noise, &mut Source::new([4u8; 32]), scratch.borrow());
            let mut d: GLWETensorKey<Vec<u8>> = GLWETensorKey::alloc(nn, b, kk, r, dn, ds);
            module.decompress_tensor_key(&mut d, &c);
            out.push(ser(&c));
            out.push(ser(&d));
            out
        }};
    }

    #[test]
    fn fft64_and_ntt120_agree_bitwise() {
        for &n in &[8usize, 64, 256] {
            for &base2k in &[12usize, 17] {
                for rank in 1..=3usize {
                    for &(size, dnum, dsize) in &[(2usize, 2usize, 1usize), (4, 2, 2), (5, 1, 3)] {
                        let a = produce!(poulpy_cpu_ref::FFT64Ref, n, base2k, size, rank, dnum, dsize);
                        let b = produce!(poulpy_cpu_ref::NTT120Ref, n, base2k, size, rank, dnum, dsize);
                        assert_eq!(a.len(), b.len());
                        for (i, (x, y)) in a.iter().zip(b.iter()).enumerate() {
                            assert!(x == y, "object #{i} differs between backends: n={n} base2k={base2k} rank={rank} size={size} dnum={dnum} dsize={dsize}");
                        }
                    }
                }
            }
        }
    }
}
