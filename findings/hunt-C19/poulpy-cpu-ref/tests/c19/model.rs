//! Backend independent exact-integer model of GLWE secret-key encryption.
//!
//! A GLWE cell over `size` limbs of `base2k` bits is
//!   body = normalize( e + [col==0] m  -  sum_i (a_i - [col==i] m) (*) s_i )      (negacyclic product, mod 2^(size*base2k))
//! where a_i are the mask columns, s_i the secret polynomials, e the error and m the plaintext.
//! All intermediate normalisations of the library are exact (no limb is dropped), hence the canonical balanced
//! digit representation of the integer above is the only possible bit pattern of the body.
#![allow(dead_code)]

use poulpy_hal::{
    layouts::{DataRef, VecZnx, ZnxInfos, ZnxView},
    source::Source,
};

pub type Poly = Vec<i64>;
pub type Limbs = Vec<Poly>;

pub fn col_limbs<D: DataRef>(v: &VecZnx<D>, col: usize) -> Limbs {
    (0..v.size()).map(|j| v.at(col, j).to_vec()).collect()
}

/// Mask column exactly as `vec_znx_fill_uniform(base2k, .., col, source)` is specified: limb major, coefficient minor,
/// each coefficient uniform in [-2^(base2k-1), 2^(base2k-1)).
pub fn uniform_mask(base2k: usize, n: usize, size: usize, source: &mut Source) -> Limbs {
    let pow2k: u64 = 1u64 << base2k;
    let mask: u64 = pow2k - 1;
    let half: i64 = (pow2k >> 1) as i64;
    (0..size)
        .map(|_| (0..n).map(|_| source.next_u64n(pow2k, mask) as i64 - half).collect())
        .collect()
}

pub fn negacyclic(a: &[i64], s: &[i64]) -> Vec<i128> {
    let n = a.len();
    assert_eq!(s.len(), n);
    let mut out = vec![0i128; n];
    for i in 0..n {
        if a[i] == 0 {
            continue;
        }
        for j in 0..n {
            let p = a[i] as i128 * s[j] as i128;
            let k = i + j;
            if k < n {
                out[k] += p;
            } else {
                out[k - n] -= p;
            }
        }
    }
    out
}

pub fn negacyclic_i64(a: &[i64], s: &[i64]) -> Poly {
    negacyclic(a, s).into_iter().map(|x| x as i64).collect()
}

pub fn normalize(base2k: usize, acc: &[Vec<i128>]) -> Limbs {
    let size = acc.len();
    let n = acc[0].len();
    let sh = 128 - base2k as u32;
    let mut out: Limbs = vec![vec![0i64; n]; size];
    let mut carry = vec![0i128; n];
    for j in (0..size).rev() {
        for x in 0..n {
            let v = acc[j][x] + carry[x];
            let d = (v << sh) >> sh;
            carry[x] = (v - d) >> base2k;
            out[j][x] = d as i64;
        }
    }
    out
}

/// Expected body of a GLWE cell. `pt = Some((m, col))`: plaintext `m` (limbs, may have fewer limbs than `size`) attached to column `col`.
pub fn model_body(base2k: usize, size: usize, masks: &[Limbs], sk: &[Poly], e: &Limbs, pt: Option<(&Limbs, usize)>) -> Limbs {
    let n = sk[0].len();
    assert_eq!(masks.len(), sk.len());
    let mut acc: Vec<Vec<i128>> = vec![vec![0i128; n]; size];
    for j in 0..size {
        for x in 0..n {
            acc[j][x] = e[j][x] as i128;
        }
        if let Some((m, 0)) = pt
            && j < m.len()
        {
            for x in 0..n {
                acc[j][x] += m[j][x] as i128;
            }
        }
        for (i, (a, s)) in masks.iter().zip(sk.iter()).enumerate() {
            let mut aj: Poly = a[j].clone();
            if let Some((m, col)) = pt
                && col == i + 1
                && j < m.len()
            {
                for x in 0..n {
                    aj[x] -= m[j][x];
                }
            }
            let p = negacyclic(&aj, s);
            for x in 0..n {
                acc[j][x] -= p[x];
            }
        }
    }
    normalize(base2k, &acc)
}

/// a(X) -> a(X^g) in Z[X]/(X^n+1)
pub fn automorphism(g: i64, a: &[i64]) -> Poly {
    let n = a.len() as i64;
    let two_n = 2 * n;
    let g = g.rem_euclid(two_n);
    let mut out = vec![0i64; n as usize];
    for i in 0..n {
        let k = (i * g).rem_euclid(two_n);
        if k < n {
            out[k as usize] += a[i as usize];
        } else {
            out[(k - n) as usize] -= a[i as usize];
        }
    }
    out
}

pub fn mod_inv_2n(p: i64, n: usize) -> i64 {
    let m = 2 * n as i64;
    let p = p.rem_euclid(m);
    for x in (1..m).step_by(2) {
        if (p * x).rem_euclid(m) == 1 {
            return x;
        }
    }
    panic!("no inverse")
}

/// X -> X^(n_out/n_in) embedding
pub fn switch_ring_up(a: &[i64], n_out: usize) -> Poly {
    let gap = n_out / a.len();
    let mut out = vec![0i64; n_out];
    for (i, v) in a.iter().enumerate() {
        out[i * gap] = *v;
    }
    out
}

pub fn seeds() -> Vec<[u8; 32]> {
    let mut s = vec![[0u8; 32], [0xffu8; 32]];
    let mut src = Source::new([7u8; 32]);
    s.push(src.new_seed());
    s
}
