// Included into a module that defines `type BE` (backend) and `const BASE2KS: &[usize]`.

use poulpy_core::{
    GGLWECompressedEncryptSk, GGSWCompressedEncryptSk, GGSWEncryptSk, GLWEAutomorphismKeyCompressedEncryptSk,
    GLWECompressedEncryptSk, GLWEEncryptSk, GLWESwitchingKeyCompressedEncryptSk, GLWETensorKeyCompressedEncryptSk,
    layouts::{
        Base2K, Degree, Dnum, Dsize, GGLWE, GGLWECompressed, GGLWECompressedSeed, GGLWEDecompress, GGLWEInfos, GGSW,
        GGSWCompressed, GGSWCompressedSeed, GGSWDecompress, GLWE, GLWEAutomorphismKey, GLWEAutomorphismKeyCompressed,
        GLWEAutomorphismKeyDecompress, GLWECompressed, GLWECompressedSeed, GLWECompressedSeedMut, GLWEDecompress, GLWEInfos,
        GLWEPlaintext, GLWESecret, GLWESecretPrepared, GLWESecretPreparedFactory, GLWESwitchingKey,
        GLWESwitchingKeyCompressed, GLWESwitchingKeyDecompress, GLWETensorKey, GLWETensorKeyCompressed,
        GLWETensorKeyDecompress, GGLWECompressedSeedMut, GGSWCompressedSeedMut, GetGaloisElement, GLWESwitchingKeyDegrees,
        LWEInfos, Rank, TorusPrecision,
    },
};
use poulpy_hal::{
    api::{ModuleNew, ScratchOwnedAlloc, ScratchOwnedBorrow, VecZnxAddNormal},
    layouts::{
        DataRef, DeviceBuf, FillUniform, Module, NoiseInfos, ReaderFrom, ScalarZnx, ScratchOwned, VecZnx, WriterTo, ZnxInfos,
        ZnxView, ZnxViewMut,
    },
    source::Source,
};

use crate::model::*;

const SIGMA: f64 = 3.2;
const BOUND: f64 = 19.2;

fn new_module(n: usize) -> Module<BE> {
    Module::<BE>::new(n as u64)
}

struct Sk {
    sk: GLWESecret<Vec<u8>>,
    polys: Vec<Poly>,
    prepared: GLWESecretPrepared<DeviceBuf<BE>, BE>,
}

/// Secret + an independent replica of its coefficients (GLWESecret.data is not public; the replica replays the documented
/// sampling `ScalarZnx::fill_ternary_prob(col, ..)` column by column. A wrong replica would make every model check fail.)
fn make_sk(module: &Module<BE>, n: usize, rank: usize, seed: [u8; 32]) -> Sk {
    let mut sk: GLWESecret<Vec<u8>> = GLWESecret::alloc(Degree(n as u32), Rank(rank as u32));
    sk.fill_ternary_prob(0.5, &mut Source::new(seed));
    let mut replica: ScalarZnx<Vec<u8>> = ScalarZnx::alloc(n, rank);
    let mut src = Source::new(seed);
    for i in 0..rank {
        replica.fill_ternary_prob(i, 0.5, &mut src);
    }
    let polys: Vec<Poly> = (0..rank).map(|i| replica.at(i, 0).to_vec()).collect();
    let mut prepared: GLWESecretPrepared<DeviceBuf<BE>, BE> = module.glwe_secret_prepared_alloc(Rank(rank as u32));
    module.glwe_secret_prepare(&mut prepared, &sk);
    Sk { sk, polys, prepared }
}

/// Next error polynomial of the error stream, exactly as the encryption routine draws it.
fn next_error(module: &Module<BE>, base2k: usize, n: usize, size: usize, noise: NoiseInfos, source_xe: &mut Source) -> Limbs {
    let mut e: VecZnx<Vec<u8>> = VecZnx::alloc(n, 1, size);
    module.vec_znx_add_normal(base2k, &mut e, 0, noise, source_xe);
    col_limbs(&e, 0)
}

/// Checks one GLWE cell (rank+1 columns) against: masks = uniform stream of `source_xa` in column order, body = exact model.
#[allow(clippy::too_many_arguments)]
fn check_cell<D: DataRef>(
    what: &str,
    module: &Module<BE>,
    cell: &VecZnx<D>,
    base2k: usize,
    rank: usize,
    source_xa: &mut Source,
    sk: &[Poly],
    pt: Option<(&Limbs, usize)>,
    noise: NoiseInfos,
    source_xe: &mut Source,
) {
    let n = cell.n();
    let size = cell.size();
    assert_eq!(cell.cols(), rank + 1, "{what}: cols");
    let masks: Vec<Limbs> = (0..rank).map(|_| uniform_mask(base2k, n, size, source_xa)).collect();
    for i in 0..rank {
        assert_eq!(col_limbs(cell, i + 1), masks[i], "{what}: mask column {} differs from seeded uniform stream", i + 1);
    }
    let e = next_error(module, base2k, n, size, noise, source_xe);
    let body = model_body(base2k, size, &masks, sk, &e, pt);
    assert_eq!(col_limbs(cell, 0), body, "{what}: body differs from exact model");
}

fn vec_znx_eq<A: DataRef, B: DataRef>(a: &VecZnx<A>, b: &VecZnx<B>) -> bool {
    a.n() == b.n() && a.cols() == b.cols() && a.size() == b.size() && (0..a.cols()).all(|c| col_limbs(a, c) == col_limbs(b, c))
}

fn ser<T: WriterTo>(t: &T) -> Vec<u8> {
    let mut v = Vec::new();
    t.write_to(&mut v).unwrap();
    v
}

fn de<T: ReaderFrom>(t: &mut T, bytes: &[u8]) {
    let mut r: &[u8] = bytes;
    t.read_from(&mut r).unwrap();
    assert!(r.is_empty(), "trailing bytes after read_from");
}

fn small_pt(n: usize, cols: usize, seed: [u8; 32]) -> (ScalarZnx<Vec<u8>>, Vec<Poly>) {
    let mut pt: ScalarZnx<Vec<u8>> = ScalarZnx::alloc(n, cols);
    let mut src = Source::new(seed);
    for c in 0..cols {
        for x in pt.at_mut(c, 0).iter_mut() {
            *x = (src.next_u64n(7, 7) as i64) - 3;
        }
    }
    let polys = (0..cols).map(|c| pt.at(c, 0).to_vec()).collect();
    (pt, polys)
}

/// plaintext limbs of gadget row `row`: scalar at limb (dsize-1)+row*dsize
fn gadget_pt(n: usize, size: usize, dsize: usize, row: usize, scalar: &[i64]) -> Limbs {
    let mut m: Limbs = vec![vec![0i64; n]; size];
    m[(dsize - 1) + row * dsize] = scalar.to_vec();
    m
}

// ------------------------------------------------------------------------------------------------------------------
// GLWE
// ------------------------------------------------------------------------------------------------------------------

#[test]
fn glwe_compressed_bit_identical() {
    for &n in &[8usize, 32] {
        let module = new_module(n);
        for &base2k in BASE2KS {
            for size in 1..=4usize {
                for &kdelta in &[0usize, 3] {
                    let k = size * base2k - kdelta;
                    for rank in 1..=3usize {
                        for (si, seed) in seeds().into_iter().enumerate() {
                            for pt_size in [1usize, size, size + 1] {
                                let what = format!("glwe n={n} base2k={base2k} k={k} rank={rank} seed#{si} pt_size={pt_size}");
                                let noise = NoiseInfos::new(k, SIGMA, BOUND).unwrap();
                                let sk = make_sk(&module, n, rank, [si as u8 + 1; 32]);

                                let mut pt: GLWEPlaintext<Vec<u8>> =
                                    GLWEPlaintext::alloc(Degree(n as u32), Base2K(base2k as u32), TorusPrecision((pt_size * base2k) as u32));
                                pt.data_mut().fill_uniform(base2k, &mut Source::new([9u8; 32]));
                                let pt_limbs = col_limbs(pt.data(), 0);

                                let mut ct_c: GLWECompressed<Vec<u8>> = GLWECompressed::alloc(
                                    Degree(n as u32),
                                    Base2K(base2k as u32),
                                    TorusPrecision(k as u32),
                                    Rank(rank as u32),
                                );
                                // dirty receiver
                                ct_c.fill_uniform(base2k, &mut Source::new([3u8; 32]));
                                *ct_c.seed_mut() = [0xabu8; 32];

                                let mut scratch: ScratchOwned<BE> = ScratchOwned::alloc(module.glwe_compressed_encrypt_sk_tmp_bytes(&ct_c));
                                // dirty scratch: throw-away encryption first
                                {
                                    let mut tmp = ct_c.clone();
                                    module.glwe_compressed_encrypt_sk(
                                        &mut tmp,
                                        &pt,
                                        &sk.prepared,
                                        [0x55u8; 32],
                                        &noise,
                                        &mut Source::new([0x66u8; 32]),
                                        scratch.borrow(),
                                    );
                                }
                                let seed_e = [0x11u8; 32];
                                module.glwe_compressed_encrypt_sk(
                                    &mut ct_c,
                                    &pt,
                                    &sk.prepared,
                                    seed,
                                    &noise,
                                    &mut Source::new(seed_e),
                                    scratch.borrow(),
                                );
                                assert_eq!(ct_c.seed(), &seed, "{what}: stored seed");

                                // serialisation round trip into a dirty receiver
                                let bytes = ser(&ct_c);
                                let mut ct_c2: GLWECompressed<Vec<u8>> = GLWECompressed::alloc(
                                    Degree(n as u32),
                                    Base2K(base2k as u32),
                                    TorusPrecision(k as u32),
                                    Rank(rank as u32),
                                );
                                ct_c2.fill_uniform(base2k, &mut Source::new([4u8; 32]));
                                de(&mut ct_c2, &bytes);
                                assert!(ct_c == ct_c2, "{what}: serialisation round trip");

                                // decompress into a dirty receiver
                                let mut ct: GLWE<Vec<u8>> =
                                    GLWE::alloc(Degree(n as u32), Base2K(base2k as u32), TorusPrecision(k as u32), Rank(rank as u32));
                                ct.data_mut().fill_uniform(base2k, &mut Source::new([5u8; 32]));
                                module.decompress_glwe(&mut ct, &ct_c2);

                                // oracle 1: the library's standard encryption with mask stream seeded by the stored seed
                                let mut ct_std: GLWE<Vec<u8>> =
                                    GLWE::alloc(Degree(n as u32), Base2K(base2k as u32), TorusPrecision(k as u32), Rank(rank as u32));
                                let mut scratch_std: ScratchOwned<BE> = ScratchOwned::alloc(module.glwe_encrypt_sk_tmp_bytes(&ct_std));
                                module.glwe_encrypt_sk(
                                    &mut ct_std,
                                    &pt,
                                    &sk.prepared,
                                    &noise,
                                    &mut Source::new(seed_e),
                                    &mut Source::new(*ct_c2.seed()),
                                    scratch_std.borrow(),
                                );
                                assert!(ct == ct_std, "{what}: decompressed != standard encryption");

                                // oracle 2: exact model (a plaintext longer than the ciphertext is only compared with oracle 1)
                                if pt_size > size {
                                    continue;
                                }
                                check_cell(
                                    &what,
                                    &module,
                                    ct.data(),
                                    base2k,
                                    rank,
                                    &mut Source::new(seed),
                                    &sk.polys,
                                    Some((&pt_limbs, 0)),
                                    noise,
                                    &mut Source::new(seed_e),
                                );
                            }
                        }
                    }
                }
            }
        }
    }
}

// ------------------------------------------------------------------------------------------------------------------
// GGLWE
// ------------------------------------------------------------------------------------------------------------------

fn gglwe_grid() -> Vec<(usize, usize, usize)> {
    // (size, dnum, dsize) with dnum*dsize <= size and dsize < size
    let mut v = Vec::new();
    for size in 2..=5usize {
        for dsize in 1..size.min(4) {
            for dnum in 1..=(size / dsize) {
                v.push((size, dnum, dsize));
            }
        }
    }
    v
}

/// Checks every cell of a decompressed GGLWE against the per-cell seeds of the compressed object.
/// Error stream order: column (rank_in) outer, row inner, exactly as the standard `gglwe_encrypt_sk`.
#[allow(clippy::too_many_arguments)]
fn check_gglwe<D: DataRef>(
    what: &str,
    module: &Module<BE>,
    res: &GGLWE<D>,
    seeds: &[[u8; 32]],
    seeds_rank_in: usize,
    pt_cols: &[Poly],
    sk_out: &Sk,
    noise: NoiseInfos,
    seed_e: [u8; 32],
    err_rows: usize,
) {
    let n: usize = res.n().into();
    let base2k: usize = res.base2k().into();
    let size = res.size();
    let dnum: usize = res.dnum().into();
    let dsize: usize = res.dsize().into();
    let rank_in: usize = res.rank_in().into();
    let rank_out: usize = res.rank_out().into();
    let mut source_xe = Source::new(seed_e);
    let mut source_xe_std = Source::new(seed_e);
    let mut scratch_std: ScratchOwned<BE> = ScratchOwned::alloc(module.glwe_encrypt_sk_tmp_bytes(&res.at(0, 0)));
    for col in 0..rank_in {
        for row in 0..err_rows {
            if row >= dnum {
                // rows of the compressed object that are not decompressed still consumed one error polynomial each
                let _ = next_error(module, base2k, n, size, noise, &mut source_xe);
                let _ = next_error(module, base2k, n, size, noise, &mut source_xe_std);
                continue;
            }
            let seed = seeds[row * seeds_rank_in + col];
            let m = gadget_pt(n, size, dsize, row, &pt_cols[col]);
            let cell = res.at(row, col);
            check_cell(
                &format!("{what} cell(row={row},col={col})"),
                module,
                cell.data(),
                base2k,
                rank_out,
                &mut Source::new(seed),
                &sk_out.polys,
                Some((&m, 0)),
                noise,
                &mut source_xe,
            );
            // standard library encryption of that cell
            let mut pt: GLWEPlaintext<Vec<u8>> =
                GLWEPlaintext::alloc(Degree(n as u32), Base2K(base2k as u32), TorusPrecision((size * base2k) as u32));
            for (j, l) in m.iter().enumerate() {
                pt.data_mut().at_mut(0, j).copy_from_slice(l);
            }
            let mut ct_std: GLWE<Vec<u8>> = GLWE::alloc(
                Degree(n as u32),
                Base2K(base2k as u32),
                TorusPrecision((size * base2k) as u32),
                Rank(rank_out as u32),
            );
            module.glwe_encrypt_sk(
                &mut ct_std,
                &pt,
                &sk_out.prepared,
                &noise,
                &mut source_xe_std,
                &mut Source::new(seed),
                scratch_std.borrow(),
            );
            assert!(
                vec_znx_eq(ct_std.data(), cell.data()),
                "{what} cell(row={row},col={col}): decompressed != standard encryption"
            );
        }
    }
}

#[test]
fn gglwe_compressed_bit_identical() {
    let n = 8usize;
    let module = new_module(n);
    for &base2k in BASE2KS {
        for (size, dnum, dsize) in gglwe_grid() {
            for rank_in in 1..=3usize {
                for rank_out in 1..=3usize {
                    for (si, seed) in seeds().into_iter().enumerate() {
                        if si > 0 && (rank_in + rank_out + size) % 3 != si {
                            continue; // thin the grid
                        }
                        let k = size * base2k - if (size + dnum) % 2 == 0 { 0 } else { 5 }; // k not always a multiple of base2k
                        let what = format!("gglwe base2k={base2k} size={size} dnum={dnum} dsize={dsize} rank_in={rank_in} rank_out={rank_out} seed#{si}");
                        let noise = NoiseInfos::new(k, SIGMA, BOUND).unwrap();
                        let sk = make_sk(&module, n, rank_out, [21u8; 32]);
                        let (pt, pt_polys) = small_pt(n, rank_in, [22u8; 32]);
                        let alloc_c = || {
                            GGLWECompressed::alloc(
                                Degree(n as u32),
                                Base2K(base2k as u32),
                                TorusPrecision(k as u32),
                                Rank(rank_in as u32),
                                Rank(rank_out as u32),
                                Dnum(dnum as u32),
                                Dsize(dsize as u32),
                            )
                        };
                        let mut ct_c: GGLWECompressed<Vec<u8>> = alloc_c();
                        ct_c.fill_uniform(base2k, &mut Source::new([3u8; 32]));
                        ct_c.seed_mut().iter_mut().for_each(|s| *s = [0xabu8; 32]);
                        let mut scratch: ScratchOwned<BE> = ScratchOwned::alloc(module.gglwe_compressed_encrypt_sk_tmp_bytes(&ct_c));
                        {
                            let mut tmp = ct_c.clone();
                            module.gglwe_compressed_encrypt_sk(
                                &mut tmp,
                                &pt,
                                &sk.prepared,
                                [0x55u8; 32],
                                &noise,
                                &mut Source::new([0x66u8; 32]),
                                scratch.borrow(),
                            );
                        }
                        let seed_e = [0x12u8; 32];
                        module.gglwe_compressed_encrypt_sk(&mut ct_c, &pt, &sk.prepared, seed, &noise, &mut Source::new(seed_e), scratch.borrow());

                        // seeds: all distinct, none left at the dirty value
                        let seeds_c = ct_c.seed().clone();
                        assert_eq!(seeds_c.len(), dnum * rank_in);
                        for (i, s) in seeds_c.iter().enumerate() {
                            assert_ne!(s, &[0xabu8; 32], "{what}: seed {i} not written");
                            assert!(seeds_c.iter().skip(i + 1).all(|t| t != s), "{what}: duplicated seed");
                        }

                        let bytes = ser(&ct_c);
                        let mut ct_c2: GGLWECompressed<Vec<u8>> = alloc_c();
                        ct_c2.fill_uniform(base2k, &mut Source::new([4u8; 32]));
                        ct_c2.seed_mut().iter_mut().for_each(|s| *s = [0xcdu8; 32]);
                        de(&mut ct_c2, &bytes);
                        assert!(ct_c == ct_c2, "{what}: serialisation round trip");

                        let mut ct: GGLWE<Vec<u8>> = GGLWE::alloc(
                            Degree(n as u32),
                            Base2K(base2k as u32),
                            TorusPrecision(k as u32),
                            Rank(rank_in as u32),
                            Rank(rank_out as u32),
                            Dnum(dnum as u32),
                            Dsize(dsize as u32),
                        );
                        ct.data_mut().fill_uniform(base2k, &mut Source::new([5u8; 32]));
                        module.decompress_gglwe(&mut ct, &ct_c2);
                        check_gglwe(&what, &module, &ct, &seeds_c, rank_in, &pt_polys, &sk, noise, seed_e, dnum);

                        // receiver with fewer rows (allowed by `res.dnum() <= other.dnum()`), only when the gadget stays valid
                        if dnum > 1 {
                            let mut ct_small: GGLWE<Vec<u8>> = GGLWE::alloc(
                                Degree(n as u32),
                                Base2K(base2k as u32),
                                TorusPrecision(k as u32),
                                Rank(rank_in as u32),
                                Rank(rank_out as u32),
                                Dnum((dnum - 1) as u32),
                                Dsize(dsize as u32),
                            );
                            ct_small.data_mut().fill_uniform(base2k, &mut Source::new([6u8; 32]));
                            module.decompress_gglwe(&mut ct_small, &ct_c2);
                            check_gglwe(
                                &format!("{what} [partial rows]"),
                                &module,
                                &ct_small,
                                &seeds_c,
                                rank_in,
                                &pt_polys,
                                &sk,
                                noise,
                                seed_e,
                                dnum,
                            );
                        }
                    }
                }
            }
        }
    }
}

// ------------------------------------------------------------------------------------------------------------------
// GGSW
// ------------------------------------------------------------------------------------------------------------------

/// The model itself is validated against the library's *standard* GGSW encryption (sequential mask stream).
#[test]
fn ggsw_standard_matches_model() {
    let n = 8usize;
    let module = new_module(n);
    for &base2k in BASE2KS {
        for (size, dnum, dsize) in gglwe_grid() {
            for rank in 1..=3usize {
                let k = size * base2k;
                let what = format!("ggsw-std base2k={base2k} size={size} dnum={dnum} dsize={dsize} rank={rank}");
                let noise = NoiseInfos::new(k, SIGMA, BOUND).unwrap();
                let sk = make_sk(&module, n, rank, [31u8; 32]);
                let (pt, pt_polys) = small_pt(n, 1, [32u8; 32]);
                let mut ct: GGSW<Vec<u8>> = GGSW::alloc(
                    Degree(n as u32),
                    Base2K(base2k as u32),
                    TorusPrecision(k as u32),
                    Rank(rank as u32),
                    Dnum(dnum as u32),
                    Dsize(dsize as u32),
                );
                let mut scratch: ScratchOwned<BE> = ScratchOwned::alloc(module.ggsw_encrypt_sk_tmp_bytes(&ct));
                let (seed_a, seed_e) = ([0x21u8; 32], [0x22u8; 32]);
                module.ggsw_encrypt_sk(
                    &mut ct,
                    &pt,
                    &sk.prepared,
                    &noise,
                    &mut Source::new(seed_e),
                    &mut Source::new(seed_a),
                    scratch.borrow(),
                );
                let mut source_xa = Source::new(seed_a);
                let mut source_xe = Source::new(seed_e);
                for row in 0..dnum {
                    let m = gadget_pt(n, size, dsize, row, &pt_polys[0]);
                    for col in 0..rank + 1 {
                        check_cell(
                            &format!("{what} cell({row},{col})"),
                            &module,
                            ct.at(row, col).data(),
                            base2k,
                            rank,
                            &mut source_xa,
                            &sk.polys,
                            Some((&m, col)),
                            noise,
                            &mut source_xe,
                        );
                    }
                }
            }
        }
    }
}

#[allow(clippy::too_many_arguments)]
fn check_ggsw<D: DataRef>(
    what: &str,
    module: &Module<BE>,
    ct: &GGSW<D>,
    seeds: &[[u8; 32]],
    pt: &[i64],
    sk: &Sk,
    noise: NoiseInfos,
    source_xe: &mut Source,
) {
    use poulpy_core::layouts::GGSWInfos;
    let n: usize = ct.n().into();
    let base2k: usize = ct.base2k().into();
    let size = ct.size();
    let dnum: usize = ct.dnum().into();
    let dsize: usize = ct.dsize().into();
    let rank: usize = ct.rank().into();
    for row in 0..dnum {
        let m = gadget_pt(n, size, dsize, row, pt);
        for col in 0..rank + 1 {
            check_cell(
                &format!("{what} cell({row},{col})"),
                module,
                ct.at(row, col).data(),
                base2k,
                rank,
                &mut Source::new(seeds[row * (rank + 1) + col]),
                &sk.polys,
                Some((&m, col)),
                noise,
                source_xe,
            );
        }
    }
}

#[test]
fn ggsw_compressed_bit_identical() {
    let n = 8usize;
    let module = new_module(n);
    for &base2k in BASE2KS {
        for (size, dnum, dsize) in gglwe_grid() {
            for rank in 1..=3usize {
                for (si, seed) in seeds().into_iter().enumerate() {
                    if si > 0 && (rank + size) % 3 != si {
                        continue;
                    }
                    let k = size * base2k - if (size + dnum) % 2 == 0 { 0 } else { 5 }; // k not always a multiple of base2k
                    let what = format!("ggsw base2k={base2k} size={size} dnum={dnum} dsize={dsize} rank={rank} seed#{si}");
                    let noise = NoiseInfos::new(k, SIGMA, BOUND).unwrap();
                    let sk = make_sk(&module, n, rank, [31u8; 32]);
                    let (pt, pt_polys) = small_pt(n, 1, [32u8; 32]);
                    let alloc_c = || {
                        GGSWCompressed::alloc(
                            Degree(n as u32),
                            Base2K(base2k as u32),
                            TorusPrecision(k as u32),
                            Rank(rank as u32),
                            Dnum(dnum as u32),
                            Dsize(dsize as u32),
                        )
                    };
                    let mut ct_c: GGSWCompressed<Vec<u8>> = alloc_c();
                    ct_c.fill_uniform(base2k, &mut Source::new([3u8; 32]));
                    ct_c.seed_mut().iter_mut().for_each(|s| *s = [0xabu8; 32]);
                    let mut scratch: ScratchOwned<BE> = ScratchOwned::alloc(module.ggsw_compressed_encrypt_sk_tmp_bytes(&ct_c));
                    {
                        let mut tmp = ct_c.clone();
                        module.ggsw_compressed_encrypt_sk(
                            &mut tmp,
                            &pt,
                            &sk.prepared,
                            [0x55u8; 32],
                            &noise,
                            &mut Source::new([0x66u8; 32]),
                            scratch.borrow(),
                        );
                    }
                    let seed_e = [0x13u8; 32];
                    module.ggsw_compressed_encrypt_sk(&mut ct_c, &pt, &sk.prepared, seed, &noise, &mut Source::new(seed_e), scratch.borrow());
                    let seeds_c = ct_c.seed().clone();
                    assert_eq!(seeds_c.len(), dnum * (rank + 1));
                    for (i, s) in seeds_c.iter().enumerate() {
                        assert_ne!(s, &[0xabu8; 32], "{what}: seed {i} not written");
                        assert!(seeds_c.iter().skip(i + 1).all(|t| t != s), "{what}: duplicated seed");
                    }

                    let bytes = ser(&ct_c);
                    let mut ct_c2: GGSWCompressed<Vec<u8>> = alloc_c();
                    ct_c2.fill_uniform(base2k, &mut Source::new([4u8; 32]));
                    ct_c2.seed_mut().iter_mut().for_each(|s| *s = [0xcdu8; 32]);
                    de(&mut ct_c2, &bytes);
                    assert!(ct_c == ct_c2, "{what}: serialisation round trip");

                    let mut ct: GGSW<Vec<u8>> = GGSW::alloc(
                        Degree(n as u32),
                        Base2K(base2k as u32),
                        TorusPrecision(k as u32),
                        Rank(rank as u32),
                        Dnum(dnum as u32),
                        Dsize(dsize as u32),
                    );
                    ct.fill_uniform(base2k, &mut Source::new([5u8; 32]));
                    module.decompress_ggsw(&mut ct, &ct_c2);
                    check_ggsw(&what, &module, &ct, &seeds_c, &pt_polys[0], &sk, noise, &mut Source::new(seed_e));
                }
            }
        }
    }
}

// ------------------------------------------------------------------------------------------------------------------
// Keys built on GGLWE
// ------------------------------------------------------------------------------------------------------------------

fn key_grid() -> Vec<(usize, usize, usize)> {
    vec![(2, 1, 1), (2, 2, 1), (3, 1, 2), (3, 3, 1), (4, 2, 2), (5, 1, 3), (5, 2, 2), (5, 5, 1)]
}

#[test]
fn switching_key_compressed_bit_identical() {
    let n = 16usize;
    let module = new_module(n);
    for &base2k in BASE2KS {
        for (size, dnum, dsize) in key_grid() {
            for rank_in in 1..=3usize {
                for rank_out in 1..=3usize {
                    for &n_in in &[n, n / 2] {
                        for &n_out in &[n, n / 4] {
                            if (n_in != n || n_out != n) && (rank_in + rank_out + size) % 2 == 0 {
                                continue;
                            }
                            let seed = seeds()[(rank_in + rank_out + size + dnum) % 3];
                            let k = size * base2k;
                            let what = format!(
                                "ksk base2k={base2k} size={size} dnum={dnum} dsize={dsize} rank_in={rank_in} rank_out={rank_out} n_in={n_in} n_out={n_out}"
                            );
                            let noise = NoiseInfos::new(k, SIGMA, BOUND).unwrap();
                            // secrets (possibly of smaller degree): replicas as in make_sk
                            let mk = |nn: usize, rank: usize, s: [u8; 32]| {
                                let mut sk: GLWESecret<Vec<u8>> = GLWESecret::alloc(Degree(nn as u32), Rank(rank as u32));
                                sk.fill_ternary_prob(0.5, &mut Source::new(s));
                                let mut rep: ScalarZnx<Vec<u8>> = ScalarZnx::alloc(nn, rank);
                                let mut src = Source::new(s);
                                for i in 0..rank {
                                    rep.fill_ternary_prob(i, 0.5, &mut src);
                                }
                                let polys: Vec<Poly> = (0..rank).map(|i| switch_ring_up(rep.at(i, 0), n)).collect();
                                (sk, polys)
                            };
                            let (sk_in, sk_in_polys) = mk(n_in, rank_in, [41u8; 32]);
                            let (sk_out, sk_out_polys) = mk(n_out, rank_out, [42u8; 32]);
                            // model only needs the polys of sk_out; build a Sk with a prepared key over the full ring for the std oracle
                            let sk_out_full = {
                                // prepared secret of the embedded sk_out: encrypting with it must be what the key does
                                let mut s = make_sk(&module, n, rank_out, [42u8; 32]);
                                s.polys = sk_out_polys.clone();
                                s
                            };

                            let alloc_c = || {
                                GLWESwitchingKeyCompressed::alloc(
                                    Degree(n as u32),
                                    Base2K(base2k as u32),
                                    TorusPrecision(k as u32),
                                    Rank(rank_in as u32),
                                    Rank(rank_out as u32),
                                    Dnum(dnum as u32),
                                    Dsize(dsize as u32),
                                )
                            };
                            let mut ksk_c: GLWESwitchingKeyCompressed<Vec<u8>> = alloc_c();
                            ksk_c.fill_uniform(base2k, &mut Source::new([3u8; 32]));
                            let mut scratch: ScratchOwned<BE> =
                                ScratchOwned::alloc(module.glwe_switching_key_compressed_encrypt_sk_tmp_bytes(&ksk_c));
                            let seed_e = [0x14u8; 32];
                            module.glwe_switching_key_compressed_encrypt_sk(
                                &mut ksk_c,
                                &sk_in,
                                &sk_out,
                                [0x77u8; 32],
                                &noise,
                                &mut Source::new([0x78u8; 32]),
                                scratch.borrow(),
                            );
                            module.glwe_switching_key_compressed_encrypt_sk(
                                &mut ksk_c,
                                &sk_in,
                                &sk_out,
                                seed,
                                &noise,
                                &mut Source::new(seed_e),
                                scratch.borrow(),
                            );
                            let seeds_c: Vec<[u8; 32]> = {
                                use poulpy_core::layouts::GGLWECompressedToRef;
                                ksk_c.to_ref().seed().clone()
                            };
                            let bytes = ser(&ksk_c);
                            let mut ksk_c2 = alloc_c();
                            ksk_c2.fill_uniform(base2k, &mut Source::new([4u8; 32]));
                            de(&mut ksk_c2, &bytes);
                            assert!(ksk_c == ksk_c2, "{what}: serialisation round trip");

                            let mut ksk: GLWESwitchingKey<Vec<u8>> = GLWESwitchingKey::alloc(
                                Degree(n as u32),
                                Base2K(base2k as u32),
                                TorusPrecision(k as u32),
                                Rank(rank_in as u32),
                                Rank(rank_out as u32),
                                Dnum(dnum as u32),
                                Dsize(dsize as u32),
                            );
                            ksk.fill_uniform(base2k, &mut Source::new([5u8; 32]));
                            module.decompress_glwe_switching_key(&mut ksk, &ksk_c2);
                            assert_eq!(ksk.input_degree().0 as usize, n_in, "{what}: input degree");
                            assert_eq!(ksk.output_degree().0 as usize, n_out, "{what}: output degree");

                            // the std oracle inside check_gglwe needs a prepared secret equal to the embedded sk_out; only valid when n_out == n
                            use poulpy_core::layouts::GGLWEToRef;
                            let g = ksk.to_ref();
                            if n_out == n {
                                check_gglwe(&what, &module, &g, &seeds_c, rank_in, &sk_in_polys, &sk_out_full, noise, seed_e, dnum);
                            } else {
                                check_gglwe_model_only(&what, &module, &g, &seeds_c, rank_in, &sk_in_polys, &sk_out_polys, noise, seed_e);
                            }
                        }
                    }
                }
            }
        }
    }
}

#[allow(clippy::too_many_arguments)]
fn check_gglwe_model_only<D: DataRef>(
    what: &str,
    module: &Module<BE>,
    res: &GGLWE<D>,
    seeds: &[[u8; 32]],
    seeds_rank_in: usize,
    pt_cols: &[Poly],
    sk_out: &[Poly],
    noise: NoiseInfos,
    seed_e: [u8; 32],
) {
    let n: usize = res.n().into();
    let base2k: usize = res.base2k().into();
    let size = res.size();
    let dnum: usize = res.dnum().into();
    let dsize: usize = res.dsize().into();
    let rank_in: usize = res.rank_in().into();
    let rank_out: usize = res.rank_out().into();
    let mut source_xe = Source::new(seed_e);
    for col in 0..rank_in {
        for row in 0..dnum {
            let seed = seeds[row * seeds_rank_in + col];
            let m = gadget_pt(n, size, dsize, row, &pt_cols[col]);
            check_cell(
                &format!("{what} cell(row={row},col={col})"),
                module,
                res.at(row, col).data(),
                base2k,
                rank_out,
                &mut Source::new(seed),
                sk_out,
                Some((&m, 0)),
                noise,
                &mut source_xe,
            );
        }
    }
}

#[test]
fn automorphism_key_compressed_bit_identical() {
    let n = 16usize;
    let module = new_module(n);
    for &base2k in BASE2KS {
        for (size, dnum, dsize) in key_grid() {
            for rank in 1..=3usize {
                for &p in &[-1i64, 5, 25, -5, 3, 1] {
                    let seed = seeds()[(rank + size + dnum) % 3];
                    let k = size * base2k - if (size + dnum) % 2 == 0 { 0 } else { 5 }; // k not always a multiple of base2k
                    let what = format!("atk base2k={base2k} size={size} dnum={dnum} dsize={dsize} rank={rank} p={p}");
                    let noise = NoiseInfos::new(k, SIGMA, BOUND).unwrap();
                    let sk = make_sk(&module, n, rank, [51u8; 32]);
                    let p_inv = mod_inv_2n(p, n);
                    let sk_out_polys: Vec<Poly> = sk.polys.iter().map(|s| automorphism(p_inv, s)).collect();

                    let alloc_c = || {
                        GLWEAutomorphismKeyCompressed::alloc(
                            Degree(n as u32),
                            Base2K(base2k as u32),
                            TorusPrecision(k as u32),
                            Rank(rank as u32),
                            Dnum(dnum as u32),
                            Dsize(dsize as u32),
                        )
                    };
                    let mut atk_c: GLWEAutomorphismKeyCompressed<Vec<u8>> = alloc_c();
                    atk_c.fill_uniform(base2k, &mut Source::new([3u8; 32]));
                    let mut scratch: ScratchOwned<BE> =
                        ScratchOwned::alloc(module.glwe_automorphism_key_compressed_encrypt_sk_tmp_bytes(&atk_c));
                    let seed_e = [0x15u8; 32];
                    module.glwe_automorphism_key_compressed_encrypt_sk(
                        &mut atk_c,
                        7,
                        &sk.sk,
                        [0x77u8; 32],
                        &noise,
                        &mut Source::new([0x78u8; 32]),
                        scratch.borrow(),
                    );
                    module.glwe_automorphism_key_compressed_encrypt_sk(&mut atk_c, p, &sk.sk, seed, &noise, &mut Source::new(seed_e), scratch.borrow());
                    assert_eq!(atk_c.p(), p);
                    let seeds_c: Vec<[u8; 32]> = {
                        use poulpy_core::layouts::GGLWECompressedToRef;
                        atk_c.to_ref().seed().clone()
                    };
                    let bytes = ser(&atk_c);
                    let mut atk_c2 = alloc_c();
                    atk_c2.fill_uniform(base2k, &mut Source::new([4u8; 32]));
                    de(&mut atk_c2, &bytes);
                    assert!(atk_c == atk_c2, "{what}: serialisation round trip");

                    let mut atk: GLWEAutomorphismKey<Vec<u8>> = GLWEAutomorphismKey::alloc(
                        Degree(n as u32),
                        Base2K(base2k as u32),
                        TorusPrecision(k as u32),
                        Rank(rank as u32),
                        Dnum(dnum as u32),
                        Dsize(dsize as u32),
                    );
                    atk.fill_uniform(base2k, &mut Source::new([5u8; 32]));
                    module.decompress_automorphism_key(&mut atk, &atk_c2);
                    assert_eq!(atk.p(), p, "{what}: galois element");
                    use poulpy_core::layouts::GGLWEToRef;
                    check_gglwe_model_only(&what, &module, &atk.to_ref(), &seeds_c, rank, &sk.polys, &sk_out_polys, noise, seed_e);
                }
            }
        }
    }
}

#[test]
fn tensor_key_compressed_bit_identical() {
    let n = 16usize;
    let module = new_module(n);
    for &base2k in BASE2KS {
        for (size, dnum, dsize) in key_grid() {
            for rank in 1..=3usize {
                let seed = seeds()[(rank + size + dnum) % 3];
                let k = size * base2k;
                let what = format!("tsk base2k={base2k} size={size} dnum={dnum} dsize={dsize} rank={rank}");
                let noise = NoiseInfos::new(k, SIGMA, BOUND).unwrap();
                let sk = make_sk(&module, n, rank, [61u8; 32]);
                // plaintext columns: s_i*s_j for i<=j, index i*rank + j - i(i+1)/2
                let mut pt_polys: Vec<Poly> = Vec::new();
                for i in 0..rank {
                    for j in i..rank {
                        pt_polys.push(negacyclic_i64(&sk.polys[i], &sk.polys[j]));
                    }
                }
                let pairs = pt_polys.len();

                let alloc_c = || {
                    GLWETensorKeyCompressed::alloc(
                        Degree(n as u32),
                        Base2K(base2k as u32),
                        TorusPrecision(k as u32),
                        Rank(rank as u32),
                        Dnum(dnum as u32),
                        Dsize(dsize as u32),
                    )
                };
                let mut tsk_c: GLWETensorKeyCompressed<Vec<u8>> = alloc_c();
                tsk_c.fill_uniform(base2k, &mut Source::new([3u8; 32]));
                let mut scratch: ScratchOwned<BE> = ScratchOwned::alloc(module.glwe_tensor_key_compressed_encrypt_sk_tmp_bytes(&tsk_c));
                let seed_e = [0x16u8; 32];
                module.glwe_tensor_key_compressed_encrypt_sk(
                    &mut tsk_c,
                    &sk.sk,
                    [0x77u8; 32],
                    &noise,
                    &mut Source::new([0x78u8; 32]),
                    scratch.borrow(),
                );
                module.glwe_tensor_key_compressed_encrypt_sk(&mut tsk_c, &sk.sk, seed, &noise, &mut Source::new(seed_e), scratch.borrow());
                let seeds_c: Vec<[u8; 32]> = {
                    use poulpy_core::layouts::GGLWECompressedToRef;
                    tsk_c.to_ref().seed().clone()
                };
                assert_eq!(seeds_c.len(), dnum * pairs);
                let bytes = ser(&tsk_c);
                let mut tsk_c2 = alloc_c();
                tsk_c2.fill_uniform(base2k, &mut Source::new([4u8; 32]));
                de(&mut tsk_c2, &bytes);
                assert!(tsk_c == tsk_c2, "{what}: serialisation round trip");

                let mut tsk: GLWETensorKey<Vec<u8>> = GLWETensorKey::alloc(
                    Degree(n as u32),
                    Base2K(base2k as u32),
                    TorusPrecision(k as u32),
                    Rank(rank as u32),
                    Dnum(dnum as u32),
                    Dsize(dsize as u32),
                );
                tsk.fill_uniform(base2k, &mut Source::new([5u8; 32]));
                module.decompress_tensor_key(&mut tsk, &tsk_c2);
                use poulpy_core::layouts::GGLWEToRef;
                check_gglwe(&what, &module, &tsk.to_ref(), &seeds_c, pairs, &pt_polys, &sk, noise, seed_e, dnum);
            }
        }
    }
}

/// The GGLWEInfos reported by a compressed tensor key must agree with the standard tensor key of the same parameters.
#[test]
fn tensor_key_compressed_layout_agrees_with_standard() {
    for rank in 1..=3usize {
        let (n, base2k, k, dnum, dsize) = (16u32, 12u32, 36u32, 2u32, 1u32);
        let c: GLWETensorKeyCompressed<Vec<u8>> =
            GLWETensorKeyCompressed::alloc(Degree(n), Base2K(base2k), TorusPrecision(k), Rank(rank as u32), Dnum(dnum), Dsize(dsize));
        let s: GLWETensorKey<Vec<u8>> =
            GLWETensorKey::alloc(Degree(n), Base2K(base2k), TorusPrecision(k), Rank(rank as u32), Dnum(dnum), Dsize(dsize));
        assert_eq!(c.gglwe_layout(), s.gglwe_layout(), "rank={rank}");
    }
}

// ------------------------------------------------------------------------------------------------------------------
// LWE
// ------------------------------------------------------------------------------------------------------------------

/// There is no compressed LWE encryption routine and no seed setter: the only way to populate an `LWECompressed` is
/// `read_from`. The stream is built from the body of a standard LWE encryption whose mask stream was `Source::new(seed)`;
/// `decompress_lwe` must then give back exactly that standard encryption.
fn lwe_case(n_lwe: usize, base2k: usize, size: usize) {
    use byteorder::{LittleEndian, WriteBytesExt};
    use poulpy_core::{
        LWEEncryptSk,
        layouts::{LWE, LWECompressed, LWEDecompress, LWEPlaintext, LWESecret},
    };
    let module = new_module(8);
    let k = size * base2k;
    let noise = NoiseInfos::new(k, SIGMA, BOUND).unwrap();
    let mut sk: LWESecret<Vec<u8>> = LWESecret::alloc(Degree(n_lwe as u32));
    sk.fill_ternary_prob(0.5, &mut Source::new([71u8; 32]));
    let mut pt: LWEPlaintext<Vec<u8>> = LWEPlaintext::alloc(Base2K(base2k as u32), TorusPrecision(k as u32));
    pt.data_mut().fill_uniform(base2k, &mut Source::new([72u8; 32]));
    let mut lwe: LWE<Vec<u8>> = LWE::alloc(Degree(n_lwe as u32), Base2K(base2k as u32), TorusPrecision(k as u32));
    let mut scratch: ScratchOwned<BE> = ScratchOwned::alloc(module.lwe_encrypt_sk_tmp_bytes(&lwe));
    let seed = [0x42u8; 32];
    module.lwe_encrypt_sk(
        &mut lwe,
        &pt,
        &sk,
        &noise,
        &mut Source::new([0x17u8; 32]),
        &mut Source::new(seed),
        scratch.borrow(),
    );

    let mut body: VecZnx<Vec<u8>> = VecZnx::alloc(1, 1, size);
    for j in 0..size {
        body.at_mut(0, j)[0] = lwe.data().at(0, j)[0];
    }
    let mut bytes: Vec<u8> = Vec::new();
    bytes.write_u32::<LittleEndian>(k as u32).unwrap();
    bytes.write_u32::<LittleEndian>(base2k as u32).unwrap();
    bytes.extend_from_slice(&seed);
    body.write_to(&mut bytes).unwrap();

    let mut c: LWECompressed<Vec<u8>> = LWECompressed::alloc(Base2K(base2k as u32), TorusPrecision(k as u32));
    de(&mut c, &bytes);
    assert_eq!(ser(&c), bytes, "LWECompressed serialisation round trip");

    let mut out: LWE<Vec<u8>> = LWE::alloc(Degree(n_lwe as u32), Base2K(base2k as u32), TorusPrecision(k as u32));
    out.data_mut().fill_uniform(base2k, &mut Source::new([5u8; 32]));
    module.decompress_lwe(&mut out, &c);
    assert!(out == lwe, "n_lwe={n_lwe} base2k={base2k} size={size}: decompressed LWE != standard encryption");
}

#[test]
fn lwe_compressed_dimension_1() {
    for &base2k in BASE2KS {
        for size in 1..=3 {
            lwe_case(1, base2k, size);
        }
    }
}

#[test]
fn lwe_compressed_dimension_gt_1() {
    for &base2k in BASE2KS {
        for size in 1..=3 {
            for &n_lwe in &[2usize, 8, 33] {
                lwe_case(n_lwe, base2k, size);
            }
        }
    }
}

// ------------------------------------------------------------------------------------------------------------------
// GGLWE-to-GGSW key: per-key route (the top level compressed encryption is known to lose its seeds; and
// `GGLWEToGGSWKeyDecompress` is not implemented for `Module`, so the per-key GGLWE decompression is used)
// ------------------------------------------------------------------------------------------------------------------

#[test]
fn gglwe_to_ggsw_key_compressed_per_key_bit_identical() {
    use poulpy_core::layouts::{GGLWEToGGSWKey, GGLWEToGGSWKeyCompressed};
    let n = 16usize;
    let module = new_module(n);
    for &base2k in BASE2KS {
        for (size, dnum, dsize) in key_grid() {
            for rank in 1..=3usize {
                let k = size * base2k;
                let what = format!("gglwe_to_ggsw base2k={base2k} size={size} dnum={dnum} dsize={dsize} rank={rank}");
                let noise = NoiseInfos::new(k, SIGMA, BOUND).unwrap();
                let sk = make_sk(&module, n, rank, [81u8; 32]);
                let alloc_c = || {
                    GGLWEToGGSWKeyCompressed::alloc(
                        Degree(n as u32),
                        Base2K(base2k as u32),
                        TorusPrecision(k as u32),
                        Rank(rank as u32),
                        Dnum(dnum as u32),
                        Dsize(dsize as u32),
                    )
                };
                let mut key_c: GGLWEToGGSWKeyCompressed<Vec<u8>> = alloc_c();
                key_c.fill_uniform(base2k, &mut Source::new([3u8; 32]));
                let mut scratch: ScratchOwned<BE> = ScratchOwned::alloc(module.gglwe_compressed_encrypt_sk_tmp_bytes(key_c.at(0)));
                let mut pts: Vec<Vec<Poly>> = Vec::new();
                for i in 0..rank {
                    let polys: Vec<Poly> = (0..rank).map(|j| negacyclic_i64(&sk.polys[i], &sk.polys[j])).collect();
                    let mut pt: ScalarZnx<Vec<u8>> = ScalarZnx::alloc(n, rank);
                    for j in 0..rank {
                        pt.at_mut(j, 0).copy_from_slice(&polys[j]);
                    }
                    module.gglwe_compressed_encrypt_sk(
                        key_c.at_mut(i),
                        &pt,
                        &sk.prepared,
                        [0x90u8 + i as u8; 32],
                        &noise,
                        &mut Source::new([0xa0u8 + i as u8; 32]),
                        scratch.borrow(),
                    );
                    pts.push(polys);
                }
                let bytes = ser(&key_c);
                let mut key_c2 = alloc_c();
                key_c2.fill_uniform(base2k, &mut Source::new([4u8; 32]));
                de(&mut key_c2, &bytes);
                assert!(key_c == key_c2, "{what}: serialisation round trip");

                let mut key: GGLWEToGGSWKey<Vec<u8>> = GGLWEToGGSWKey::alloc(
                    Degree(n as u32),
                    Base2K(base2k as u32),
                    TorusPrecision(k as u32),
                    Rank(rank as u32),
                    Dnum(dnum as u32),
                    Dsize(dsize as u32),
                );
                key.fill_uniform(base2k, &mut Source::new([5u8; 32]));
                for i in 0..rank {
                    module.decompress_gglwe(key.at_mut(i), key_c2.at(i));
                    check_gglwe(
                        &format!("{what} key#{i}"),
                        &module,
                        key.at(i),
                        key_c2.at(i).seed(),
                        rank,
                        &pts[i],
                        &sk,
                        noise,
                        [0xa0u8 + i as u8; 32],
                        dnum,
                    );
                }
            }
        }
    }
}

// ------------------------------------------------------------------------------------------------------------------
// LWE related keys: no compressed encryption exists for them and they do not implement `GGLWECompressedSeedMut`;
// they can only be filled through `read_from` (their wire format is the one of `GLWESwitchingKeyCompressed`).
// ------------------------------------------------------------------------------------------------------------------

#[test]
fn lwe_related_keys_compressed_decompress_bit_identical() {
    use poulpy_core::layouts::{
        GGLWECompressedToRef, GGLWEToRef, GLWEToLWEKey, GLWEToLWESwitchingKeyCompressed, LWESwitchingKey,
        LWESwitchingKeyCompressed, LWEToGLWEKey, LWEToGLWEKeyCompressed,
    };
    let n = 16usize;
    let module = new_module(n);
    for &base2k in BASE2KS {
        for &(size, dnum) in &[(2usize, 1usize), (3, 3), (4, 2)] {
            let k = size * base2k;
            let noise = NoiseInfos::new(k, SIGMA, BOUND).unwrap();
            for kind in 0..3 {
                // 0: LWE->LWE (1,1)   1: GLWE->LWE (rank_in, 1)   2: LWE->GLWE (1, rank_out)
                for r in 1..=3usize {
                    let (rank_in, rank_out) = match kind {
                        0 => (1, 1),
                        1 => (r, 1),
                        _ => (1, r),
                    };
                    if kind == 0 && r > 1 {
                        continue;
                    }
                    let what = format!("lwe-key kind={kind} base2k={base2k} size={size} dnum={dnum} rank_in={rank_in} rank_out={rank_out}");
                    let sk_in = make_sk(&module, n, rank_in, [91u8; 32]);
                    let sk_out = make_sk(&module, n, rank_out, [92u8; 32]);
                    let mut ksk_c: GLWESwitchingKeyCompressed<Vec<u8>> = GLWESwitchingKeyCompressed::alloc(
                        Degree(n as u32),
                        Base2K(base2k as u32),
                        TorusPrecision(k as u32),
                        Rank(rank_in as u32),
                        Rank(rank_out as u32),
                        Dnum(dnum as u32),
                        Dsize(1),
                    );
                    let mut scratch: ScratchOwned<BE> = ScratchOwned::alloc(module.glwe_switching_key_compressed_encrypt_sk_tmp_bytes(&ksk_c));
                    let seed_e = [0x18u8; 32];
                    module.glwe_switching_key_compressed_encrypt_sk(
                        &mut ksk_c,
                        &sk_in.sk,
                        &sk_out.sk,
                        [0x19u8; 32],
                        &noise,
                        &mut Source::new(seed_e),
                        scratch.borrow(),
                    );
                    let bytes = ser(&ksk_c);
                    let seeds_c = ksk_c.to_ref().seed().clone();
                    let (nn, b, kk, d) = (Degree(n as u32), Base2K(base2k as u32), TorusPrecision(k as u32), Dnum(dnum as u32));
                    match kind {
                        0 => {
                            let mut c = LWESwitchingKeyCompressed::alloc(nn, b, kk, d);
                            c.fill_uniform(base2k, &mut Source::new([4u8; 32]));
                            de(&mut c, &bytes);
                            assert_eq!(ser(&c), bytes, "{what}: round trip");
                            let mut key = LWESwitchingKey::alloc(nn, b, kk, d);
                            key.fill_uniform(base2k, &mut Source::new([5u8; 32]));
                            module.decompress_gglwe(&mut key, &c);
                            check_gglwe(&what, &module, &key.to_ref(), &seeds_c, rank_in, &sk_in.polys, &sk_out, noise, seed_e, dnum);
                        }
                        1 => {
                            let mut c = GLWEToLWESwitchingKeyCompressed::alloc(nn, b, kk, Rank(rank_in as u32), d);
                            c.fill_uniform(base2k, &mut Source::new([4u8; 32]));
                            de(&mut c, &bytes);
                            assert_eq!(ser(&c), bytes, "{what}: round trip");
                            let mut key = GLWEToLWEKey::alloc(nn, b, kk, Rank(rank_in as u32), d);
                            key.fill_uniform(base2k, &mut Source::new([5u8; 32]));
                            module.decompress_gglwe(&mut key, &c);
                            check_gglwe(&what, &module, &key.to_ref(), &seeds_c, rank_in, &sk_in.polys, &sk_out, noise, seed_e, dnum);
                        }
                        _ => {
                            let mut c = LWEToGLWEKeyCompressed::alloc(nn, b, kk, Rank(rank_out as u32), d);
                            c.fill_uniform(base2k, &mut Source::new([4u8; 32]));
                            de(&mut c, &bytes);
                            assert_eq!(ser(&c), bytes, "{what}: round trip");
                            let mut key = LWEToGLWEKey::alloc(nn, b, kk, Rank(rank_out as u32), d);
                            key.fill_uniform(base2k, &mut Source::new([5u8; 32]));
                            module.decompress_gglwe(&mut key, &c);
                            check_gglwe(&what, &module, &key.to_ref(), &seeds_c, rank_in, &sk_in.polys, &sk_out, noise, seed_e, dnum);
                        }
                    }
                }
            }
        }
    }
}

// ------------------------------------------------------------------------------------------------------------------
// Deserialising into a *larger* dirty receiver, then decompressing
// ------------------------------------------------------------------------------------------------------------------

#[test]
fn read_into_larger_receiver_then_decompress() {
    let n = 8usize;
    let module = new_module(n);
    for &base2k in BASE2KS {
        let (size, dnum, dsize, rank_in, rank_out) = (3usize, 2usize, 1usize, 1usize, 2usize);
        let k = size * base2k;
        let noise = NoiseInfos::new(k, SIGMA, BOUND).unwrap();
        let sk = make_sk(&module, n, rank_out, [21u8; 32]);
        let (nn, b, kk) = (Degree(n as u32), Base2K(base2k as u32), TorusPrecision(k as u32));
        let big_k = TorusPrecision((5 * base2k) as u32);

        // GLWE
        {
            let mut pt: GLWEPlaintext<Vec<u8>> = GLWEPlaintext::alloc(nn, b, kk);
            pt.data_mut().fill_uniform(base2k, &mut Source::new([9u8; 32]));
            let mut c: GLWECompressed<Vec<u8>> = GLWECompressed::alloc(nn, b, kk, Rank(rank_out as u32));
            let mut scratch: ScratchOwned<BE> = ScratchOwned::alloc(module.glwe_compressed_encrypt_sk_tmp_bytes(&c));
            module.glwe_compressed_encrypt_sk(&mut c, &pt, &sk.prepared, [1u8; 32], &noise, &mut Source::new([2u8; 32]), scratch.borrow());
            let mut big: GLWECompressed<Vec<u8>> = GLWECompressed::alloc(nn, Base2K(7), big_k, Rank(3));
            big.fill_uniform(base2k, &mut Source::new([4u8; 32]));
            *big.seed_mut() = [0xeeu8; 32];
            de(&mut big, &ser(&c));
            let mut ct: GLWE<Vec<u8>> = GLWE::alloc(nn, b, kk, Rank(rank_out as u32));
            ct.data_mut().fill_uniform(base2k, &mut Source::new([5u8; 32]));
            module.decompress_glwe(&mut ct, &big);
            check_cell(
                &format!("glwe-big base2k={base2k}"),
                &module,
                ct.data(),
                base2k,
                rank_out,
                &mut Source::new([1u8; 32]),
                &sk.polys,
                Some((&col_limbs(pt.data(), 0), 0)),
                noise,
                &mut Source::new([2u8; 32]),
            );
        }
        // GGLWE
        {
            let (pt, pt_polys) = small_pt(n, rank_in, [22u8; 32]);
            let mut c: GGLWECompressed<Vec<u8>> =
                GGLWECompressed::alloc(nn, b, kk, Rank(rank_in as u32), Rank(rank_out as u32), Dnum(dnum as u32), Dsize(dsize as u32));
            let mut scratch: ScratchOwned<BE> = ScratchOwned::alloc(module.gglwe_compressed_encrypt_sk_tmp_bytes(&c));
            module.gglwe_compressed_encrypt_sk(&mut c, &pt, &sk.prepared, [1u8; 32], &noise, &mut Source::new([2u8; 32]), scratch.borrow());
            let mut big: GGLWECompressed<Vec<u8>> = GGLWECompressed::alloc(nn, Base2K(7), big_k, Rank(3), Rank(1), Dnum(2), Dsize(2));
            big.fill_uniform(base2k, &mut Source::new([4u8; 32]));
            big.seed_mut().iter_mut().for_each(|s| *s = [0xeeu8; 32]);
            de(&mut big, &ser(&c));
            assert_eq!(big.seed(), c.seed());
            let mut ct: GGLWE<Vec<u8>> =
                GGLWE::alloc(nn, b, kk, Rank(rank_in as u32), Rank(rank_out as u32), Dnum(dnum as u32), Dsize(dsize as u32));
            ct.data_mut().fill_uniform(base2k, &mut Source::new([5u8; 32]));
            module.decompress_gglwe(&mut ct, &big);
            check_gglwe(&format!("gglwe-big base2k={base2k}"), &module, &ct, c.seed(), rank_in, &pt_polys, &sk, noise, [2u8; 32], dnum);
        }
        // GGSW
        {
            let (pt, pt_polys) = small_pt(n, 1, [32u8; 32]);
            let mut c: GGSWCompressed<Vec<u8>> = GGSWCompressed::alloc(nn, b, kk, Rank(rank_out as u32), Dnum(dnum as u32), Dsize(dsize as u32));
            let mut scratch: ScratchOwned<BE> = ScratchOwned::alloc(module.ggsw_compressed_encrypt_sk_tmp_bytes(&c));
            module.ggsw_compressed_encrypt_sk(&mut c, &pt, &sk.prepared, [1u8; 32], &noise, &mut Source::new([2u8; 32]), scratch.borrow());
            let mut big: GGSWCompressed<Vec<u8>> = GGSWCompressed::alloc(nn, Base2K(7), big_k, Rank(3), Dnum(2), Dsize(2));
            big.fill_uniform(base2k, &mut Source::new([4u8; 32]));
            big.seed_mut().iter_mut().for_each(|s| *s = [0xeeu8; 32]);
            de(&mut big, &ser(&c));
            assert_eq!(big.seed(), c.seed());
            let mut ct: GGSW<Vec<u8>> = GGSW::alloc(nn, b, kk, Rank(rank_out as u32), Dnum(dnum as u32), Dsize(dsize as u32));
            ct.fill_uniform(base2k, &mut Source::new([5u8; 32]));
            module.decompress_ggsw(&mut ct, &big);
            check_ggsw(&format!("ggsw-big base2k={base2k}"), &module, &ct, c.seed(), &pt_polys[0], &sk, noise, &mut Source::new([2u8; 32]));
        }
    }
}

// ------------------------------------------------------------------------------------------------------------------
// Receivers whose layout does not match the compressed object must be rejected, not silently mis-expanded
// ------------------------------------------------------------------------------------------------------------------

#[test]
fn decompress_rejects_mismatched_receiver() {
    use std::panic::{AssertUnwindSafe, catch_unwind};
    let n = 8usize;
    let module = new_module(n);
    let base2k = BASE2KS[0];
    let (nn, b) = (Degree(n as u32), Base2K(base2k as u32));
    let k4 = TorusPrecision((4 * base2k) as u32);
    let mut accepted: Vec<&str> = Vec::new();

    // GGSW: dsize differs (dnum*dsize <= size on both sides)
    {
        let c: GGSWCompressed<Vec<u8>> = GGSWCompressed::alloc(nn, b, k4, Rank(1), Dnum(2), Dsize(1));
        let mut r: GGSW<Vec<u8>> = GGSW::alloc(nn, b, k4, Rank(1), Dnum(2), Dsize(2));
        if catch_unwind(AssertUnwindSafe(|| module.decompress_ggsw(&mut r, &c))).is_ok() {
            accepted.push("decompress_ggsw: res.dsize()=2 != other.dsize()=1");
        }
    }
    // GGSW: receiver has fewer rows
    {
        let c: GGSWCompressed<Vec<u8>> = GGSWCompressed::alloc(nn, b, k4, Rank(1), Dnum(3), Dsize(1));
        let mut r: GGSW<Vec<u8>> = GGSW::alloc(nn, b, k4, Rank(1), Dnum(4), Dsize(1));
        if catch_unwind(AssertUnwindSafe(|| module.decompress_ggsw(&mut r, &c))).is_ok() {
            accepted.push("decompress_ggsw: res.dnum()=4 > other.dnum()=3");
        }
    }
    // GGLWE: receiver has more input columns than the compressed object
    {
        let c: GGLWECompressed<Vec<u8>> = GGLWECompressed::alloc(nn, b, k4, Rank(1), Rank(1), Dnum(2), Dsize(1));
        let mut r: GGLWE<Vec<u8>> = GGLWE::alloc(nn, b, k4, Rank(2), Rank(1), Dnum(2), Dsize(1));
        if catch_unwind(AssertUnwindSafe(|| module.decompress_gglwe(&mut r, &c))).is_ok() {
            accepted.push("decompress_gglwe: res.rank_in()=2 > other.rank_in()=1");
        }
    }
    // GLWE: base2k differs
    {
        let c: GLWECompressed<Vec<u8>> = GLWECompressed::alloc(nn, b, k4, Rank(1));
        let mut r: GLWE<Vec<u8>> = GLWE::alloc(nn, Base2K(base2k as u32 + 1), TorusPrecision(4 * (base2k as u32 + 1)), Rank(1));
        if catch_unwind(AssertUnwindSafe(|| module.decompress_glwe(&mut r, &c))).is_ok() {
            accepted.push("decompress_glwe: base2k differs");
        }
    }
    // GLWE: rank differs
    {
        let c: GLWECompressed<Vec<u8>> = GLWECompressed::alloc(nn, b, k4, Rank(1));
        let mut r: GLWE<Vec<u8>> = GLWE::alloc(nn, b, k4, Rank(2));
        if catch_unwind(AssertUnwindSafe(|| module.decompress_glwe(&mut r, &c))).is_ok() {
            accepted.push("decompress_glwe: rank differs");
        }
    }
    assert!(accepted.is_empty(), "mismatched receivers silently accepted: {accepted:#?}");
}

/// Consequence of the wrong `rank_in`: a generic GGLWE receiver sized from the compressed tensor key's own infos cannot
/// hold the key it describes.
#[test]
fn tensor_key_compressed_infos_size_a_receiver_for_itself() {
    for rank in 1..=3usize {
        let (n, base2k, k, dnum, dsize) = (16u32, 12u32, 36u32, 2u32, 1u32);
        let c: GLWETensorKeyCompressed<Vec<u8>> =
            GLWETensorKeyCompressed::alloc(Degree(n), Base2K(base2k), TorusPrecision(k), Rank(rank as u32), Dnum(dnum), Dsize(dsize));
        let mut recv: GGLWECompressed<Vec<u8>> = GGLWECompressed::alloc_from_infos(&c);
        let bytes = ser(&c);
        let mut r: &[u8] = &bytes;
        assert!(recv.read_from(&mut r).is_ok(), "rank={rank}: GGLWECompressed::alloc_from_infos(&tensor_key_compressed) too small");
    }
}
