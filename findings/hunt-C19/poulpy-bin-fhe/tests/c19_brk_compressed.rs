//! C19 for the seed-compressed blind-rotation key (CGGI).
//!
//! `BlindRotationKeyCompressed` exposes neither its GGSW elements nor a decompression / preparation routine, so the
//! elements are recovered from the serialised form (`dist | len | GGSWCompressed*`), decompressed one by one with
//! `decompress_ggsw`, and every cell is compared with the exact model of the standard encryption.
#![allow(clippy::needless_range_loop)]

#[path = "../../poulpy-cpu-ref/tests/c19/model.rs"]
mod model;

mod fft64 {
    type BE = poulpy_cpu_ref::FFT64Ref;
    const BASE2KS: &[usize] = &[8, 17];
    include!("c19/brk_body.rs");
}

mod ntt120 {
    type BE = poulpy_cpu_ref::NTT120Ref;
    const BASE2KS: &[usize] = &[17, 52];
    include!("c19/brk_body.rs");
}
