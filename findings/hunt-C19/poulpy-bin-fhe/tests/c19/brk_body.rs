use byteorder::{LittleEndian, ReadBytesExt};
use poulpy_bin_fhe::blind_rotation::{
    BlindRotationKeyCompressed, BlindRotationKeyCompressedEncryptSk, BlindRotationKeyInfos, BlindRotationKeyLayout, CGGI,
};
use poulpy_core::{
    Distribution,
    layouts::{
        Base2K, Degree, Dnum, Dsize, GGSW, GGSWCompressed, GGSWCompressedSeed, GGSWDecompress, GGSWInfos, GLWEInfos, GLWESecret,
        GLWESecretPrepared, GLWESecretPreparedFactory, LWESecret, Rank, TorusPrecision,
    },
};
use poulpy_hal::{
    api::{ModuleNew, ScratchOwnedAlloc, ScratchOwnedBorrow, VecZnxAddNormal},
    layouts::{DeviceBuf, FillUniform, Module, NoiseInfos, ReaderFrom, ScalarZnx, ScratchOwned, VecZnx, WriterTo, ZnxView},
    source::Source,
};

use crate::model::*;

fn next_error(module: &Module<BE>, base2k: usize, n: usize, size: usize, noise: NoiseInfos, source_xe: &mut Source) -> Limbs {
    let mut e: VecZnx<Vec<u8>> = VecZnx::alloc(n, 1, size);
    module.vec_znx_add_normal(base2k, &mut e, 0, noise, source_xe);
    col_limbs(&e, 0)
}

fn run(n_glwe: usize, n_lwe: usize, base2k: usize, size: usize, dnum: usize, rank: usize, block: Option<usize>, seed_xa: [u8; 32]) {
    let what = format!("brk n_glwe={n_glwe} n_lwe={n_lwe} base2k={base2k} size={size} dnum={dnum} rank={rank} block={block:?}");
    let module: Module<BE> = Module::<BE>::new(n_glwe as u64);
    let k = size * base2k;
    let noise = NoiseInfos::new(k, 3.2, 19.2).unwrap();
    let layout = BlindRotationKeyLayout {
        n_glwe: Degree(n_glwe as u32),
        n_lwe: Degree(n_lwe as u32),
        base2k: Base2K(base2k as u32),
        k: TorusPrecision(k as u32),
        dnum: Dnum(dnum as u32),
        rank: Rank(rank as u32),
    };

    // secrets (GLWE secret coefficients replicated column by column, see poulpy-cpu-ref/tests/c19/body.rs)
    let mut sk_glwe: GLWESecret<Vec<u8>> = GLWESecret::alloc(Degree(n_glwe as u32), Rank(rank as u32));
    sk_glwe.fill_ternary_prob(0.5, &mut Source::new([1u8; 32]));
    let mut rep: ScalarZnx<Vec<u8>> = ScalarZnx::alloc(n_glwe, rank);
    let mut src = Source::new([1u8; 32]);
    for i in 0..rank {
        rep.fill_ternary_prob(i, 0.5, &mut src);
    }
    let sk_polys: Vec<Poly> = (0..rank).map(|i| rep.at(i, 0).to_vec()).collect();
    let mut sk_prep: GLWESecretPrepared<DeviceBuf<BE>, BE> = module.glwe_secret_prepared_alloc(Rank(rank as u32));
    module.glwe_secret_prepare(&mut sk_prep, &sk_glwe);

    let mut sk_lwe: LWESecret<Vec<u8>> = LWESecret::alloc(Degree(n_lwe as u32));
    match block {
        Some(b) => sk_lwe.fill_binary_block(b, &mut Source::new([2u8; 32])),
        None => sk_lwe.fill_binary_prob(0.5, &mut Source::new([2u8; 32])),
    }
    let sk_lwe_coeffs: Vec<i64> = sk_lwe.raw().to_vec();
    assert_eq!(sk_lwe_coeffs.len(), n_lwe);

    let mut brk_c: BlindRotationKeyCompressed<Vec<u8>, CGGI> = BlindRotationKeyCompressed::alloc(&layout);
    brk_c.fill_uniform(base2k, &mut Source::new([3u8; 32]));
    let mut scratch: ScratchOwned<BE> = ScratchOwned::alloc(module.blind_rotation_key_compressed_encrypt_sk_tmp_bytes(&layout));
    // dirty scratch
    module.blind_rotation_key_compressed_encrypt_sk(
        &mut brk_c,
        &sk_prep,
        &sk_lwe,
        [0x44u8; 32],
        &noise,
        &mut Source::new([0x45u8; 32]),
        scratch.borrow(),
    );
    let seed_e = [0x46u8; 32];
    module.blind_rotation_key_compressed_encrypt_sk(&mut brk_c, &sk_prep, &sk_lwe, seed_xa, &noise, &mut Source::new(seed_e), scratch.borrow());

    assert_eq!(brk_c.n_lwe().0 as usize, n_lwe);
    assert_eq!(brk_c.n_glwe().0 as usize, n_glwe);

    // serialisation round trip into a dirty receiver
    let mut bytes: Vec<u8> = Vec::new();
    brk_c.write_to(&mut bytes).unwrap();
    let mut brk_c2: BlindRotationKeyCompressed<Vec<u8>, CGGI> = BlindRotationKeyCompressed::alloc(&layout);
    brk_c2.fill_uniform(base2k, &mut Source::new([4u8; 32]));
    {
        let mut r: &[u8] = &bytes;
        brk_c2.read_from(&mut r).unwrap();
        assert!(r.is_empty());
    }
    assert!(brk_c == brk_c2, "{what}: serialisation round trip");

    // recover the elements from the wire format
    let mut r: &[u8] = &bytes;
    let dist = Distribution::read_from(&mut r).unwrap();
    match block {
        Some(b) => assert!(dist == Distribution::BinaryBlock(b), "{what}: dist"),
        None => assert!(dist == Distribution::BinaryProb(0.5), "{what}: dist"),
    }
    let len = r.read_u64::<LittleEndian>().unwrap() as usize;
    assert_eq!(len, n_lwe);

    let mut root = Source::new(seed_xa);
    let mut source_xe = Source::new(seed_e);
    for i in 0..n_lwe {
        let mut el: GGSWCompressed<Vec<u8>> = GGSWCompressed::alloc(
            Degree(n_glwe as u32),
            Base2K(base2k as u32),
            TorusPrecision(k as u32),
            Rank(rank as u32),
            Dnum(dnum as u32),
            Dsize(1),
        );
        el.fill_uniform(base2k, &mut Source::new([5u8; 32]));
        el.read_from(&mut r).unwrap();
        assert_eq!(el.dnum().0 as usize, dnum);
        assert_eq!(el.rank().0 as usize, rank);
        assert_eq!(el.dsize().0, 1);

        // documented derivation: element seed = next new_seed() of the root, cell seeds = successive branches of it
        let mut el_src = Source::new(root.new_seed());
        for (c, s) in el.seed().iter().enumerate() {
            assert_eq!(s, &el_src.new_seed(), "{what}: element {i} cell-seed {c} is not derived from the root seed");
        }

        let mut ggsw: GGSW<Vec<u8>> = GGSW::alloc(
            Degree(n_glwe as u32),
            Base2K(base2k as u32),
            TorusPrecision(k as u32),
            Rank(rank as u32),
            Dnum(dnum as u32),
            Dsize(1),
        );
        ggsw.fill_uniform(base2k, &mut Source::new([6u8; 32]));
        module.decompress_ggsw(&mut ggsw, &el);

        let mut pt = vec![0i64; n_glwe];
        pt[0] = sk_lwe_coeffs[i];
        for row in 0..dnum {
            let mut m: Limbs = vec![vec![0i64; n_glwe]; size];
            m[row] = pt.clone();
            for col in 0..rank + 1 {
                let cell = ggsw.at(row, col);
                let mut src_a = Source::new(el.seed()[row * (rank + 1) + col]);
                let masks: Vec<Limbs> = (0..rank).map(|_| uniform_mask(base2k, n_glwe, size, &mut src_a)).collect();
                for j in 0..rank {
                    assert_eq!(col_limbs(cell.data(), j + 1), masks[j], "{what}: element {i} cell({row},{col}) mask {}", j + 1);
                }
                let e = next_error(&module, base2k, n_glwe, size, noise, &mut source_xe);
                let body = model_body(base2k, size, &masks, &sk_polys, &e, Some((&m, col)));
                assert_eq!(col_limbs(cell.data(), 0), body, "{what}: element {i} cell({row},{col}) body");
            }
        }
    }
    assert!(r.is_empty(), "{what}: trailing bytes");
}

#[test]
fn brk_compressed_bit_identical() {
    for &base2k in BASE2KS {
        for rank in 1..=3usize {
            for &(size, dnum) in &[(2usize, 1usize), (3, 2), (3, 3)] {
                run(8, 5, base2k, size, dnum, rank, None, seeds()[rank % 3]);
                run(16, 6, base2k, size, dnum, rank, Some(3), seeds()[(rank + 1) % 3]);
            }
        }
    }
}
