//! vec_znx_rsh_assign with k = 0 must be the identity on a normalised vector and must not depend on what the scratch held before.
use poulpy_cpu_ref::FFT64Ref as BE;
use poulpy_hal::{
    api::{ModuleNew, ScratchOwnedAlloc, ScratchOwnedBorrow, VecZnxRshAssign, VecZnxRshTmpBytes, VecZnxRsh},
    layouts::{Module, ScratchOwned, VecZnx, ZnxView, ZnxViewMut},
};

fn run(k: usize, fill: u8, assign: bool) -> Vec<i64> {
    let n = 16usize;
    let module: Module<BE> = Module::<BE>::new(n as u64);
    let base2k = 12usize;
    let mut a: VecZnx<Vec<u8>> = VecZnx::alloc(n, 1, 3);
    for j in 0..3 {
        for (i, x) in a.at_mut(0, j).iter_mut().enumerate() {
            *x = ((i as i64 * 37 + j as i64 * 11) % 2000) - 1000;
        }
    }
    let mut scratch: ScratchOwned<BE> = ScratchOwned::alloc(module.vec_znx_rsh_tmp_bytes());
    scratch.borrow().data.fill(fill);
    if assign {
        module.vec_znx_rsh_assign(base2k, k, &mut a, 0, scratch.borrow());
        a.raw().to_vec()
    } else {
        let mut r: VecZnx<Vec<u8>> = VecZnx::alloc(n, 1, 3);
        module.vec_znx_rsh(base2k, k, &mut r, 0, &a, 0, scratch.borrow());
        r.raw().to_vec()
    }
}

#[test]
fn rsh_out_of_place_k0_independent_of_scratch() {
    assert_eq!(run(0, 0x00, false), run(0, 0x5a, false));
}

#[test]
fn rsh_assign_k12_independent_of_scratch() {
    assert_eq!(run(12, 0x00, true), run(12, 0x5a, true));
}

#[test]
fn rsh_assign_k0_independent_of_scratch() {
    assert_eq!(run(0, 0x00, true), run(0, 0x5a, true), "vec_znx_rsh_assign(k = 0) depends on previous scratch contents");
}
