//! C06 for the blind-rotation key (standard and compressed) and the circuit-bootstrapping key bundle.
//! The key containers do not expose their GGSW / GGLWE members, so they are read back through the
//! public serialization (WriterTo of the container, ReaderFrom of the members).
#[path = "../../poulpy-cpu-ref/tests/c06_common/mod.rs"]
mod c06_common;
use c06_common::*;

use std::io::{Cursor, Read};

use poulpy_bin_fhe::{
    blind_rotation::{
        BlindRotationKey, BlindRotationKeyCompressed, BlindRotationKeyCompressedEncryptSk, BlindRotationKeyEncryptSk,
        BlindRotationKeyLayout, CGGI,
    },
    circuit_bootstrapping::{
        CircuitBootstrappingEncryptionInfos, CircuitBootstrappingKey, CircuitBootstrappingKeyEncryptSk,
        CircuitBootstrappingKeyLayout,
    },
};
use poulpy_core::{
    layouts::{
        GGLWE, GGLWEInfos, GGLWEToGGSWKey, GGLWEToGGSWKeyLayout, GGLWEToRef, GGSW, GGSWCompressedSeed, GGSWLayout,
        GLWEAutomorphismKey, GLWEAutomorphismKeyLayout, GLWESecretPreparedFactory,
        compressed::{GGSWCompressed, GGSWDecompress},
    },
    trace_galois_elements,
};
use poulpy_cpu_ref::{FFT64Ref, NTT120Ref};
use poulpy_hal::{
    api::{ModuleNew, ScratchOwnedAlloc, ScratchOwnedBorrow},
    layouts::{Module, NoiseInfos, ReaderFrom, ScratchOwned, WriterTo},
    source::Source,
};

#[derive(Clone, Copy, Debug)]
struct Seeds {
    lwe: [u8; 32],
    glwe: [u8; 32],
    xa: [u8; 32],
    xe: [u8; 32],
}

fn seeds(r: usize) -> Seeds {
    Seeds {
        lwe: seed(0x21, r),
        glwe: seed(0x22, r),
        xa: seed(0x23, r),
        xe: seed(0x24, r),
    }
}

#[derive(Clone, Copy, Debug)]
struct BrkCase {
    n: usize,
    n_lwe: usize,
    b: usize,
    size: usize,
    dnum: usize,
    rank: usize,
    k_noise: usize,
    sigma: f64,
    bound: f64,
    lwe_dist: SkDist,
    glwe_dist: SkDist,
    compressed: bool,
}

/// [key][cell][col][limb][coeff], errors [key][cell][coeff], seeds [key][cell]
struct BrkOut {
    cells: Vec<Vec<Vec<Vec<Vec<i64>>>>>,
    errs: Vec<Vec<Vec<i128>>>,
    stored: Vec<Vec<[u8; 32]>>,
}

fn ggsw_cells(g: &GGSW<Vec<u8>>, b: usize, size: usize, dnum: usize, rank: usize, sk: &[Vec<i64>], pt: &[i64]) -> (Vec<Vec<Vec<Vec<i64>>>>, Vec<Vec<i128>>) {
    let kt = size * b;
    let mut cells = Vec::new();
    let mut errs = Vec::new();
    for row in 0..dnum {
        for col in 0..rank + 1 {
            let ct = g.at(row, col);
            let phase = glwe_phase(ct.data(), b, sk);
            let msg = if col == 0 {
                pt.to_vec()
            } else {
                negacyclic_small(pt, &sk[col - 1])
            };
            let sh = kt - (row + 1) * b;
            let m: Vec<u128> = msg.iter().map(|&x| shl((x as i128) as u128, sh)).collect();
            errs.push(sub_center(&phase, &m, kt));
            cells.push(all_limbs(ct.data()));
        }
    }
    (cells, errs)
}

fn gglwe_cells(
    g: &GGLWE<&[u8]>,
    b: usize,
    size: usize,
    dnum: usize,
    sk_out: &[Vec<i64>],
    pts: &[Vec<i64>],
) -> (Vec<Vec<Vec<Vec<i64>>>>, Vec<Vec<i128>>) {
    let kt = size * b;
    let mut cells = Vec::new();
    let mut errs = Vec::new();
    for row in 0..dnum {
        for (col_in, pt) in pts.iter().enumerate() {
            let ct = g.at(row, col_in);
            let phase = glwe_phase(ct.data(), b, sk_out);
            let sh = kt - (row + 1) * b;
            let m: Vec<u128> = pt.iter().map(|&x| shl((x as i128) as u128, sh)).collect();
            errs.push(sub_center(&phase, &m, kt));
            cells.push(all_limbs(ct.data()));
        }
    }
    (cells, errs)
}

fn mod_inv(p: i64, m: i64) -> i64 {
    let p = p.rem_euclid(m);
    (1..m).step_by(2).find(|x| (x * p) % m == 1).expect("no inverse")
}

macro_rules! brk_cbt_tests {
    ($modname:ident, $BE:ty, $layouts:expr) => {
        mod $modname {
            use super::*;

            fn encrypt_brk(module: &Module<$BE>, c: &BrkCase, s: &Seeds) -> BrkOut {
                let kt = c.size * c.b;
                let layout = BlindRotationKeyLayout {
                    n_glwe: (c.n as u32).into(),
                    n_lwe: (c.n_lwe as u32).into(),
                    base2k: (c.b as u32).into(),
                    k: (kt as u32).into(),
                    dnum: (c.dnum as u32).into(),
                    rank: (c.rank as u32).into(),
                };
                let ggsw_layout = GGSWLayout {
                    n: (c.n as u32).into(),
                    base2k: (c.b as u32).into(),
                    k: (kt as u32).into(),
                    rank: (c.rank as u32).into(),
                    dnum: (c.dnum as u32).into(),
                    dsize: 1u32.into(),
                };
                let noise = NoiseInfos::new(c.k_noise, c.sigma, c.bound).unwrap();
                let (sk_glwe, sk_raw) = make_glwe_sk(c.n, c.rank, c.glwe_dist, s.glwe);
                let (sk_lwe, sk_lwe_raw) = make_lwe_sk(c.n_lwe, c.lwe_dist, s.lwe);
                let mut skp = module.glwe_secret_prepared_alloc((c.rank as u32).into());
                module.glwe_secret_prepare(&mut skp, &sk_glwe);
                let mut xe = Source::new(s.xe);
                let mut bytes: Vec<u8> = Vec::new();
                let mut out = BrkOut {
                    cells: Vec::new(),
                    errs: Vec::new(),
                    stored: Vec::new(),
                };
                if !c.compressed {
                    let mut scratch: ScratchOwned<$BE> =
                        ScratchOwned::alloc(BlindRotationKey::<Vec<u8>, CGGI>::encrypt_sk_tmp_bytes(module, &layout));
                    let mut brk: BlindRotationKey<Vec<u8>, CGGI> = BlindRotationKey::alloc(&layout);
                    let mut xa = Source::new(s.xa);
                    brk.encrypt_sk(module, &skp, &sk_lwe, &noise, &mut xe, &mut xa, scratch.borrow());
                    brk.write_to(&mut bytes).unwrap();
                } else {
                    let mut scratch: ScratchOwned<$BE> =
                        ScratchOwned::alloc(module.blind_rotation_key_compressed_encrypt_sk_tmp_bytes(&layout));
                    let mut brk: BlindRotationKeyCompressed<Vec<u8>, CGGI> = BlindRotationKeyCompressed::alloc(&layout);
                    module.blind_rotation_key_compressed_encrypt_sk(&mut brk, &skp, &sk_lwe, s.xa, &noise, &mut xe, scratch.borrow());
                    brk.write_to(&mut bytes).unwrap();
                }
                let mut cur = Cursor::new(bytes);
                let mut hdr = [0u8; 16];
                cur.read_exact(&mut hdr).unwrap();
                assert_eq!(u64::from_le_bytes(hdr[8..16].try_into().unwrap()) as usize, c.n_lwe);
                for i in 0..c.n_lwe {
                    let mut g: GGSW<Vec<u8>> = GGSW::alloc_from_infos(&ggsw_layout);
                    if !c.compressed {
                        g.read_from(&mut cur).unwrap();
                    } else {
                        let mut gc: GGSWCompressed<Vec<u8>> = GGSWCompressed::alloc_from_infos(&ggsw_layout);
                        gc.read_from(&mut cur).unwrap();
                        module.decompress_ggsw(&mut g, &gc);
                        out.stored.push(gc.seed().clone());
                    }
                    let mut pt = vec![0i64; c.n];
                    pt[0] = sk_lwe_raw[i];
                    let (cells, errs) = ggsw_cells(&g, c.b, c.size, c.dnum, c.rank, &sk_raw, &pt);
                    out.cells.push(cells);
                    out.errs.push(errs);
                }
                assert_eq!(cur.position() as usize, cur.get_ref().len(), "trailing bytes in the serialized key");
                out
            }

            fn run_brk(module: &Module<$BE>, c: &BrkCase) {
                let label = format!("{} {c:?}", stringify!($BE));
                let kt = c.size * c.b;
                let base = encrypt_brk(module, c, &seeds(0));
                let ncells = c.dnum * (c.rank + 1);
                // (a) noise per key (pooled over its cells) and per cell (pooled over the keys)
                let mut per_cell: Vec<Vec<i128>> = vec![Vec::new(); ncells];
                let mut pool = DigitPool::default();
                for (i, key) in base.errs.iter().enumerate() {
                    let mut all = Vec::new();
                    for (cell, e) in key.iter().enumerate() {
                        all.extend_from_slice(e);
                        per_cell[cell].extend_from_slice(e);
                    }
                    check_noise(&format!("{label} key {i}"), &all, kt, c.b, c.k_noise, c.sigma, c.bound);
                    for (cell, cols) in base.cells[i].iter().enumerate() {
                        for (col, limbs) in cols.iter().enumerate() {
                            for (j, l) in limbs.iter().enumerate() {
                                pool.push_raw(cell, col, j, l);
                            }
                        }
                    }
                }
                for (cell, e) in per_cell.iter().enumerate() {
                    assert!(e.len() >= 1 << 14);
                    check_noise(&format!("{label} cell {cell}"), e, kt, c.b, c.k_noise, c.sigma, c.bound);
                }
                // (b)
                pool.check(&label, c.b);
                // (c) no two (key, cell, column) share a mask; no two (key, cell) share an error
                let mut polys: Vec<(String, &Vec<i64>, &Vec<i64>)> = Vec::new();
                let mut errs: Vec<(String, &Vec<i128>)> = Vec::new();
                for (i, key) in base.cells.iter().enumerate() {
                    for (cell, cols) in key.iter().enumerate() {
                        for col in 1..c.rank + 1 {
                            polys.push((format!("key {i} cell {cell} col {col}"), &cols[col][0], &cols[col][c.size - 1]));
                        }
                        errs.push((format!("key {i} cell {cell}"), &base.errs[i][cell]));
                    }
                }
                for i in 0..polys.len() {
                    for j in 0..i {
                        check_independent_digits(&format!("{label}: {} vs {}", polys[i].0, polys[j].0), polys[i].1, polys[j].1, c.b);
                        check_independent_digits(&format!("{label}: {} vs {} (last limb)", polys[i].0, polys[j].0), polys[i].2, polys[j].2, c.b);
                    }
                }
                for i in 0..errs.len() {
                    for j in 0..i {
                        assert_ne!(errs[i].1, errs[j].1, "{label}: {} and {} share their error", errs[i].0, errs[j].0);
                        check_independent_errors(&format!("{label}: {} vs {}", errs[i].0, errs[j].0), errs[i].1, errs[j].1);
                    }
                }
                if c.compressed {
                    let flat: Vec<[u8; 32]> = base.stored.iter().flatten().copied().collect();
                    assert_eq!(flat.len(), c.n_lwe * ncells);
                    for i in 0..flat.len() {
                        assert_ne!(flat[i], seeds(0).xa);
                        assert_ne!(flat[i], [0u8; 32]);
                        for j in 0..i {
                            assert_ne!(flat[i], flat[j], "{label}: mask seeds {i} and {j} coincide");
                        }
                    }
                }
                // determinism / separation
                let s0 = seeds(0);
                let again = encrypt_brk(module, c, &s0);
                assert!(base.cells == again.cells, "{label}: not deterministic");
                let masks = |o: &BrkOut| -> Vec<Vec<Vec<Vec<Vec<i64>>>>> {
                    o.cells.iter().map(|k| k.iter().map(|cell| cell[1..].to_vec()).collect()).collect()
                };
                for which in 0..2 {
                    let mut s = s0;
                    if which == 0 {
                        s.lwe = seed(0x31, 3);
                    } else {
                        s.glwe = seed(0x32, 3);
                    }
                    let o = encrypt_brk(module, c, &s);
                    assert!(masks(&base) == masks(&o), "{label}: plaintext/secret ({which}) altered a mask");
                    assert!(base.errs == o.errs, "{label}: plaintext/secret ({which}) altered the error");
                    assert!(base.stored == o.stored);
                }
                {
                    let mut s = s0;
                    s.xe = seed(0x33, 3);
                    let o = encrypt_brk(module, c, &s);
                    assert!(masks(&base) == masks(&o), "{label}: error seed altered a mask");
                    for i in 0..c.n_lwe {
                        for cell in 0..ncells {
                            assert_ne!(base.cells[i][cell][0], o.cells[i][cell][0]);
                            check_independent_errors(&format!("{label} xe/xe' key {i} cell {cell}"), &base.errs[i][cell], &o.errs[i][cell]);
                        }
                    }
                }
                {
                    let mut s = s0;
                    s.xa = seed(0x34, 3);
                    let o = encrypt_brk(module, c, &s);
                    assert!(base.errs == o.errs, "{label}: mask seed altered the error");
                    for i in 0..c.n_lwe {
                        for cell in 0..ncells {
                            for col in 1..c.rank + 1 {
                                for j in 0..c.size {
                                    check_independent_digits(
                                        &format!("{label} xa/xa' key {i} cell {cell} col {col} limb {j}"),
                                        &base.cells[i][cell][col][j],
                                        &o.cells[i][cell][col][j],
                                        c.b,
                                    );
                                }
                            }
                        }
                    }
                }
            }

            #[test]
            fn blind_rotation_key_grid() {
                let n = 1024usize;
                let module: Module<$BE> = Module::<$BE>::new(n as u64);
                let lwe_dists = [SkDist::BinaryBlock(4), SkDist::BinaryHw(12), SkDist::BinaryProb(0.5)];
                let glwe_dists = all_dists(n);
                let mut idx = 0usize;
                for &(b, size, dnum) in $layouts.iter() {
                    let kt: usize = size * b;
                    for k_noise in [kt, kt - 1, kt - b / 2 - 1] {
                        for rank in 1..=2usize {
                            for compressed in [false, true] {
                                let (sigma, bound) = [(3.2, 19.2), (1.0, 6.0), (8.0, 16.0)][idx % 3];
                                let c = BrkCase {
                                    n,
                                    n_lwe: 16,
                                    b,
                                    size,
                                    dnum,
                                    rank,
                                    k_noise,
                                    sigma,
                                    bound,
                                    lwe_dist: lwe_dists[idx % 3],
                                    glwe_dist: glwe_dists[(idx / 2) % glwe_dists.len()],
                                    compressed,
                                };
                                idx += 1;
                                run_brk(&module, &c);
                            }
                        }
                    }
                }
            }

            // ---------------------------------------------------------------------------------
            // circuit bootstrapping key
            // ---------------------------------------------------------------------------------

            struct Part {
                name: String,
                b: usize,
                size: usize,
                noise: NoiseInfos,
                cells: Vec<Vec<Vec<Vec<i64>>>>,
                errs: Vec<Vec<i128>>,
            }

            #[allow(clippy::too_many_arguments)]
            fn encrypt_cbt(module: &Module<$BE>, n: usize, n_lwe: usize, rank: usize, lay: &[(usize, usize, usize); 3], knoise_off: usize, s: &Seeds) -> (Vec<u8>, Vec<Part>) {
                let (b_brk, size_brk, dnum_brk) = lay[0];
                let (b_atk, size_atk, dnum_atk) = lay[1];
                let (b_tsk, size_tsk, dnum_tsk) = lay[2];
                let nn = |x: usize| x as u32;
                let layout = CircuitBootstrappingKeyLayout {
                    brk_layout: BlindRotationKeyLayout {
                        n_glwe: nn(n).into(),
                        n_lwe: nn(n_lwe).into(),
                        base2k: nn(b_brk).into(),
                        k: nn(b_brk * size_brk).into(),
                        dnum: nn(dnum_brk).into(),
                        rank: nn(rank).into(),
                    },
                    atk_layout: GLWEAutomorphismKeyLayout {
                        n: nn(n).into(),
                        base2k: nn(b_atk).into(),
                        k: nn(b_atk * size_atk).into(),
                        dnum: nn(dnum_atk).into(),
                        rank: nn(rank).into(),
                        dsize: 1u32.into(),
                    },
                    tsk_layout: GGLWEToGGSWKeyLayout {
                        n: nn(n).into(),
                        base2k: nn(b_tsk).into(),
                        k: nn(b_tsk * size_tsk).into(),
                        dnum: nn(dnum_tsk).into(),
                        dsize: 1u32.into(),
                        rank: nn(rank).into(),
                    },
                };
                let enc = CircuitBootstrappingEncryptionInfos {
                    brk: NoiseInfos::new(b_brk * size_brk - knoise_off, 3.2, 19.2).unwrap(),
                    atk: NoiseInfos::new(b_atk * size_atk - knoise_off, 1.0, 6.0).unwrap(),
                    tsk: NoiseInfos::new(b_tsk * size_tsk - knoise_off, 8.0, 16.0).unwrap(),
                };
                let (sk_glwe, sk_raw) = make_glwe_sk(n, rank, SkDist::TernaryProb(0.5), s.glwe);
                let (sk_lwe, sk_lwe_raw) = make_lwe_sk(n_lwe, SkDist::BinaryBlock(4), s.lwe);
                let mut scratch: ScratchOwned<$BE> = ScratchOwned::alloc(
                    <Module<$BE> as CircuitBootstrappingKeyEncryptSk<CGGI, $BE>>::circuit_bootstrapping_key_encrypt_sk_tmp_bytes(
                        module, &layout,
                    ),
                );
                let mut key: CircuitBootstrappingKey<Vec<u8>, CGGI> = CircuitBootstrappingKey::alloc_from_infos(&layout);
                key.encrypt_sk(
                    module,
                    &sk_lwe,
                    &sk_glwe,
                    &enc,
                    &mut Source::new(s.xe),
                    &mut Source::new(s.xa),
                    scratch.borrow(),
                );
                let mut bytes = Vec::new();
                key.write_to(&mut bytes).unwrap();

                let mut parts = Vec::new();
                let mut cur = Cursor::new(bytes.clone());
                let mut hdr = [0u8; 16];
                cur.read_exact(&mut hdr).unwrap();
                let ggsw_layout = GGSWLayout {
                    n: nn(n).into(),
                    base2k: nn(b_brk).into(),
                    k: nn(b_brk * size_brk).into(),
                    rank: nn(rank).into(),
                    dnum: nn(dnum_brk).into(),
                    dsize: 1u32.into(),
                };
                for i in 0..n_lwe {
                    let mut g: GGSW<Vec<u8>> = GGSW::alloc_from_infos(&ggsw_layout);
                    g.read_from(&mut cur).unwrap();
                    let mut pt = vec![0i64; n];
                    pt[0] = sk_lwe_raw[i];
                    let (cells, errs) = ggsw_cells(&g, b_brk, size_brk, dnum_brk, rank, &sk_raw, &pt);
                    parts.push(Part {
                        name: format!("brk[{i}]"),
                        b: b_brk,
                        size: size_brk,
                        noise: enc.brk,
                        cells,
                        errs,
                    });
                }
                let mut w = [0u8; 8];
                cur.read_exact(&mut w).unwrap();
                let n_atk = u64::from_le_bytes(w) as usize;
                let gal_els = trace_galois_elements(n.trailing_zeros() as usize, 2 * n as i64);
                assert_eq!(n_atk, gal_els.len());
                for _ in 0..n_atk {
                    cur.read_exact(&mut w).unwrap();
                    let p = i64::from_le_bytes(w);
                    assert!(gal_els.contains(&p));
                    let mut g: GLWEAutomorphismKey<Vec<u8>> = GLWEAutomorphismKey::alloc_from_infos(&layout.atk_layout);
                    g.read_from(&mut cur).unwrap();
                    let p_inv = mod_inv(p, 2 * n as i64);
                    let sk_out: Vec<Vec<i64>> = sk_raw.iter().map(|x| automorphism_small(x, p_inv)).collect();
                    let (cells, errs) = gglwe_cells(&g.to_ref(), b_atk, size_atk, dnum_atk, &sk_out, &sk_raw);
                    parts.push(Part {
                        name: format!("atk[{p}]"),
                        b: b_atk,
                        size: size_atk,
                        noise: enc.atk,
                        cells,
                        errs,
                    });
                }
                let mut g: GGLWEToGGSWKey<Vec<u8>> = GGLWEToGGSWKey::alloc_from_infos(&layout.tsk_layout);
                g.read_from(&mut cur).unwrap();
                for i in 0..rank {
                    let pts: Vec<Vec<i64>> = (0..rank).map(|j| negacyclic_small(&sk_raw[i], &sk_raw[j])).collect();
                    let gg = g.at(i);
                    assert_eq!(gg.rank_in().as_usize(), rank);
                    let (cells, errs) = gglwe_cells(&gg.to_ref(), b_tsk, size_tsk, dnum_tsk, &sk_raw, &pts);
                    parts.push(Part {
                        name: format!("tsk[{i}]"),
                        b: b_tsk,
                        size: size_tsk,
                        noise: enc.tsk,
                        cells,
                        errs,
                    });
                }
                assert_eq!(cur.position() as usize, cur.get_ref().len());
                (bytes, parts)
            }

            #[test]
            fn circuit_bootstrapping_key() {
                let n = 1024usize;
                let n_lwe = 8usize;
                let module: Module<$BE> = Module::<$BE>::new(n as u64);
                let l = $layouts;
                let lay3 = [l[0], l[1 % l.len()], l[2 % l.len()]];
                for rank in 1..=2usize {
                    for knoise_off in [0usize, 1, 5] {
                        let label = format!("{} cbt rank {rank} k_noise = k - {knoise_off}", stringify!($BE));
                        let s0 = seeds(0);
                        let (bytes, parts) = encrypt_cbt(&module, n, n_lwe, rank, &lay3, knoise_off, &s0);
                        // (a) + (b): pool by component kind, over several independent seed sets
                        let more: Vec<Vec<Part>> = (1..8).map(|r| encrypt_cbt(&module, n, n_lwe, rank, &lay3, knoise_off, &seeds(r)).1).collect();
                        for kind in ["brk", "atk", "tsk"] {
                            let sel: Vec<&Part> = parts
                                .iter()
                                .chain(more.iter().flatten())
                                .filter(|p| p.name.starts_with(kind))
                                .collect();
                            let p0 = sel[0];
                            let mut errs = Vec::new();
                            let mut pool = DigitPool::default();
                            for p in &sel {
                                for (cell, e) in p.errs.iter().enumerate() {
                                    errs.extend_from_slice(e);
                                    for (col, limbs) in p.cells[cell].iter().enumerate() {
                                        for (j, lb) in limbs.iter().enumerate() {
                                            pool.push_raw(0, col, j, lb);
                                        }
                                    }
                                }
                                // and each member on its own
                                let own: Vec<i128> = p.errs.iter().flatten().copied().collect();
                                check_noise(
                                    &format!("{label} {}", p.name),
                                    &own,
                                    p.size * p.b,
                                    p.b,
                                    p.noise.k,
                                    p.noise.sigma,
                                    p.noise.bound,
                                );
                            }
                            assert!(errs.len() >= 1 << 14);
                            check_noise(
                                &format!("{label} {kind} pooled"),
                                &errs,
                                p0.size * p0.b,
                                p0.b,
                                p0.noise.k,
                                p0.noise.sigma,
                                p0.noise.bound,
                            );
                            pool.check(&format!("{label} {kind}"), p0.b);
                        }
                        // (c) no two cells anywhere in the bundle share a mask or an error stream
                        let mut polys: Vec<(String, usize, &Vec<i64>)> = Vec::new();
                        let mut errs: Vec<(String, f64, &Vec<i128>)> = Vec::new();
                        for p in &parts {
                            for (cell, cols) in p.cells.iter().enumerate() {
                                for col in 1..rank + 1 {
                                    polys.push((format!("{} cell {cell} col {col}", p.name), p.b, &cols[col][0]));
                                }
                                errs.push((format!("{} cell {cell}", p.name), 0.0, &p.errs[cell]));
                            }
                        }
                        for i in 0..polys.len() {
                            for j in 0..i {
                                if polys[i].1 == polys[j].1 {
                                    check_independent_digits(
                                        &format!("{label}: {} vs {}", polys[i].0, polys[j].0),
                                        polys[i].2,
                                        polys[j].2,
                                        polys[i].1,
                                    );
                                } else {
                                    assert_ne!(polys[i].2, polys[j].2);
                                }
                            }
                        }
                        for i in 0..errs.len() {
                            for j in 0..i {
                                check_independent_errors(&format!("{label}: {} vs {}", errs[i].0, errs[j].0), errs[i].2, errs[j].2);
                            }
                        }
                        // determinism (the automorphism keys live in a HashMap)
                        for _ in 0..3 {
                            let (bytes2, _) = encrypt_cbt(&module, n, n_lwe, rank, &lay3, knoise_off, &s0);
                            assert!(bytes == bytes2, "{label}: key generation is not a deterministic function of the seeds");
                        }
                        let masks = |ps: &Vec<Part>| -> Vec<Vec<Vec<Vec<Vec<i64>>>>> {
                            ps.iter().map(|p| p.cells.iter().map(|c| c[1..].to_vec()).collect()).collect()
                        };
                        let errs_of = |ps: &Vec<Part>| -> Vec<Vec<Vec<i128>>> { ps.iter().map(|p| p.errs.clone()).collect() };
                        for which in 0..2 {
                            let mut s = s0;
                            if which == 0 {
                                s.lwe = seed(0x41, 1);
                            } else {
                                s.glwe = seed(0x42, 1);
                            }
                            let (_, o) = encrypt_cbt(&module, n, n_lwe, rank, &lay3, knoise_off, &s);
                            assert!(masks(&parts) == masks(&o), "{label}: secret ({which}) altered a mask");
                            assert!(errs_of(&parts) == errs_of(&o), "{label}: secret ({which}) altered an error");
                        }
                        {
                            let mut s = s0;
                            s.xe = seed(0x43, 1);
                            let (_, o) = encrypt_cbt(&module, n, n_lwe, rank, &lay3, knoise_off, &s);
                            assert!(masks(&parts) == masks(&o), "{label}: error seed altered a mask");
                            for (p, q) in parts.iter().zip(o.iter()) {
                                for cell in 0..p.errs.len() {
                                    assert_ne!(p.cells[cell][0], q.cells[cell][0]);
                                    check_independent_errors(&format!("{label} xe/xe' {} {cell}", p.name), &p.errs[cell], &q.errs[cell]);
                                }
                            }
                        }
                        {
                            let mut s = s0;
                            s.xa = seed(0x44, 1);
                            let (_, o) = encrypt_cbt(&module, n, n_lwe, rank, &lay3, knoise_off, &s);
                            assert!(errs_of(&parts) == errs_of(&o), "{label}: mask seed altered an error");
                            for (p, q) in parts.iter().zip(o.iter()) {
                                for cell in 0..p.cells.len() {
                                    for col in 1..rank + 1 {
                                        for j in 0..p.size {
                                            check_independent_digits(
                                                &format!("{label} xa/xa' {} {cell} {col} {j}", p.name),
                                                &p.cells[cell][col][j],
                                                &q.cells[cell][col][j],
                                                p.b,
                                            );
                                        }
                                    }
                                }
                            }
                        }
                    }
                }
            }
        }
    };
}

brk_cbt_tests!(fft64, FFT64Ref, [(17usize, 4usize, 3usize), (12, 5, 4), (19, 3, 2)]);
brk_cbt_tests!(ntt120, NTT120Ref, [(52usize, 2usize, 1usize), (30, 4, 3), (17, 5, 4)]);
